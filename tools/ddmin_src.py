#!/usr/bin/env python3
"""ddmin the 'source' of an artefact while replay-raw of <ID> keeps failing with the same signature.
usage: ddmin_src.py <ID> <replay.json> <out.json> [key]"""
import json,subprocess,sys
pid,src,dst=sys.argv[1:4]
key=sys.argv[4] if len(sys.argv)>4 else 'source'
d=json.load(open(src)); art=d.get('artefact',d)
def sig_of(t):
    a=dict(art); a[key]=t
    r=subprocess.run(['./engine/target/release/verif','replay-raw',pid],input=json.dumps(a),capture_output=True,text=True)
    for line in reversed(r.stdout.splitlines()):
        try:
            v=json.loads(line)
            return v.get('sig') if v.get('r')=='fail' else None
        except Exception: pass
    return 'crash' if r.returncode!=0 else None
text=art[key]
want=sig_of(text)
assert want, "does not fail"
print("signature:",want,file=sys.stderr)
lines=text.split('\n')
n=2
while len(lines)>=2:
    chunk=max(1,len(lines)//n); removed=False
    for i in range(0,len(lines),chunk):
        cand=lines[:i]+lines[i+chunk:]
        if cand and sig_of('\n'.join(cand))==want:
            lines=cand; n=max(n-1,2); removed=True; break
    if not removed:
        if chunk==1: break
        n=min(n*2,len(lines))
art[key]='\n'.join(lines)
json.dump({'artefact':art,'signature':want},open(dst,'w'),indent=1)
print(art[key])
