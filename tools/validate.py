#!/usr/bin/env python3-vt
import json, jsonschema, glob, sys
ok=True
jsonschema.validate(json.load(open('MANIFEST.json')), json.load(open('/root/.vp/MANIFEST.schema.json')))
es=json.load(open('/root/.vp/EVIDENCE.schema.json'))
for f in sorted(glob.glob('evidence/*.json')):
    try:
        jsonschema.validate(json.load(open(f)), es)
    except Exception as e:
        ok=False; print('INVALID', f, str(e)[:300])
print('manifest+evidence valid' if ok else 'FAILED')
sys.exit(0 if ok else 1)
