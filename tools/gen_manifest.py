#!/usr/bin/env python3
"""Regenerates /verif/MANIFEST.json from the table below (run from /verif)."""
import json, os, sys

CHECKS = {
  "C10": dict(
    level="exploration", design="DESIGN.md 3/C10",
    technique="property-based testing (proptest choice sequences) + text mutators; oracle: tree invariants (leaves concat == input, children tile, root spans file, get_text == slice); thorough tier adds a bounded coverage-guided libFuzzer campaign (cargo-fuzz target fuzz/fuzz_targets/c10_lossless.rs with the oracle inside the target, artifacts confirmed by the engine oracle)",
    text="Generated-input search: ~64k (quick) / ~770k (thorough) mutated and synthetic source texts are parsed and all four losslessness clauses are checked on every tree; failures are shrunk (proptest + ddmin) to a replay file; the thorough command then runs libFuzzer for 240 s on all cores (about 10^5 executions) from a small valid seed corpus. Exploration is the right level: the property quantifies over all texts and the oracle is exact per input.",
    note="Trusted: my tree walk and the rough lexer used only for failure descriptions; SimpleParserDatabase is the parser entry point. Inputs are valid UTF-8 <= 16 KiB."),
}

CHECKS["C09"] = dict(
    level="exploration", design="DESIGN.md 3/C09",
    technique="property-based testing: proptest-driven text mutators (byte/token/subtree mutants of the .cairo corpus, multi-byte comment insertion, token soups, attribute soups with generated argument lists, depth stressors) in crash-isolated worker processes; oracle: no panic / signal / CPU runaway, diagnostic spans inside their file",
    text="~64k (quick) / ~640k (thorough) generated texts go through lex+parse+format, a quarter of them also through semantic+lowering diagnostics with the corelib (Starknet plugins when the text mentions them). Panics are keyed by call site, process deaths are reproduced twice in fresh processes before they count. Exploration: totality over all texts cannot be enumerated; the oracle is exact per input.",
    note="Trusted: catch_unwind + subprocess isolation; 8 MiB stacks; CPU-time rule for runaways; inputs valid UTF-8 <= 16 KiB, nesting <= 200. Listed known findings (panic sites reachable with garbled contracts) are reported as KNOWN-FINDING.")
CHECKS["C11"] = dict(
    level="exploration", design="DESIGN.md 3/C11",
    technique="property-based testing: layout-mutated error-free corpus texts x FormatterConfig lattice; oracles: round-trip (output parses, f(f(t)) == f(t)), token/comment preservation modulo stated optional separators, metamorphic Sierra(f(t)) == Sierra(t)",
    text="~19k (quick) / ~256k (thorough) (text, config) pairs: runs of items of every parser-clean .cairo file, whitespace/comment/comma mutated, formatted under sampled configurations; five oracles per case, all evaluated even when an earlier one hits a known finding. Exploration with exact per-input oracles.",
    note="Trusted: my token/comment extraction over the syntax tree and the normalisation N1-N3 (DESIGN C11) of meaning-free optional separators; Sierra equality (debug names, source offsets stripped) checks that these never change code. Known findings: comment-placement non-idempotence, use-section regrouping, macro-rule comments, '/'+comment gluing.")

CHECKS["C01"] = dict(
    level="exploration", design="DESIGN.md 3/C01",
    technique="property-based differential testing: type-directed random Cairo programs (own IR) x boundary/small/random inputs x compiler configurations, against an independent BigInt reference evaluator of the IR (the generator includes shuffle functions, specialisation wrappers and dispatcher functions aimed at return / specialisation optimisations)",
    text="1,536 (quick) / 20,480 (thorough) generated programs, each run on 8 argument vectors under the default and one drawn configuration (optimisations off, inlining strategies, const folding off, numeric-match thresholds; non-linear solvers on small programs): the Serde-serialised result or the panic data must equal the reference evaluator's outcome felt for felt. The entry point also returns a digest of all scalar variables and guarded identity/neighbour probes, so intermediate values are observable.",
    note="Trusted: the reference evaluator (oracle/eval.rs) as the statement of the documented semantics (corelib panic strings, truncated signed division, left-to-right evaluation, Serde layout); cairo-vm as the machine. Limited to the modelled subset (see DESIGN 2.2).")
CHECKS["C02"] = dict(
    level="exploration", design="DESIGN.md 3/C02",
    technique="property-based testing: generated programs + Sierra-type-directed in-range arguments for corpus functions + gas-budget sweeps; oracle: the VM run returns Ok (value or Sierra-level panic), never CairoRunError",
    text="~110k executions per quick run: generated programs on panic-provoking inputs, builtin-loop programs (gens/builtin_loops: 13 builtin-using operations x 6 control-flow shapes, e.g. one dictionary keyed by a small index and a large felt), every free function with constructible parameter types from the e2e libfunc snippets and examples on boundary/in-range arguments, each also re-run under 3 gas budgets swept between the entry cost and 1.5x the honest consumption so that withdraw_gas fails at different points; both solvers, several front-end configurations.",
    note="Trusted: arguments are in range by Sierra parameter type (my generator), honest hints are the runner's. Budget 3*10^8 gas keeps the gas-bounded step count feasible. Mutants of Sierra that still compile are exercised by C15's population, not here.")
CHECKS["C04"] = dict(
    level="exploration", design="DESIGN.md 3/C04",
    technique="property-based testing with a trace invariant: 100*steps + sum price(b)*uses(b) <= (gas given - gas left) + 100 on every execution with a gas counter, under both gas solvers and swept budgets",
    text="~21k judged executions per quick run (generated programs with loops/recursion/dicts/arrays, corpus functions, and ~800 builtin-loop programs that use Pedersen / Poseidon / Bitwise / EcOp / circuit AddMod-MulMod / Blake2s / dictionaries / QM31 inside loops, recursion, one- and two-armed conditionals, early exits and non-inlined helpers), half of them out-of-gas runs produced by the budget sweep; the inequality is tight on this tree (hundreds of runs with slack exactly 0), so an undercharge of one step on a covered path flips it.",
    note="Trusted: step count from the relocated trace outside the entry-code header; prices from ConstCost/token_gas_cost; memory holes unpriced (weaker, no false alarms). Solver Err = no metadata, skipped.")
CHECKS["C17"] = dict(
    level="exploration", design="DESIGN.md 3/C17",
    technique="property-based testing with trace invariants (per dynamic call frame ap_at_ret - ap_at_entry == declared ap change; statement ranges tile the bytecode; executed pcs are instruction boundaries in exactly one range), plus two metamorphic / differential parts for reachability of ap-relative values: store-elision mutants of compiled programs must keep their result, and generated Sierra data-flow programs with calls of unknown ap change must compute what an own evaluation of the data flow prescribes",
    text="~12k executions / ~400k checked call frames per quick run over generated programs (recursion, nested calls, loops) and corpus functions, alternating linear and non-linear ap-change solvers; static layout invariants checked for every compiled program, with instruction lengths taken from the assembled encoding; ~16k store-elision mutants (store_temp -> rename, store_local -> drop + rename; ~400 accepted and compared) and ~850 generated data-flow programs (~80 accepted and compared) per quick run.",
    note="Trusted: frames are delimited by call/ret of the compiled instruction list (pcs beyond it - const segments, footer - are bare rets).")

CHECKS["C05"] = dict(
    level="exploration", design="DESIGN.md 3/C05",
    technique="metamorphic property-based testing: same program and inputs under two compiler configurations (optimisations, inlining strategy, const folding, numeric-match threshold, gas/ap solver) must give the same pointer-aware result",
    text="~1,700 configuration pairs / ~10k paired executions per quick run over generated programs and corpus functions (e2e snippets, examples); two thirds of the pairs provably change the generated Sierra (measured), so the comparison is not vacuous.",
    note="Trusted: my result normaliser (arrays/boxes by content, enum padding ignored, dictionaries opaque). Excluded by the statement: gas-introspection functions and pairs ending 'Out of gas'.")

CHECKS["C06"] = dict(
    level="exploration", design="DESIGN.md 3/C06",
    technique="exhaustive enumeration (all 65,536 operand pairs of u8 and i8) + boundary cross products + seeded random operands for wider types, against a BigInt model of every operation",
    text="~1M executions per quick run: for each of u8..u128, i8..i128, u256, felt252 a generated crate exposes the operator forms (+ - * / %, unary -) and a batch of overflowing/wrapping/checked/saturating variants, comparisons, bitwise ops, sqrt, wide_mul and wide_square (incl. u256 -> u512), div_rem, felt252_div, try_into to every other type, and for u256 core::math::u256_mul_mod_n / u256_inv_mod / u256_div_mod_n and u512_safe_div_rem_by_u256 (u128: u128_byte_reverse); results and panic data are compared with the mathematical model. The 8-bit slice is exhaustive; wider types are explored on boundary sets (2^k, 2^k+-1, MIN/MAX+-d, perfect squares +-1) and random operands.",
    note="Trusted: the BigInt model in props/c06.rs (which panic / None / overflow flag is due when). Level is exploration overall; the evidence names the exhaustive slice separately. BoundedInt division (bounded_int::div_rem over boundary dividend ranges and all unsigned divisor types) is covered by a generated family; the other BoundedInt helpers are not.")

CHECKS["C07"] = dict(
    level="exploration", design="DESIGN.md 3/C07",
    technique="differential property-based testing of three evaluators: generated const-evaluable expression trees evaluated as a const item (semantic evaluator), at run time with opaque arguments (reference), and as literals in a function body with constant folding on and off (lowering folder)",
    text="2,560 (quick) / 32,000 (thorough) expression trees over the documented const-evaluable constructs, a third of them operator templates on (boundary, boundary) operand pairs of one integer type; const rejected iff run time panics, equal values otherwise, folded result identical to run time incl. panic data.",
    note="Trusted: run-time behaviour under the default configuration as the reference; evaluation failures recognised by diagnostic codes E2128/E2130/E2131/E2008; E2127 (unsupported constant) means the generator left the subset and is counted, not judged.")

CHECKS["C14"] = dict(
    level="exploration", design="DESIGN.md 3/C14",
    technique="mutation-based fuzzing of Sierra programs (enumerated single-point mutants + proptest multi-point mutants + mutated felt serialisations) through registry / metadata / compile in crash-isolated workers; oracle: every entry point returns (no panic, abort or runaway)",
    text="~575k mutants per quick run: single-point mutations of every corpus Sierra program <= 400 statements (thinned cross products; thorough: complete for programs <= 1,000 statements, every 40th element for the few larger ones), libfunc instantiations (every generic libfunc of the corpus with 1-3 type arguments over a pool of 28 boundary types), multi-point mutants and format-aware felt vectors (compressed layer, value stream, whole vector) through extract_sierra_program; stages ProgramRegistryInfo::new, calc_metadata (linear, non-linear on small programs), calc_metadata_ap_change_only, compile with and without gas checks. Panics are keyed by call site; listed panic sites are reported as KNOWN-FINDING and the search continues past them.",
    note="Trusted: catch_unwind + subprocess isolation, 8 MiB stacks, 16 GiB address-space limit. One known shape (type-declaration cycle through a circuit gate: unbounded recursion) is excluded by construction and counted. Only programs that parse are mutated (the text parser is C18's).")
CHECKS["C15"] = dict(
    level="exploration", design="DESIGN.md 3/C15",
    technique="differential testing against an independent checker: accepted Sierra programs - near-miss mutants of corpus programs and generated diamonds (a branch, two independently generated arms, a merge, a tail) - must pass my own worklist data-flow typing/linearity checker over the libfunc signatures",
    text="~530k near-miss mutants per quick run, of which ~11k are accepted by the compiler and differ from their origin; each accepted one is re-checked for argument types, exact-once use, no overwrite, branch arity and alignment, merge agreement, return types with nothing left over and dup/drop legality. All 400+ unmutated corpus programs are the false-alarm control (a checker rejection there makes the run inconclusive).",
    note="Trusted: libfunc signatures from the program registry; my checker (oracle/sierra_check.rs) and its table of non-droppable / non-duplicable resource types. Reference expressions, ap tracking and gas are outside the checker (C17/C04 cover their consequences).")

CHECKS["C18"] = dict(
    level="exploration", design="DESIGN.md 3/C18",
    technique="round-trip property-based testing: Sierra programs (corpus + compiled from generated programs, snippets and examples, with raw ids and debug names) through text, felt252 and versioned-JSON serialisation; CASM equality across id renderings",
    text="~2,300 programs per quick run (every e2e snippet / example swept under the default configuration, plus a sampled part over corpus Sierra, generated programs and drawn configurations); per program: display -> parse -> display fixpoint after one round and isomorphism (canonical ids incl. user types), ContractClass felt round trip equality, debug names stripped and restored through DebugInfo::extract / populate (as contract classes do) then printed and parsed: isomorphic to the original, VersionedProgram JSON equality (value, text, printed form), and byte-identical CASM for raw ids / debug names / canonical ids / parsed / felt-round-tripped / debug-info-populated versions.",
    note="Trusted: CanonicalReplacer plus my user-type renaming as the isomorphism key; identity of ids ignores debug names by design of the code base.")

CHECKS["C16"] = dict(
    level="exploration", design="DESIGN.md 3/C16",
    technique="differential property-based testing: exhaustive enumeration of CASM instruction shapes x boundary offsets / immediates, one cairo-vm step over encode(assemble(i)) from seeded random machine states against an own reference step written from the printed meaning; op_size equality",
    text="180 shapes (all eight bodies), ~55,000 instruction instances, 6 (quick) / 40 (thorough) machine states each; outcome, pc, ap, fp and the set of newly written cells (write-once deduction of destination or operand) must agree; encoded length equals op_size. QM31 add / mul assertions are compared against an own QM31 field implementation, Blake2s against an own RFC 7693 compression function.",
    note="Trusted: cairo-vm's step as the executing machine (the property is stated against it). Pairs where the printed meaning does not determine the outcome (operand aliasing the destination, pointer x pointer arithmetic) are skipped and counted.")

CHECKS["C08"] = dict(
    level="exploration", design="DESIGN.md 3/C08",
    technique="property-based testing with two oracles: (A) error-free diagnostics imply success of every later stage (Sierra generation, registry validation, own Sierra checker, metadata, CASM) over generated programs and front-end-accepted token mutants under random optimisation configurations; (B) metamorphic twins from an ownership-tracking program generator: one injected use-after-move / undropped value must turn an accepted program into a rejected one",
    text="~3,800 cases per quick run: ~900 error-free sources compiled end to end (generated, corpus, ownership programs, corelib-heavy crates incl. containers over non-copyable elements, and their accepted mutants) and ~1,800 injected twins over 14 injection kinds (by-value, let, snapshot, ref, member, partial-move, in-loop moves; consumption removed; never consumed; panicable call while a value without any destructor lives, inside and outside regions that end with a panic).",
    note="Trusted: my generator's model of the move rules (monitored: a valid twin the compiler rejects is counted and bounded by the health check at 10%). The legacy non-linear gas solver is not part of the pipeline checked here (it is not an optimisation configuration and documents unsupported libfuncs).")

CHECKS["C13"] = dict(
    level="exploration", design="DESIGN.md 3/C13",
    technique="stateful (model-based) property-based testing: generated edit histories applied to one RootDatabase through override_file_content with interleaved queries; after steps, diagnostics (with locations) and Sierra are compared with a fresh database given the same contents; histories shrink as one value and are then delta-debugged step-wise",
    text="128 histories (quick) of 4-30 edits over a two-file project: trivia shifts, renames in one or both files, statement / item insertion, duplication, deletion and moves, syntax-breaking edits and repairs, override unset / set, no-op rewrites, literal changes; ~750 check points per quick run, about a third on error-free contents (Sierra compared) and two thirds on erroneous contents (diagnostics with line/column compared).",
    note="Trusted: a fresh RootDatabase as the reference. The project is rooted at a non-existent directory; all contents arrive through file overrides (the language-server path), so on-disk change detection is not exercised.")

CHECKS["C12"] = dict(
    level="exploration", design="DESIGN.md 3/C12",
    technique="metamorphic property-based testing over histories and schedules: each project is compiled in a fresh database plainly (one-thread pool) and in a second fresh database after a generated history of unrelated queries (other crates, shuffled per-function Sierra / lowering queries, partly concurrent on database snapshots) inside a rayon pool of 1/2/4/16 threads; every output must be byte-identical",
    text="~500 projects per quick run (generated programs, e2e snippets, examples, a third of them with token mutations for non-empty diagnostics, one in eight a triple of Starknet test contracts, one in five a hand-written template: mutual recursion, implicit precedence, generic traits, closures); compared: diagnostics text, printed Sierra with debug names + statement annotations, canonical-id program, CASM text, ContractClass and CasmContractClass JSON. In ~85% of the cases the raw interned ids of the two runs differ, i.e. the history really permuted id allocation.",
    note="The harness owns query order, snapshot concurrency and pool size, not thread interleavings inside a pool. Raw interned ids (also inside the JSON form of debug-name ids and in the annotations keyed by them) legitimately depend on the history and are not compared.")

CHECKS["C20"] = dict(
    level="exploration", design="DESIGN.md 3/C20",
    technique="differential property-based testing: the same dependent compiled in two databases that differ only in one crate's cache_file (the core library's blob from generate_crate_cache, or the blob of a generated library crate the dependent calls into), under random optimisation configurations; diagnostics, Sierra and CASM compared",
    text="640 dependents per quick run: ~440 against the corelib cache (generated programs, e2e snippets, examples and corelib-heavy programs composed from 57 functions over containers of non-copyable elements, deprecated / unstable corelib items, iterator adapters, ByteArray / format!, Option / Result combinators, dictionaries, spans, integer traits, u256, hashes, EC, keccak, sha256, Serde, boxes, fixed arrays) and ~200 against the cache of a generated library crate with closure-bearing functions (in half of them the corelib is cached too).",
    note="The blob is generated under the same global flags as it is used with (a different flag set is refused by the loader, a documented precondition), so the numeric-match flag stays unset. Dependents that panic on both sides are skipped.")

CHECKS["C19"] = dict(
    level="exploration", design="DESIGN.md 3/C19",
    technique="property-based testing with validity predicates and a differential: generated Starknet contracts (template grammar over entry-point sets, names and builtin-using bodies) and the 20 test contracts are compiled to classes; each CasmContractClass is checked against an own recompilation (calc_metadata + compile + assemble + encode of the decoded program) and against structural invariants stated by the property",
    text="~790 classes per quick run (20 corpus contracts + ~770 generated, using all nine protocol builtins between them); per class: published-JSON vs in-memory class, class-hash and JSON stability, pythonic hints on/off, bytecode vs own recompilation, entry point offset / builtin list / selector order / selector == keccak(ABI name), hint offsets, segment length sum, max_bytecode_size = size and size-1.",
    note="Trusted: my own copy of the protocol builtin order and names; the decoded Sierra program as the thing the class means. Generated contracts rejected by the front end are skipped (health check bounds them).")

CHECKS["C03"] = dict(
    level="exploration", design="DESIGN.md 3/C03",
    technique="fault-injection property-based testing: a wrapper around the honest hint processor rewrites, at one generated dynamic hint occurrence, the hint's output cells with a generated alternative value; metamorphic oracle: the run fails in the VM or its normalised result equals the honest run's",
    text="~23,000 applied hint faults per quick run over 21 hint kinds (comparisons, divisions incl. u256 / u512, wide multiplication, square roots, linear split, inverse mod n, field square root, random EC point, dictionary squash loop hints, assert-le arcs), on e2e libfunc snippets, examples, felt252 -> BoundedInt range reductions over boundary (L, U) pairs, a curated file of hint-rich corelib calls and generated programs; ~75% VM failures, ~24% same result, <1% aborts of the honest hint code.",
    note="Not faulted (stated limit): pointer-producing hints, hints writing into builtin / dictionary segments, DebugPrint, EvalCircuit, deprecated hints, syscalls. Gas differences are not violations.")

PENDING_REASON = "check not built yet in this session (planned in DESIGN.md section 3; the property itself is amenable to the technique)"

def main():
    ids = [json.loads(l)["id"] for l in open("properties.jsonl")]
    checks = []
    for pid in ids:
        if pid not in CHECKS: continue
        c = CHECKS[pid]
        checks.append({
            "property_id": pid,
            "quick_cmd": f"./run.sh {pid} quick",
            "thorough_cmd": f"./run.sh {pid} thorough",
            "evidence_file": f"evidence/{pid}.json",
            "replay_cmd_template": f"./run.sh {pid} --replay {{path}}",
            "engine": "engine",
            "level_claimed": {"category": c["level"], "text": c["text"], "design_ref": c["design"]},
            "level_note": c["note"],
            "technique": c["technique"],
        })
    m = {
        "version": 1,
        "setup_cmd": "cd engine && CARGO_NET_OFFLINE=true cargo build --release",
        "hooks": {
            "guard": "--cfg cairo_verif (unused: no hooks were needed; every observation point is reachable through public APIs)",
            "enable": "none required; checks build /repo's crates by path from engine/Cargo.toml",
            "baseline_off_cmd": "./baseline.sh",
            "source_commits": [],
            "add_only": True,
        },
        "engines": [
            {"name": "engine", "path": "engine", "serves_properties": [c["property_id"] for c in checks],
             "kind_free_text": "Rust crate: proptest-driven choice-sequence generators, sharded worker subprocesses, shrinking (proptest + ddmin), replay, evidence"},
        ],
        "checks": checks,
        "not_applicable": [{"property_id": pid, "reason": PENDING_REASON} for pid in ids if pid not in CHECKS],
        "notes": "See DESIGN.md. known_findings.json lists genuine defects (fixed: with the /repo fix commit; known: unrepaired). Exit codes: 0 held, 1 violation (VIOLATION line), 2 inconclusive (build failure, generator health, crash that did not reproduce).",
    }
    json.dump(m, open("MANIFEST.json", "w"), indent=1)
    print("checks:", [c["property_id"] for c in checks])

main()
