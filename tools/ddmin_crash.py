#!/usr/bin/env python3
"""ddmin a text artefact whose replay crashes the process (signal). usage: ddmin_crash.py <ID> <replay.json> <out.json>"""
import json,subprocess,sys
pid,src,dst=sys.argv[1:4]
d=json.load(open(src)); art=d.get('artefact',d)
def crashes(t):
    a=dict(art); a['text']=t
    r=subprocess.run(['./engine/target/release/verif','replay-raw',pid],input=json.dumps(a),capture_output=True,text=True)
    return r.returncode<0 or (r.returncode!=0 and 'overflowed' in r.stderr)
text=art['text']
assert crashes(text), "does not crash"
lines=text.split('\n')
n=2
while len(lines)>=2:
    chunk=max(1,len(lines)//n); removed=False
    for i in range(0,len(lines),chunk):
        cand=lines[:i]+lines[i+chunk:]
        if cand and crashes('\n'.join(cand)):
            lines=cand; n=max(n-1,2); removed=True; break
    if not removed:
        if chunk==1: break
        n=min(n*2,len(lines))
t='\n'.join(lines)
# char-level pass, coarse
i=0; step=max(1,len(t)//40)
while step>=1:
    i=0
    while i<len(t):
        cand=t[:i]+t[i+step:]
        if cand and crashes(cand): t=cand
        else: i+=step
    step//=2
art['text']=t
json.dump({'artefact':art},open(dst,'w'),indent=1)
print(repr(t))
