#!/bin/bash
# usage: tools/try_seeded.sh <patch.diff> <ID> [tier] [seed]   -- applies the patch to /repo, runs the check, reverts.
PATCH="$(realpath "$1")"; ID="$2"; TIER="${3:-quick}"; SEED="${4:-0}"
cd /repo || exit 2
if ! git diff --quiet; then echo "/repo has uncommitted changes; refusing"; exit 2; fi
git apply "$PATCH" || { echo "patch does not apply"; exit 2; }
cd /verif
VERIF_SEED=$SEED ./run.sh "$ID" "$TIER" > /tmp/seeded-run-$ID.log 2>&1
rc=$?
git -C /repo checkout -- . 
grep -E "^VIOLATION|^KNOWN|^INCONCLUSIVE|^$ID " /tmp/seeded-run-$ID.log | cut -c1-300
grep -E "^violation" /tmp/seeded-run-$ID.log | cut -c1-400 | head -5
echo "exit=$rc"
exit $rc
