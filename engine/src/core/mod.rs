pub mod cairo;
pub mod choices;
pub mod corpus;
pub mod driver;
pub mod known;
pub mod panics;
pub mod shrink;
