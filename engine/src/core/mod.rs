pub mod cairo;
pub mod choices;
pub mod corpus;
pub mod driver;
pub mod exec;
pub mod known;
pub mod panics;
pub mod shrink;
