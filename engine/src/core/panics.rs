//! Panic capture: a global hook records `file:line` and the message of the panic on the current
//! thread; `catch` runs a closure under `catch_unwind` and returns the record on panic.

use std::cell::RefCell;
use std::panic::{self, AssertUnwindSafe};
use std::sync::Once;

#[derive(Clone, Debug)]
pub struct PanicRec {
    pub loc: String,
    pub msg: String,
}

thread_local! {
    static LAST: RefCell<Option<PanicRec>> = const { RefCell::new(None) };
    static QUIET: RefCell<bool> = const { RefCell::new(false) };
}

static INIT: Once = Once::new();

pub fn install_hook() {
    INIT.call_once(|| {
        let prev = panic::take_hook();
        panic::set_hook(Box::new(move |info| {
            let loc = info
                .location()
                .map(|l| format!("{}:{}", strip_repo(l.file()), l.line()))
                .unwrap_or_else(|| "<unknown>".into());
            let msg = if let Some(s) = info.payload().downcast_ref::<&str>() {
                s.to_string()
            } else if let Some(s) = info.payload().downcast_ref::<String>() {
                s.clone()
            } else {
                "<non-string panic payload>".to_string()
            };
            if std::env::var("VERIF_PANIC_BT").is_ok() {
                eprintln!("PANIC at {loc}: {msg}\n{}", std::backtrace::Backtrace::force_capture());
            }
            let quiet = QUIET.with(|q| *q.borrow());
            LAST.with(|l| *l.borrow_mut() = Some(PanicRec { loc, msg }));
            if !quiet {
                prev(info);
            }
        }));
    });
}

fn strip_repo(p: &str) -> String {
    let p = p.strip_prefix("/repo/").unwrap_or(p);
    // Registry paths: keep crate dir + relative path.
    if let Some(i) = p.find("/registry/src/") {
        let rest = &p[i + "/registry/src/".len()..];
        if let Some(j) = rest.find('/') {
            return rest[j + 1..].to_string();
        }
    }
    p.to_string()
}

/// Runs `f`, converting a panic into `Err(PanicRec)`. Panic output is suppressed.
pub fn catch<T>(f: impl FnOnce() -> T) -> Result<T, PanicRec> {
    install_hook();
    QUIET.with(|q| *q.borrow_mut() = true);
    LAST.with(|l| *l.borrow_mut() = None);
    let r = panic::catch_unwind(AssertUnwindSafe(f));
    QUIET.with(|q| *q.borrow_mut() = false);
    match r {
        Ok(v) => Ok(v),
        Err(_) => Err(LAST
            .with(|l| l.borrow_mut().take())
            .unwrap_or(PanicRec { loc: "<unknown>".into(), msg: "<no record>".into() })),
    }
}

/// Thread CPU time in seconds.
pub fn thread_cpu_s() -> f64 {
    let mut ts = libc::timespec { tv_sec: 0, tv_nsec: 0 };
    unsafe {
        libc::clock_gettime(libc::CLOCK_THREAD_CPUTIME_ID, &mut ts);
    }
    ts.tv_sec as f64 + ts.tv_nsec as f64 * 1e-9
}
