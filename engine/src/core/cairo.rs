//! Shared access to the compiler: databases with the dev corelib, virtual crates, diagnostics.

use std::sync::Arc;

use cairo_lang_compiler::db::RootDatabase;
use cairo_lang_compiler::diagnostics::DiagnosticsReporter;
use cairo_lang_defs::ids::ModuleId;
use cairo_lang_diagnostics::DiagnosticEntry;
use cairo_lang_filesystem::db::{FilesGroup, init_dev_corelib};
use cairo_lang_filesystem::ids::{
    BlobLongId, CrateId, CrateInput, FileInput, FileKind, VirtualFileInput,
};
use cairo_lang_lowering::db::LoweringGroup;
use cairo_lang_lowering::optimizations::config::Optimizations;
use cairo_lang_parser::db::ParserGroup;
use cairo_lang_semantic::db::SemanticGroup;
use cairo_lang_defs::db::DefsGroup;
use cairo_lang_utils::Intern;
use salsa::Database;

use super::driver::repo_root;

#[derive(Clone, Copy, PartialEq, Eq, Debug)]
pub enum Plugins {
    Default,
    Starknet,
    Test,
}

pub fn new_db(plugins: Plugins, optimizations: Option<Optimizations>) -> RootDatabase {
    let mut b = RootDatabase::builder();
    match plugins {
        Plugins::Default => {}
        Plugins::Starknet => {
            b.with_default_plugin_suite(cairo_lang_starknet::starknet_plugin_suite());
        }
        Plugins::Test => {
            b.with_default_plugin_suite(cairo_lang_test_plugin::test_plugin_suite());
        }
    }
    if let Some(o) = optimizations {
        b.with_optimizations(o);
    }
    let mut db = b.build().expect("db build");
    init_dev_corelib(&mut db, repo_root().join("corelib/src"));
    db
}

pub const SETTINGS_2024_07: &str = "edition = \"2024_07\"\n\n[experimental_features]\nnegative_impls = true\nassociated_item_constraints = true\ncoupons = true\nuser_defined_inline_macros = true\nrepr_ptrs = true\n";
pub const SETTINGS_2023_01: &str = "edition = \"2023_01\"\n\n[experimental_features]\nnegative_impls = true\nassociated_item_constraints = true\ncoupons = true\nuser_defined_inline_macros = true\nrepr_ptrs = true\n";

pub fn virtual_crate_input(
    name: &str,
    content: &str,
    settings: &str,
    cache_file: Option<BlobLongId>,
) -> CrateInput {
    CrateInput::Virtual {
        name: name.to_string(),
        file_long_id: FileInput::Virtual(VirtualFileInput {
            parent: None,
            name: "lib.cairo".into(),
            content: Arc::from(content),
            code_mappings: Arc::from([]),
            kind: FileKind::Module,
            original_item_removed: false,
        }),
        settings: settings.to_string(),
        cache_file,
    }
}

pub fn crate_id<'db>(db: &'db dyn Database, input: &CrateInput) -> CrateId<'db> {
    input.clone().into_crate_long_id(db).intern(db)
}

/// The user-facing diagnostics string of one crate (what the CLI prints).
pub fn diagnostics_string(db: &RootDatabase, input: &CrateInput) -> (String, bool) {
    let mut s = String::new();
    let found = {
        let mut rep = DiagnosticsReporter::write_to_string(&mut s)
            .with_crates(std::slice::from_ref(input));
        rep.check(db)
    };
    (s, found)
}

/// True iff the diagnostics contain an error (warnings allowed).
pub fn has_errors(db: &RootDatabase, input: &CrateInput) -> (String, bool) {
    let mut s = String::new();
    let found = {
        let mut rep = DiagnosticsReporter::write_to_string(&mut s)
            .with_crates(std::slice::from_ref(input))
            .allow_warnings();
        rep.check(db)
    };
    (s, found)
}

pub struct SpanProblem {
    pub what: String,
}

/// Walks every diagnostic of the crate (syntax, semantic, lowering) and checks that its location
/// and its user location lie inside the file they name, on char boundaries.
/// Returns (number of diagnostics, first problem).
pub fn check_diagnostic_spans(db: &RootDatabase, input: &CrateInput) -> (usize, Option<SpanProblem>) {
    let crate_id = crate_id(db, input);
    let mut n = 0;
    let mut problem = None;
    let mut check = |loc: cairo_lang_filesystem::ids::SpanInFile<'_>, what: &str| {
        if problem.is_some() {
            return;
        }
        for (l, tag) in [(loc, "location"), (loc.user_location(db), "user location")] {
            let Some(content) = db.file_content(l.file_id) else {
                continue;
            };
            let s = l.span.start.as_u32() as usize;
            let e = l.span.end.as_u32() as usize;
            if s > e || e > content.len() {
                problem = Some(SpanProblem {
                    what: format!(
                        "{what} diagnostic {tag} [{s},{e}) is not inside file '{}' of {} bytes",
                        l.file_id.file_name(db).to_string(db),
                        content.len()
                    ),
                });
                return;
            }
        }
    };
    let modules = db.crate_modules(crate_id);
    for module_id in modules.iter() {
        if let Ok(files) = db.module_files(*module_id) {
            for f in files.iter().copied() {
                for d in db.file_syntax_diagnostics(f).get_all() {
                    n += 1;
                    check(d.location(db), "syntax");
                }
            }
        }
        if let Ok(g) = db.module_semantic_diagnostics(*module_id) {
            for d in g.get_all() {
                n += 1;
                check(d.location(db), "semantic");
            }
        }
        if let Ok(g) = db.module_lowering_diagnostics(*module_id) {
            for d in g.get_all() {
                n += 1;
                check(d.location(db), "lowering");
            }
        }
    }
    let _ = ModuleId::CrateRoot(crate_id);
    (n, problem)
}
