//! Sierra corpus and the untrusted-input pipeline (registry -> metadata -> compile).

use cairo_lang_sierra::ProgramParser;
use cairo_lang_sierra::program::Program;
use cairo_lang_sierra_to_casm::compiler::{CairoProgram, SierraToCasmConfig, compile};
use cairo_lang_sierra_to_casm::metadata::{MetadataComputationConfig, calc_metadata, calc_metadata_ap_change_only};
use cairo_lang_sierra_type_size::ProgramRegistryInfo;

use super::corpus;
use super::panics::{self, PanicRec};

pub struct SierraItem {
    pub origin: String,
    pub text: String,
    pub program: Program,
}

/// Parses under catch_unwind (the parser itself is C18's business).
pub fn parse(text: &str) -> Option<Program> {
    panics::catch(|| ProgramParser::new().parse(text).ok()).ok().flatten()
}

/// `.sierra` files and e2e `sierra_code` sections that parse; capped by statement count.
pub fn load_corpus(max_statements: usize) -> Vec<SierraItem> {
    let mut out = vec![];
    for p in corpus::repo_files(".sierra") {
        if let Ok(text) = std::fs::read_to_string(&p) {
            if let Some(program) = parse(&text) {
                if program.statements.len() <= max_statements {
                    out.push(SierraItem { origin: p.display().to_string(), text, program });
                }
            }
        }
    }
    for f in corpus::e2e_files() {
        for (i, t) in corpus::test_file_tests(&f).into_iter().enumerate() {
            if let Some(code) = t.get("sierra_code") {
                if let Some(program) = parse(code) {
                    if program.statements.len() <= max_statements && !program.statements.is_empty() {
                        out.push(SierraItem { origin: format!("{}#{i}", f.display()), text: code.clone(), program });
                    }
                }
            }
        }
    }
    out
}

#[derive(Debug, Clone, PartialEq)]
pub enum Stage {
    RegistryErr(String),
    MetadataErr(String),
    CompileErr(String),
    Accepted,
}

pub struct PipeResult {
    /// Outcome with gas metadata (linear solver).
    pub with_gas: Stage,
    /// Outcome with ap-change-only metadata and gas_usage_check = false.
    pub no_gas: Stage,
    /// Outcome with the non-linear solvers (only when requested).
    pub nonlinear: Option<Stage>,
    pub casm: Option<CairoProgram>,
    pub info: Option<ProgramRegistryInfo>,
}

fn short(e: impl std::fmt::Display) -> String {
    let s = e.to_string();
    // Error class: first words without numbers.
    let t: String = s.chars().filter(|c| !c.is_ascii_digit()).collect();
    t.split_whitespace().take(6).collect::<Vec<_>>().join(" ")
}

/// Runs all stages; a panic in any stage is returned as Err(PanicRec, stage name).
pub fn pipeline(p: &Program, try_nonlinear: bool) -> Result<PipeResult, (PanicRec, &'static str)> {
    let info = match panics::catch(|| ProgramRegistryInfo::new(p)) {
        Ok(Ok(i)) => i,
        Ok(Err(e)) => {
            let s = Stage::RegistryErr(short(e));
            return Ok(PipeResult { with_gas: s.clone(), no_gas: s, nonlinear: None, casm: None, info: None });
        }
        Err(pr) => return Err((pr, "ProgramRegistryInfo::new")),
    };
    let mut casm = None;
    let mk_cfg = |linear: bool| MetadataComputationConfig {
        function_set_costs: Default::default(),
        linear_gas_solver: linear,
        linear_ap_change_solver: linear,
        skip_non_linear_solver_comparisons: true,
        compute_runtime_costs: false,
    };
    let mut run = |meta: Result<Result<cairo_lang_sierra_to_casm::metadata::Metadata, String>, PanicRec>, gas: bool, stage_name: &'static str| -> Result<Stage, (PanicRec, &'static str)> {
        let meta = match meta {
            Ok(Ok(m)) => m,
            Ok(Err(e)) => return Ok(Stage::MetadataErr(e)),
            Err(pr) => return Err((pr, stage_name)),
        };
        match panics::catch(|| compile(p, &info, &meta, SierraToCasmConfig { gas_usage_check: gas, max_bytecode_size: usize::MAX })) {
            Ok(Ok(c)) => {
                casm = Some(c);
                Ok(Stage::Accepted)
            }
            Ok(Err(e)) => Ok(Stage::CompileErr(short(e))),
            Err(pr) => Err((pr, "compile")),
        }
    };
    let with_gas = run(panics::catch(|| calc_metadata(p, &info, mk_cfg(true)).map_err(short)), true, "calc_metadata(linear)")?;
    let no_gas = run(panics::catch(|| calc_metadata_ap_change_only(p, &info).map_err(short)), false, "calc_metadata_ap_change_only")?;
    let nonlinear = if try_nonlinear {
        Some(run(panics::catch(|| calc_metadata(p, &info, mk_cfg(false)).map_err(short)), true, "calc_metadata(non-linear)")?)
    } else {
        None
    };
    Ok(PipeResult { with_gas, no_gas, nonlinear, casm, info: Some(info) })
}
