//! known_findings.json: committed, never written at run time.

use std::path::Path;

use serde_json::Value;

#[derive(Clone, Debug)]
pub struct Known {
    pub property: String,
    /// "known" (suppresses exactly this signature, prints KNOWN-FINDING) or "fixed" (suppresses
    /// nothing; stored input is replayed and must pass).
    pub status: String,
    pub signature: String,
    pub what: String,
    pub input: Option<Value>,
}

#[derive(Clone, Debug, Default)]
pub struct KnownFindings {
    pub items: Vec<Known>,
}

impl KnownFindings {
    pub fn load(path: &Path) -> Self {
        let Ok(s) = std::fs::read_to_string(path) else { return Self::default() };
        let Ok(v) = serde_json::from_str::<Value>(&s) else {
            eprintln!("warning: {} is not valid JSON; treated as empty", path.display());
            return Self::default();
        };
        let mut items = vec![];
        if let Some(a) = v.get("findings").and_then(|f| f.as_array()) {
            for e in a {
                items.push(Known {
                    property: e["property"].as_str().unwrap_or("").to_string(),
                    status: e["status"].as_str().unwrap_or("known").to_string(),
                    signature: e["signature"].as_str().unwrap_or("").to_string(),
                    what: e["what"].as_str().unwrap_or("").to_string(),
                    input: e.get("input").cloned().filter(|x| !x.is_null()),
                });
            }
        }
        Self { items }
    }
    pub fn for_prop(&self, prop: &str) -> Vec<&Known> {
        self.items.iter().filter(|k| k.property == prop).collect()
    }
    /// A listed *known* (unrepaired) finding with exactly this signature.
    pub fn matches(&self, prop: &str, sig: &str) -> Option<&Known> {
        self.items
            .iter()
            .find(|k| k.property == prop && k.status == "known" && k.signature == sig)
    }
}
