//! Domain-specific second-stage minimisation (after proptest's choice-level shrinking).

/// ddmin over characters: removes chunks while `still_fails` holds. Bounded by `budget` predicate
/// evaluations.
pub fn ddmin_text(text: &str, mut still_fails: impl FnMut(&str) -> bool, budget: usize) -> String {
    let mut cur: Vec<char> = text.chars().collect();
    let mut evals = 0;
    // First: line-level.
    let mut lines: Vec<String> = text.split_inclusive('\n').map(|s| s.to_string()).collect();
    let mut chunk = lines.len().div_ceil(2).max(1);
    while chunk >= 1 && lines.len() > 1 && evals < budget / 2 {
        let mut i = 0;
        let mut progressed = false;
        while i < lines.len() && evals < budget / 2 {
            let end = (i + chunk).min(lines.len());
            let cand: String =
                lines[..i].iter().chain(lines[end..].iter()).cloned().collect::<String>();
            evals += 1;
            if still_fails(&cand) {
                lines.drain(i..end);
                progressed = true;
            } else {
                i = end;
            }
        }
        if chunk == 1 && !progressed {
            break;
        }
        if !progressed || chunk > 1 {
            chunk = if chunk == 1 { 1 } else { chunk / 2 };
        }
    }
    let joined: String = lines.concat();
    if joined.len() < text.len() {
        cur = joined.chars().collect();
    }
    // Then: char-level.
    let mut chunk = cur.len().div_ceil(2).max(1);
    loop {
        let mut i = 0;
        let mut progressed = false;
        while i < cur.len() && evals < budget {
            let end = (i + chunk).min(cur.len());
            let cand: String = cur[..i].iter().chain(cur[end..].iter()).collect();
            evals += 1;
            if still_fails(&cand) {
                cur.drain(i..end);
                progressed = true;
            } else {
                i = end;
            }
        }
        if evals >= budget {
            break;
        }
        if chunk == 1 {
            if !progressed {
                break;
            }
        } else {
            chunk /= 2;
        }
    }
    cur.into_iter().collect()
}

/// ddmin over a list of items.
pub fn ddmin_list<T: Clone>(
    items: &[T],
    mut still_fails: impl FnMut(&[T]) -> bool,
    budget: usize,
) -> Vec<T> {
    let mut cur: Vec<T> = items.to_vec();
    let mut evals = 0;
    let mut chunk = cur.len().div_ceil(2).max(1);
    loop {
        let mut i = 0;
        let mut progressed = false;
        while i < cur.len() && evals < budget {
            let end = (i + chunk).min(cur.len());
            let cand: Vec<T> = cur[..i].iter().chain(cur[end..].iter()).cloned().collect();
            evals += 1;
            if still_fails(&cand) {
                cur = cand;
                progressed = true;
            } else {
                i = end;
            }
        }
        if evals >= budget {
            break;
        }
        if chunk == 1 {
            if !progressed {
                break;
            }
        } else {
            chunk /= 2;
        }
    }
    cur
}
