//! Corpora read from /repo's working tree at run time.

use std::path::{Path, PathBuf};

use super::driver::repo_root;

fn walk(dir: &Path, ext: &str, out: &mut Vec<PathBuf>) {
    let Ok(rd) = std::fs::read_dir(dir) else { return };
    let mut entries: Vec<_> = rd.filter_map(|e| e.ok()).map(|e| e.path()).collect();
    entries.sort();
    for p in entries {
        let name = p.file_name().and_then(|n| n.to_str()).unwrap_or("");
        if p.is_dir() {
            if name == "target" || name == ".git" || name == "node_modules" {
                continue;
            }
            walk(&p, ext, out);
        } else if name.ends_with(ext) {
            out.push(p);
        }
    }
}

/// All files with the extension under the repo's source directories (sorted, deterministic).
pub fn repo_files(ext: &str) -> Vec<PathBuf> {
    let root = repo_root();
    let mut out = vec![];
    for d in ["corelib", "examples", "tests", "crates"] {
        walk(&root.join(d), ext, &mut out);
    }
    out
}

/// (path, content) of every UTF-8 `.cairo` file, capped in size.
pub fn cairo_corpus(max_bytes: usize) -> Vec<(String, String)> {
    repo_files(".cairo")
        .into_iter()
        .filter_map(|p| {
            let s = std::fs::read_to_string(&p).ok()?;
            if s.len() > max_bytes {
                return None;
            }
            Some((p.display().to_string(), s))
        })
        .collect()
}

/// Sections `//! > <name>` of the repo's test-data files (the e2e format): returns the bodies of
/// every section with the given tag in the file.
pub fn test_file_sections(path: &Path, tag: &str) -> Vec<String> {
    let Ok(s) = std::fs::read_to_string(path) else { return vec![] };
    let mut out = vec![];
    let mut cur: Option<String> = None;
    let mut cur_tag = String::new();
    for line in s.lines() {
        if let Some(rest) = line.strip_prefix("//! > ") {
            if let Some(body) = cur.take() {
                if cur_tag == tag {
                    out.push(body);
                }
            }
            if rest.starts_with("====") {
                cur_tag.clear();
            } else {
                cur_tag = rest.trim().to_string();
                cur = Some(String::new());
            }
        } else if let Some(body) = cur.as_mut() {
            body.push_str(line);
            body.push('\n');
        }
    }
    if let Some(body) = cur.take() {
        if cur_tag == tag {
            out.push(body);
        }
    }
    out
}

/// One test of an e2e-format file: tag -> body.
pub fn test_file_tests(path: &Path) -> Vec<std::collections::BTreeMap<String, String>> {
    let Ok(s) = std::fs::read_to_string(path) else { return vec![] };
    let mut tests = vec![];
    let mut cur = std::collections::BTreeMap::new();
    let mut tag: Option<String> = None;
    for line in s.lines() {
        if let Some(rest) = line.strip_prefix("//! > ") {
            if rest.starts_with("====") {
                if !cur.is_empty() {
                    tests.push(std::mem::take(&mut cur));
                }
                tag = None;
            } else {
                let t = rest.trim().to_string();
                cur.entry(t.clone()).or_insert_with(String::new);
                tag = Some(t);
            }
        } else if let Some(t) = &tag {
            let e: &mut String = cur.get_mut(t).unwrap();
            e.push_str(line);
            e.push('\n');
        }
    }
    if !cur.is_empty() {
        tests.push(cur);
    }
    tests
}

pub fn e2e_files() -> Vec<PathBuf> {
    let root = repo_root().join("tests/e2e_test_data");
    let mut out = vec![];
    walk(&root, "", &mut out);
    out.retain(|p| p.is_file());
    out
}
