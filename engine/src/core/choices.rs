//! Choice sequences: all randomness of every generator comes from a `Vec<u32>` produced by a
//! proptest strategy. Decoders map indices monotonically (simplest alternative first) and pad with
//! zeros when exhausted, so proptest's generic vec shrinking shrinks every generator.

#[derive(Clone, Debug)]
pub struct Choices {
    data: Vec<u32>,
    pos: usize,
}

impl Choices {
    pub fn new(data: Vec<u32>) -> Self {
        Self { data, pos: 0 }
    }
    pub fn raw(&self) -> &[u32] {
        &self.data
    }
    pub fn consumed(&self) -> usize {
        self.pos
    }
    pub fn exhausted(&self) -> bool {
        self.pos >= self.data.len()
    }
    pub fn next(&mut self) -> u32 {
        let v = self.data.get(self.pos).copied().unwrap_or(0);
        self.pos += 1;
        v
    }
    /// Uniform-ish index in `0..n` (monotone in the raw choice). n == 0 returns 0.
    pub fn below(&mut self, n: usize) -> usize {
        if n <= 1 {
            // Still consume to keep the stream aligned across shrinks of alternatives.
            self.next();
            return 0;
        }
        ((self.next() as u64 * n as u64) >> 32) as usize
    }
    pub fn range(&mut self, lo: i64, hi_incl: i64) -> i64 {
        debug_assert!(hi_incl >= lo);
        lo + self.below((hi_incl - lo + 1) as usize) as i64
    }
    pub fn bool(&mut self) -> bool {
        self.below(2) == 1
    }
    /// True with probability num/den.
    pub fn chance(&mut self, num: u32, den: u32) -> bool {
        // Monotone: small raw values => false.
        let v = self.below(den as usize) as u32;
        v >= den - num
    }
    pub fn pick<'a, T>(&mut self, xs: &'a [T]) -> &'a T {
        &xs[self.below(xs.len())]
    }
    /// Weighted pick; returns the index. Weights must not all be zero.
    pub fn weighted(&mut self, weights: &[u32]) -> usize {
        let total: u64 = weights.iter().map(|w| *w as u64).sum();
        if total == 0 {
            self.next();
            return 0;
        }
        let mut r = (self.next() as u64 * total) >> 32;
        for (i, w) in weights.iter().enumerate() {
            if r < *w as u64 {
                return i;
            }
            r -= *w as u64;
        }
        weights.len() - 1
    }
    pub fn u64(&mut self) -> u64 {
        ((self.next() as u64) << 32) | self.next() as u64
    }
    pub fn u128(&mut self) -> u128 {
        ((self.u64() as u128) << 64) | self.u64() as u128
    }
}

/// splitmix64, used to derive shard seeds and cheap hashes (never inside a property's generator).
pub fn mix64(mut z: u64) -> u64 {
    z = z.wrapping_add(0x9E3779B97F4A7C15);
    z = (z ^ (z >> 30)).wrapping_mul(0xBF58476D1CE4E5B9);
    z = (z ^ (z >> 27)).wrapping_mul(0x94D049BB133111EB);
    z ^ (z >> 31)
}

pub fn hash_bytes(b: &[u8]) -> u64 {
    // FNV-1a 64 followed by a mix.
    let mut h: u64 = 0xcbf29ce484222325;
    for x in b {
        h ^= *x as u64;
        h = h.wrapping_mul(0x100000001b3);
    }
    mix64(h)
}

pub fn hash_str(s: &str) -> u64 {
    hash_bytes(s.as_bytes())
}

pub fn derive_seed(prop: &str, seed: u64, shard: u64) -> u64 {
    mix64(hash_str(prop) ^ mix64(seed.wrapping_mul(0x2545F4914F6CDD1D) ^ mix64(shard)))
}

/// A tiny deterministic PRNG for enumerations that are not proptest-driven (exhaustive sweeps use
/// it only to pick *samples*, never cases).
pub struct SplitMix(pub u64);
impl SplitMix {
    pub fn next(&mut self) -> u64 {
        self.0 = self.0.wrapping_add(0x9E3779B97F4A7C15);
        let mut z = self.0;
        z = (z ^ (z >> 30)).wrapping_mul(0xBF58476D1CE4E5B9);
        z = (z ^ (z >> 27)).wrapping_mul(0x94D049BB133111EB);
        z ^ (z >> 31)
    }
}
