//! Compilation / execution service shared by the execution-based properties: one call yields the
//! result value, the gas counter, relocated memory, resources and the relocated trace together
//! with the CASM program, debug info and metadata they are to be judged against.

use cairo_lang_casm::hints::Hint;
use cairo_lang_compiler::db::RootDatabase;
use cairo_lang_filesystem::flag::FlagsGroup;
use cairo_lang_filesystem::flag::Flag;
use cairo_lang_filesystem::ids::{CrateInput, FlagLongId};
use cairo_lang_lowering::optimizations::config::Optimizations;
use cairo_lang_lowering::utils::InliningStrategy;
use cairo_lang_runnable_utils::builder::RunnableBuilder;
use cairo_lang_runner::casm_run::{self, RunFunctionResult};
use cairo_lang_runner::{Arg, RunResultValue, RunnerError, SierraCasmRunner, StarknetState, initialize_vm};
use cairo_lang_sierra::extensions::enm::EnumType;
use cairo_lang_sierra::extensions::NamedType;
use cairo_lang_sierra::program::{Function, GenericArg, Program};
use cairo_lang_sierra_generator::db::SierraGenGroup;
use cairo_lang_sierra_generator::replace_ids::replace_sierra_ids_in_program;
use cairo_lang_sierra_to_casm::metadata::MetadataComputationConfig;
use cairo_vm::vm::runners::cairo_runner::ExecutionResources;
use cairo_vm::vm::trace::trace_entry::RelocatedTraceEntry;
use num_bigint::BigInt;
use starknet_types_core::felt::Felt as Felt252;

use super::cairo::{self, Plugins};
use super::choices::Choices;
use super::panics;

/// Front-end configuration (C05 lattice).
#[derive(Clone, Debug, PartialEq, Eq, Hash)]
pub struct FrontCfg {
    pub optimizations: bool,
    /// 0 = Default, 1 = Avoid, k >= 2 = InlineSmallFunctions(k - 2)
    pub inlining: usize,
    pub skip_const_folding: bool,
    /// None = flag unset.
    pub match_threshold: Option<usize>,
}

impl FrontCfg {
    pub fn default_cfg() -> Self {
        FrontCfg { optimizations: true, inlining: 0, skip_const_folding: false, match_threshold: None }
    }
    pub fn describe(&self) -> String {
        if !self.optimizations {
            return format!("opt=off thr={:?}", self.match_threshold);
        }
        let inl = match self.inlining {
            0 => "Default".to_string(),
            1 => "Avoid".to_string(),
            k => format!("Small({})", k - 2),
        };
        format!("opt=on inl={inl} skip_cf={} thr={:?}", self.skip_const_folding, self.match_threshold)
    }
    pub fn to_json(&self) -> serde_json::Value {
        serde_json::json!({"optimizations": self.optimizations, "inlining": self.inlining,
            "skip_const_folding": self.skip_const_folding, "match_threshold": self.match_threshold})
    }
    pub fn from_json(v: &serde_json::Value) -> Self {
        FrontCfg {
            optimizations: v["optimizations"].as_bool().unwrap_or(true),
            inlining: v["inlining"].as_u64().unwrap_or(0) as usize,
            skip_const_folding: v["skip_const_folding"].as_bool().unwrap_or(false),
            match_threshold: v["match_threshold"].as_u64().map(|x| x as usize),
        }
    }
    pub fn optimizations(&self) -> Optimizations {
        if !self.optimizations {
            return Optimizations::Disabled;
        }
        let strat = match self.inlining {
            0 => InliningStrategy::Default,
            1 => InliningStrategy::Avoid,
            k => InliningStrategy::InlineSmallFunctions(k - 2),
        };
        match Optimizations::enabled_with_default_movable_functions(strat) {
            Optimizations::Enabled(c) => Optimizations::Enabled(c.with_skip_const_folding(self.skip_const_folding)),
            o => o,
        }
    }
    /// A random non-default configuration (first alternative = optimisations disabled).
    pub fn generate(ch: &mut Choices) -> Self {
        let thr = *ch.pick(&[None, Some(1usize), Some(2), Some(3), Some(100)]);
        if ch.chance(1, 4) {
            return FrontCfg { optimizations: false, inlining: 0, skip_const_folding: true, match_threshold: thr };
        }
        let inl = *ch.pick(&[1usize, 2, 7, 52, 202, 0]);
        FrontCfg { optimizations: true, inlining: inl, skip_const_folding: ch.chance(1, 3), match_threshold: thr }
    }
    /// Switches a live database to this configuration (parsing and semantic caches are kept).
    pub fn apply(&self, db: &mut RootDatabase) {
        use cairo_lang_lowering::db::lowering_group_input;
        use salsa::Setter;
        lowering_group_input(db).set_optimizations(db).to(Some(self.optimizations()));
        db.set_flag(
            FlagLongId(Flag::NUMERIC_MATCH_OPTIMIZATION_MIN_ARMS_THRESHOLD.into()),
            self.match_threshold.map(Flag::NumericMatchOptimizationMinArmsThreshold),
        );
    }
    pub fn new_db(&self, plugins: Plugins) -> RootDatabase {
        let mut db = cairo::new_db(plugins, Some(self.optimizations()));
        if let Some(t) = self.match_threshold {
            db.set_flag(
                FlagLongId(Flag::NUMERIC_MATCH_OPTIMIZATION_MIN_ARMS_THRESHOLD.into()),
                Some(Flag::NumericMatchOptimizationMinArmsThreshold(t)),
            );
        }
        db
    }
}

#[derive(Clone, Copy, Debug, PartialEq, Eq)]
pub struct MetaCfg {
    pub linear_gas: bool,
    pub linear_ap: bool,
}
impl MetaCfg {
    pub fn linear() -> Self {
        MetaCfg { linear_gas: true, linear_ap: true }
    }
    pub fn config(&self) -> MetadataComputationConfig {
        MetadataComputationConfig {
            function_set_costs: Default::default(),
            linear_gas_solver: self.linear_gas,
            linear_ap_change_solver: self.linear_ap,
            skip_non_linear_solver_comparisons: true,
            compute_runtime_costs: false,
        }
    }
}

/// Sierra (debug names) of a crate, or the error diagnostics.
pub fn sierra_of_crate(db: &RootDatabase, input: &CrateInput) -> Result<Program, String> {
    let (diags, err) = cairo::has_errors(db, input);
    if err {
        return Err(diags);
    }
    let id = cairo::crate_id(db, input);
    let p = db.get_sierra_program(vec![id]).map_err(|_| "get_sierra_program failed".to_string())?;
    Ok(replace_sierra_ids_in_program(db, &p.program))
}

pub struct Compiled {
    pub runner: SierraCasmRunner,
    pub builder: RunnableBuilder,
}

pub fn build(program: Program, meta: MetaCfg) -> Result<Compiled, String> {
    let runner = SierraCasmRunner::new(program.clone(), Some(meta.config()), Default::default(), None)
        .map_err(|e| format!("{e}"))?;
    let builder = RunnableBuilder::new(program, Some(meta.config())).map_err(|e| format!("{e}"))?;
    Ok(Compiled { runner, builder })
}

pub struct Exec {
    pub value: RunResultValue,
    pub gas_counter: Option<Felt252>,
    /// Gas given to the function after the entry cost was deducted (initial counter).
    pub gas_initial: Option<usize>,
    pub memory: Vec<Option<Felt252>>,
    pub trace: Vec<RelocatedTraceEntry>,
    pub resources: ExecutionResources,
    /// pc of the last instruction of the entry-code header (code starts at header_end + 1).
    pub header_end: usize,
}

#[derive(Debug)]
pub enum ExecErr {
    NotEnoughGasToCall,
    ArgShape(String),
    Build(String),
    /// The violation class of C02: the VM failed.
    Vm(String),
}

/// Hook to wrap the honest hint processor (C03).
pub type HintHook<'h> = &'h mut dyn FnMut(&mut cairo_vm::vm::vm_core::VirtualMachine, &Hint, usize);

pub fn bigint_to_felt(v: &BigInt) -> Felt252 {
    Felt252::from(v.clone())
}

pub fn felt_to_bigint(f: &Felt252) -> BigInt {
    f.to_bigint()
}

pub fn run(c: &Compiled, func: &Function, args: Vec<Arg>, gas: Option<usize>) -> Result<Exec, ExecErr> {
    let (mut hp, ctx) = match c.runner.prepare_starknet_context(func, args, gas, StarknetState::default()) {
        Ok(x) => x,
        Err(RunnerError::NotEnoughGasToCall) => return Err(ExecErr::NotEnoughGasToCall),
        Err(e @ (RunnerError::ArgumentUnaligned { .. } | RunnerError::ArgumentsSizeMismatch { .. })) => {
            return Err(ExecErr::ArgShape(format!("{e}")));
        }
        Err(e) => return Err(ExecErr::Build(format!("{e}"))),
    };
    let gas_initial = gas.and_then(|g| c.runner.initial_required_gas(func).map(|r| g - r));
    let data_len = ctx.bytecode.len();
    let r = casm_run::run_function(
        ctx.bytecode.iter(),
        ctx.builtins,
        |vm| initialize_vm(vm, data_len),
        &mut hp,
        ctx.hints_dict,
    );
    finish(c, func, r, gas_initial)
}

pub fn finish(
    c: &Compiled,
    func: &Function,
    r: Result<RunFunctionResult, Box<cairo_vm::vm::errors::cairo_run_errors::CairoRunError>>,
    gas_initial: Option<usize>,
) -> Result<Exec, ExecErr> {
    let RunFunctionResult { ap, used_resources, memory, relocated_trace } = match r {
        Ok(x) => x,
        Err(e) => return Err(ExecErr::Vm(format!("{e}"))),
    };
    let header_end = relocated_trace.last().unwrap().pc;
    let return_types = c.builder.generic_id_and_size_from_concrete(&func.signature.ret_types);
    let (results_data, gas_counter) = c.runner.get_results_data(&return_types, &memory, ap);
    let value = match results_data.into_iter().next() {
        None => RunResultValue::Success(vec![]),
        Some((ty, values)) => {
            // Panic wrapper detection, as the runner does it.
            let mut inner_size = None;
            if ty == EnumType::ID {
                for rt in &func.signature.ret_types {
                    let long = c.builder.type_long_id(rt);
                    if long.generic_id == EnumType::ID {
                        if let Some(GenericArg::UserType(ut)) = long.generic_args.first() {
                            if ut.debug_name.as_ref().map(|n| n.starts_with("core::panics::PanicResult::")).unwrap_or(false) {
                                if let Some(GenericArg::Type(inner)) = long.generic_args.get(1) {
                                    inner_size = Some(c.builder.type_size(inner));
                                }
                            }
                        }
                    }
                }
            }
            SierraCasmRunner::handle_main_return_value(inner_size, values, &memory)
        }
    };
    Ok(Exec { value, gas_counter, gas_initial, memory, trace: relocated_trace, resources: used_resources, header_end })
}

/// Reads an `Array<felt252>` result (start, end) from the relocated memory.
pub fn read_felt_array(exec: &Exec, values: &[Felt252]) -> Option<Vec<BigInt>> {
    if values.len() != 2 {
        return None;
    }
    let s: usize = values[0].to_bigint().try_into().ok()?;
    let e: usize = values[1].to_bigint().try_into().ok()?;
    if s > e || e > exec.memory.len() {
        return None;
    }
    exec.memory[s..e].iter().map(|c| c.as_ref().map(|f| f.to_bigint())).collect()
}

/// Compiles a single-file program under a configuration; catches compiler panics.
pub fn compile_source(
    db: &RootDatabase,
    name: &str,
    source: &str,
    meta: MetaCfg,
) -> Result<Compiled, CompileErr> {
    let input = cairo::virtual_crate_input(name, source, cairo::SETTINGS_2024_07, None);
    let r = panics::catch(|| {
        let program = sierra_of_crate(db, &input).map_err(CompileErr::Diagnostics)?;
        build(program, meta).map_err(CompileErr::Backend)
    });
    match r {
        Ok(x) => x,
        Err(p) => Err(CompileErr::Panic(p.loc, p.msg)),
    }
}

#[derive(Debug)]
pub enum CompileErr {
    Diagnostics(String),
    Backend(String),
    Panic(String, String),
}
