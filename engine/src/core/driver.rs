//! Driver / worker machinery shared by all properties.
//!
//! `verif check <ID> --tier T` is the driver: it replays known findings and promoted corpus
//! entries, then spawns worker subprocesses (re-exec of this binary) over a fixed number of shards,
//! merges their statistics into the evidence file and prints the verdict lines.
//! A worker runs proptest `TestRunner`s (one per shard, seeded from (property, VERIF_SEED, shard))
//! over a choice-sequence strategy; the property closure decodes the choices into a case and
//! judges it.

use std::cell::RefCell;
use std::collections::{BTreeMap, BTreeSet, HashSet};
use std::io::{BufRead, BufReader, Write};
use std::path::PathBuf;
use std::process::{Command, Stdio};
use std::time::{Duration, Instant};

use proptest::test_runner::{Config, RngSeed, TestCaseError, TestError, TestRunner};
use serde_json::{Value, json};

use super::choices::{Choices, derive_seed, hash_str};
use super::known::{Known, KnownFindings};
use super::panics;

#[derive(Clone, Copy, PartialEq, Eq, Debug)]
pub enum Tier {
    Quick,
    Thorough,
}
impl Tier {
    pub fn name(self) -> &'static str {
        match self {
            Tier::Quick => "quick",
            Tier::Thorough => "thorough",
        }
    }
    pub fn pick<T>(self, q: T, t: T) -> T {
        match self {
            Tier::Quick => q,
            Tier::Thorough => t,
        }
    }
}

pub fn verif_root() -> PathBuf {
    if let Ok(r) = std::env::var("VERIF_ROOT") {
        return PathBuf::from(r);
    }
    let exe = std::env::current_exe().expect("current_exe");
    // <root>/engine/target/release/verif
    exe.ancestors().nth(4).map(|p| p.to_path_buf()).unwrap_or_else(|| PathBuf::from("/verif"))
}

pub fn repo_root() -> PathBuf {
    PathBuf::from(std::env::var("VERIF_REPO").unwrap_or_else(|_| "/repo".into()))
}

/// Outcome of judging one case.
#[derive(Clone, Debug)]
pub enum Verdict {
    Pass,
    /// Generator produced something outside the property's domain (counted, not judged).
    Skip(&'static str),
    Fail(Failure),
}

#[derive(Clone, Debug)]
pub struct Failure {
    /// Root-cause signature (see DESIGN 1.5).
    pub sig: String,
    /// Human description of what failed, including both sides of the oracle.
    pub what: String,
    /// Everything needed to re-judge the case without the generator.
    pub artefact: Value,
}

impl Verdict {
    pub fn fail(sig: impl Into<String>, what: impl Into<String>, artefact: Value) -> Verdict {
        Verdict::Fail(Failure { sig: sig.into(), what: what.into(), artefact })
    }
}

/// Statistics collected by a worker for one shard.
#[derive(Default)]
pub struct Stats {
    pub evaluations: u64,
    pub hashes: HashSet<u64>,
    pub classes: BTreeMap<String, u64>,
    pub samples: Vec<Value>,
    pub known_hits: BTreeMap<String, u64>,
    pub skipped: BTreeMap<String, u64>,
    pub max_case_cpu_s: f64,
    pub frozen: bool,
}

impl Stats {
    pub fn count(&mut self, class: &str) {
        self.add(class, 1);
    }
    pub fn add(&mut self, class: &str, n: u64) {
        if self.frozen {
            return;
        }
        *self.classes.entry(class.to_string()).or_insert(0) += n;
    }
    pub fn eval(&mut self) {
        self.evals(1);
    }
    pub fn evals(&mut self, n: u64) {
        if !self.frozen {
            self.evaluations += n;
        }
    }
    pub fn nontrivial(&mut self, h: u64) {
        if !self.frozen {
            self.hashes.insert(h);
        }
    }
    pub fn sample(&mut self, max: usize, f: impl FnOnce() -> Value) {
        if !self.frozen && self.samples.len() < max {
            self.samples.push(f());
        }
    }
}

pub const ANNOUNCE_BATCH: u64 = 32;

pub struct WorkerCtx {
    pub prop: String,
    pub tier: Tier,
    pub seed: u64,
    pub shards: Vec<u64>,
    pub n_shards: u64,
    /// (shard, idx) pairs to generate but not execute (they crashed the process before).
    pub skip: HashSet<(u64, u64)>,
    /// If set: execute only this case (crash reproduction); the artefact is printed first.
    pub only: Option<(u64, u64)>,
    pub known: KnownFindings,
    pub announce: bool,
    pub stats: Stats,
    /// Optional domain-specific second-stage minimiser applied to the proptest-minimal failure.
    pub minimize: Option<Box<dyn Fn(&Failure) -> Option<Failure>>>,
    /// Campaign mode (VERIF_COLLECT=1): do not stop at the first failure of a shard; report every
    /// distinct signature once. Used to enumerate findings, never by the registered commands.
    pub collect: bool,
    pub collected: BTreeSet<String>,
    /// Budget of proptest shrink iterations per failing shard.
    pub shrink_iters: u32,
}

fn emit(v: Value) {
    let out = std::io::stdout();
    let mut l = out.lock();
    let _ = writeln!(l, "{}", v);
    let _ = l.flush();
}

impl WorkerCtx {
    fn flush_stats(&mut self, shard: u64) {
        let st = std::mem::take(&mut self.stats);
        emit(json!({
            "k": "stats", "shard": shard,
            "evaluations": st.evaluations,
            "hashes": st.hashes.iter().collect::<Vec<_>>(),
            "classes": st.classes,
            "samples": st.samples,
            "known_hits": st.known_hits,
            "skipped": st.skipped,
            "max_case_cpu_s": st.max_case_cpu_s,
        }));
    }

    /// Reports a failure found outside of a proptest loop (enumerations). Returns true if it was
    /// a known finding (search continues) and false if it is a new violation.
    pub fn report(&mut self, f: &Failure, shard: u64) -> bool {
        if let Some(k) = self.known.matches(&self.prop, &f.sig) {
            *self.stats.known_hits.entry(k.signature.clone()).or_insert(0) += 1;
            true
        } else {
            emit(json!({"k":"viol","shard":shard,"idx":0,"sig":f.sig,"what":f.what,
                "artefact":f.artefact,"choices":Value::Null}));
            false
        }
    }

    pub fn inconclusive(&self, why: &str) {
        emit(json!({"k":"inconclusive","why":why}));
    }

    /// Plain (non-proptest) shard loop for enumerations: calls `f(ctx, shard)` per owned shard.
    pub fn enumerate_shards(&mut self, mut f: impl FnMut(&mut WorkerCtx, u64)) {
        let shards = self.shards.clone();
        for shard in shards {
            f(self, shard);
            self.flush_stats(shard);
            emit(json!({"k":"shard_done","shard":shard}));
        }
    }

    /// Announce the case about to run (crash attribution). Only active for crash-type properties.
    /// Crash attribution: in a normal run only every `ANNOUNCE_BATCH`-th case is announced (the
    /// pipe write dominates cheap cases otherwise); in reproduction mode (`only` = first case of a
    /// batch) every case of that batch is announced with its artefact.
    pub fn start_case(&self, shard: u64, idx: u64, artefact: impl FnOnce() -> Value) {
        if self.only.is_some() {
            if self.in_only_range(shard, idx) {
                emit(json!({"k":"start","shard":shard,"idx":idx,"artefact":artefact()}));
            }
        } else if self.announce && idx % ANNOUNCE_BATCH == 0 {
            emit(json!({"k":"start","shard":shard,"idx":idx}));
        }
    }

    pub fn in_only_range(&self, shard: u64, idx: u64) -> bool {
        match self.only {
            Some((s, i0)) => s == shard && idx >= i0 && idx < i0 + ANNOUNCE_BATCH,
            None => true,
        }
    }

    /// Runs one proptest runner per owned shard. `case` decodes a choice sequence into a case and
    /// judges it; it may record statistics through the `Stats` it is given.
    pub fn run_shards(
        &mut self,
        max_choices: usize,
        cases_per_shard: u32,
        mut case: impl FnMut(&mut CaseCtx<'_>, &mut Choices) -> Verdict,
    ) {
        let shards = self.shards.clone();
        for shard in shards {
            let seed = derive_seed(&self.prop, self.seed, shard);
            let config = Config {
                cases: cases_per_shard,
                failure_persistence: None,
                rng_seed: RngSeed::Fixed(seed),
                max_shrink_iters: self.shrink_iters,
                max_shrink_time: 60_000,
                max_global_rejects: cases_per_shard.saturating_mul(4).max(1024),
                verbose: 0,
                source_file: None,
                test_name: None,
                ..Config::default()
            };
            let mut runner = TestRunner::new(config);
            let min_len = max_choices / 8;
            let strategy =
                proptest::collection::vec(proptest::num::u32::ANY, min_len..=max_choices);
            struct St<'a, F> {
                ctx: &'a mut WorkerCtx,
                case: &'a mut F,
                idx: u64,
                first: Option<Failure>,
                last_fail: Option<(Failure, Vec<u32>)>,
            }
            let st = RefCell::new(St {
                ctx: self,
                case: &mut case,
                idx: 0,
                first: None,
                last_fail: None,
            });
            let res = runner.run(&strategy, |raw| {
                let mut g = st.borrow_mut();
                let st = &mut *g;
                let idx = st.idx;
                st.idx += 1;
                let shrinking = st.first.is_some();
                if !shrinking {
                    if st.ctx.skip.contains(&(shard, idx)) {
                        return Ok(());
                    }
                    if !st.ctx.in_only_range(shard, idx) {
                        return Ok(());
                    }
                }
                let mut choices = Choices::new(raw.clone());
                let t0 = panics::thread_cpu_s();
                let v = {
                    let mut cc = CaseCtx { w: &mut *st.ctx, shard, idx };
                    let case = &mut *st.case;
                    match panics::catch(|| case(&mut cc, &mut choices)) {
                        Ok(v) => v,
                        Err(p) => Verdict::fail(
                            format!("harness-panic@{}", p.loc),
                            format!("uncaught panic at {}: {}", p.loc, truncate(&p.msg, 400)),
                            json!({"choices": raw}),
                        ),
                    }
                };
                let dt = panics::thread_cpu_s() - t0;
                if dt > st.ctx.stats.max_case_cpu_s {
                    st.ctx.stats.max_case_cpu_s = dt;
                }
                match v {
                    Verdict::Pass => Ok(()),
                    Verdict::Skip(why) => {
                        if !shrinking {
                            *st.ctx.stats.skipped.entry(why.to_string()).or_insert(0) += 1;
                        }
                        Ok(())
                    }
                    Verdict::Fail(f) => {
                        if let Some(k) = st.ctx.known.matches(&st.ctx.prop, &f.sig) {
                            if !shrinking {
                                *st.ctx.stats.known_hits.entry(k.signature.clone()).or_insert(0) +=
                                    1;
                            }
                            return Ok(());
                        }
                        if st.ctx.collect {
                            // Campaign mode: record every distinct signature once and go on.
                            if !shrinking && st.ctx.collected.insert(f.sig.clone()) {
                                let f = match &st.ctx.minimize {
                                    Some(m) => panics::catch(|| m(&f)).ok().flatten().unwrap_or(f),
                                    None => f,
                                };
                                emit(json!({"k":"viol","shard":shard,"idx":idx,"sig":f.sig,
                                    "what":f.what,"artefact":f.artefact,"choices":raw}));
                            }
                            return Ok(());
                        }
                        match &st.first {
                            None => {
                                st.ctx.stats.frozen = true;
                                st.first = Some(f.clone());
                                st.last_fail = Some((f.clone(), raw.clone()));
                                Err(TestCaseError::fail(f.sig.clone()))
                            }
                            Some(first) => {
                                if first.sig == f.sig {
                                    st.last_fail = Some((f.clone(), raw.clone()));
                                    Err(TestCaseError::fail(f.sig.clone()))
                                } else {
                                    Ok(())
                                }
                            }
                        }
                    }
                }
            });
            let st = st.into_inner();
            let ctx = st.ctx;
            ctx.stats.frozen = false;
            match res {
                Ok(()) => {}
                Err(TestError::Fail(_, minimal)) => {
                    // `last_fail` is the most recent failing evaluation; proptest's final value is
                    // the minimal failing one, and it was evaluated last among failures.
                    let (f, raw) = match st.last_fail {
                        Some((f, raw)) if raw == minimal => (f, raw),
                        Some((f, raw)) => (f, raw),
                        None => unreachable!(),
                    };
                    let f = match &ctx.minimize {
                        Some(m) => panics::catch(|| m(&f)).ok().flatten().unwrap_or(f),
                        None => f,
                    };
                    emit(json!({"k":"viol","shard":shard,"idx":0,"sig":f.sig,"what":f.what,
                        "artefact":f.artefact,"choices":raw}));
                }
                Err(TestError::Abort(why)) => {
                    emit(json!({"k":"inconclusive","why":format!("proptest abort: {why}")}));
                }
            }
            ctx.flush_stats(shard);
            emit(json!({"k":"shard_done","shard":shard}));
        }
    }
}

pub struct CaseCtx<'a> {
    pub w: &'a mut WorkerCtx,
    pub shard: u64,
    pub idx: u64,
}
impl CaseCtx<'_> {
    pub fn stats(&mut self) -> &mut Stats {
        &mut self.w.stats
    }
    pub fn tier(&self) -> Tier {
        self.w.tier
    }
    /// Whether this signature is a listed (unrepaired) known finding of the property.
    pub fn is_known(&self, sig: &str) -> bool {
        self.w.known.matches(&self.w.prop, sig).is_some()
    }
    /// Announce for crash attribution (C09/C14).
    pub fn start(&self, artefact: impl FnOnce() -> Value) {
        self.w.start_case(self.shard, self.idx, artefact);
    }
}

pub fn truncate(s: &str, n: usize) -> String {
    if s.len() <= n {
        s.to_string()
    } else {
        let mut e = n;
        while !s.is_char_boundary(e) {
            e -= 1;
        }
        format!("{}…[{} bytes]", &s[..e], s.len())
    }
}

/// What a property provides.
pub trait Prop: Sync {
    fn id(&self) -> &'static str;
    fn level(&self) -> &'static str {
        "exploration"
    }
    /// How cases are generated and what makes one non-trivial / distinct.
    fn rule(&self) -> String;
    fn assumptions(&self) -> Vec<String>;
    fn n_shards(&self, _tier: Tier) -> u64 {
        64
    }
    /// Crash-type properties announce every case so that signals can be attributed.
    fn crash_type(&self) -> bool {
        false
    }
    /// Signature of a process death on the given artefact (a predicate over the input may name
    /// the root cause more narrowly than the signal).
    fn crash_signature(&self, _artefact: &Value, why: &str) -> String {
        format!("crash:{why}")
    }
    /// Properties whose cases may kill the process for reasons that are another property's
    /// business (C15 runs C14's pipeline): the case is announced, stepped over and counted.
    fn skip_crashes(&self) -> bool {
        false
    }
    fn worker(&self, ctx: &mut WorkerCtx);
    /// Re-judges a stored artefact directly (no generator, no proptest).
    fn replay(&self, artefact: &Value) -> Verdict;
    /// Generator health on the aggregated statistics; Err => exit 2.
    fn health(&self, _tier: Tier, _agg: &Agg) -> Result<(), String> {
        Ok(())
    }
    /// Extra keys for the coverage object.
    fn extra_coverage(&self, _tier: Tier, _agg: &Agg) -> BTreeMap<String, Value> {
        BTreeMap::new()
    }
}

#[derive(Default)]
pub struct Agg {
    pub evaluations: u64,
    pub hashes: HashSet<u64>,
    pub classes: BTreeMap<String, u64>,
    pub samples: Vec<Value>,
    pub known_hits: BTreeMap<String, u64>,
    pub skipped: BTreeMap<String, u64>,
    pub max_case_cpu_s: f64,
    pub shards_done: BTreeSet<u64>,
    pub violations: Vec<Value>,
    pub inconclusive: Vec<String>,
}
impl Agg {
    pub fn class(&self, c: &str) -> u64 {
        self.classes.get(c).copied().unwrap_or(0)
    }
}

struct WorkerResult {
    crashed: Option<(Option<(u64, u64)>, String)>,
}

fn run_worker_process(
    prop: &dyn Prop,
    tier: Tier,
    seed: u64,
    shards: &[u64],
    skip: &[(u64, u64)],
    only: Option<(u64, u64)>,
    agg: &mut Agg,
    artefact_out: &mut Option<Value>,
) -> WorkerResult {
    let exe = std::env::current_exe().expect("exe");
    let mut cmd = Command::new(exe);
    cmd.arg("worker")
        .arg(prop.id())
        .arg("--tier")
        .arg(tier.name())
        .arg("--seed")
        .arg(seed.to_string())
        .arg("--shards")
        .arg(shards.iter().map(|s| s.to_string()).collect::<Vec<_>>().join(","));
    if !skip.is_empty() {
        cmd.arg("--skip")
            .arg(skip.iter().map(|(s, i)| format!("{s}:{i}")).collect::<Vec<_>>().join(","));
    }
    if let Some((s, i)) = only {
        cmd.arg("--only").arg(format!("{s}:{i}"));
    }
    cmd.stdout(Stdio::piped()).stderr(Stdio::inherit()).stdin(Stdio::null());
    // The binary may be momentarily absent while it is being rebuilt: retry, then give up cleanly.
    let mut child = {
        let mut tries = 0;
        loop {
            match cmd.spawn() {
                Ok(c) => break c,
                Err(e) if tries < 30 => {
                    tries += 1;
                    let _ = e;
                    std::thread::sleep(std::time::Duration::from_millis(1000));
                }
                Err(e) => {
                    println!("INCONCLUSIVE: cannot start a worker process: {e}");
                    std::process::exit(2);
                }
            }
        }
    };
    let pid = child.id();
    let stdout = child.stdout.take().unwrap();
    let (tx, rx) = std::sync::mpsc::channel::<String>();
    let reader = std::thread::spawn(move || {
        let br = BufReader::new(stdout);
        for line in br.lines() {
            match line {
                Ok(l) => {
                    if tx.send(l).is_err() {
                        break;
                    }
                }
                Err(_) => break,
            }
        }
    });
    let mut last_start: Option<(u64, u64)> = None;
    let mut last_start_at = Instant::now();
    let mut last_start_cpu = proc_cpu_s(pid);
    let mut killed: Option<String> = None;
    let cpu_limit: f64 =
        std::env::var("VERIF_CASE_CPU_S").ok().and_then(|s| s.parse().ok()).unwrap_or(90.0);
    let wall_limit: f64 =
        std::env::var("VERIF_CASE_WALL_S").ok().and_then(|s| s.parse().ok()).unwrap_or(900.0);
    loop {
        match rx.recv_timeout(Duration::from_millis(500)) {
            Ok(line) => {
                let Ok(v) = serde_json::from_str::<Value>(&line) else {
                    // Stray output of the code under test (debug prints): ignore.
                    continue;
                };
                match v.get("k").and_then(|k| k.as_str()) {
                    Some("start") => {
                        last_start = Some((
                            v["shard"].as_u64().unwrap_or(0),
                            v["idx"].as_u64().unwrap_or(0),
                        ));
                        last_start_at = Instant::now();
                        last_start_cpu = proc_cpu_s(pid);
                        if let Some(a) = v.get("artefact") {
                            *artefact_out = Some(a.clone());
                        }
                    }
                    Some("stats") => {
                        agg.evaluations += v["evaluations"].as_u64().unwrap_or(0);
                        if let Some(hs) = v["hashes"].as_array() {
                            for h in hs {
                                if let Some(h) = h.as_u64() {
                                    agg.hashes.insert(h);
                                }
                            }
                        }
                        for (key, dst) in [
                            ("classes", &mut agg.classes),
                            ("known_hits", &mut agg.known_hits),
                            ("skipped", &mut agg.skipped),
                        ] {
                            if let Some(m) = v[key].as_object() {
                                for (k, n) in m {
                                    *dst.entry(k.clone()).or_insert(0) += n.as_u64().unwrap_or(0);
                                }
                            }
                        }
                        if let Some(s) = v["samples"].as_array() {
                            for x in s {
                                if agg.samples.len() < 64 {
                                    agg.samples.push(x.clone());
                                }
                            }
                        }
                        let c = v["max_case_cpu_s"].as_f64().unwrap_or(0.0);
                        if c > agg.max_case_cpu_s {
                            agg.max_case_cpu_s = c;
                        }
                    }
                    Some("shard_done") => {
                        agg.shards_done.insert(v["shard"].as_u64().unwrap_or(0));
                        last_start = None;
                    }
                    Some("viol") => agg.violations.push(v),
                    Some("inconclusive") => {
                        agg.inconclusive.push(v["why"].as_str().unwrap_or("?").to_string())
                    }
                    _ => {}
                }
            }
            Err(std::sync::mpsc::RecvTimeoutError::Timeout) => {
                if prop.crash_type() && last_start.is_some() {
                    let cpu = proc_cpu_s(pid) - last_start_cpu;
                    let wall = last_start_at.elapsed().as_secs_f64();
                    if cpu > cpu_limit {
                        let _ = child.kill();
                        killed = Some(format!("runaway: {cpu:.0} CPU-s in one case"));
                    } else if wall > wall_limit {
                        let _ = child.kill();
                        killed = Some(format!("stalled: {wall:.0} s wall in one case"));
                    }
                }
            }
            Err(std::sync::mpsc::RecvTimeoutError::Disconnected) => break,
        }
    }
    let _ = reader.join();
    let status = child.wait().expect("wait");
    if let Some(why) = killed {
        return WorkerResult { crashed: Some((last_start, why)) };
    }
    if !status.success() {
        use std::os::unix::process::ExitStatusExt;
        let why = match status.signal() {
            Some(s) => format!("signal {s}"),
            None => format!("exit status {:?}", status.code()),
        };
        return WorkerResult { crashed: Some((last_start, why)) };
    }
    WorkerResult { crashed: None }
}

fn proc_cpu_s(pid: u32) -> f64 {
    let Ok(s) = std::fs::read_to_string(format!("/proc/{pid}/stat")) else { return 0.0 };
    let Some(i) = s.rfind(')') else { return 0.0 };
    let f: Vec<&str> = s[i + 1..].split_whitespace().collect();
    // fields after comm: state(0) ... utime is field 14 overall => index 11 here, stime 12.
    let ut: f64 = f.get(11).and_then(|x| x.parse().ok()).unwrap_or(0.0);
    let st: f64 = f.get(12).and_then(|x| x.parse().ok()).unwrap_or(0.0);
    (ut + st) / 100.0
}

pub fn n_workers() -> usize {
    std::env::var("VERIF_JOBS")
        .ok()
        .and_then(|s| s.parse().ok())
        .unwrap_or_else(|| std::thread::available_parallelism().map(|n| n.get()).unwrap_or(8))
}

/// The driver: returns the process exit code.
pub fn check(prop: &dyn Prop, tier: Tier, seed: u64) -> i32 {
    let t0 = Instant::now();
    let root = verif_root();
    let known = KnownFindings::load(&root.join("known_findings.json"));
    let id = prop.id();
    let mut out_lines: Vec<String> = vec![];
    let mut new_violations: Vec<(String, String, Value)> = vec![]; // sig, what, replay json
    let mut inconclusive: Vec<String> = vec![];

    // 1. Known findings and promoted regression inputs, judged directly (in a subprocess each, so
    //    that a crash cannot take the driver down).
    let mut replay_items: Vec<(String, Value, Option<Known>)> = vec![];
    for k in known.for_prop(id) {
        if let Some(input) = &k.input {
            replay_items.push((format!("known:{}", k.signature), input.clone(), Some(k.clone())));
        }
    }
    let corpus_dir = root.join("corpus").join(id);
    if let Ok(rd) = std::fs::read_dir(&corpus_dir) {
        let mut files: Vec<_> = rd.filter_map(|e| e.ok()).map(|e| e.path()).collect();
        files.sort();
        for f in files {
            if f.extension().map(|e| e == "json").unwrap_or(false) {
                if let Ok(s) = std::fs::read_to_string(&f) {
                    if let Ok(v) = serde_json::from_str::<Value>(&s) {
                        let art = v.get("artefact").cloned().unwrap_or(v);
                        replay_items.push((format!("corpus:{}", f.display()), art, None));
                    }
                }
            }
        }
    }
    let mut regression_replays = 0u64;
    for (name, art, k) in &replay_items {
        regression_replays += 1;
        let r = replay_in_subprocess(id, art);
        match (r, k) {
            (ReplayOutcome::Pass, Some(k)) if k.status == "known" => {
                eprintln!(
                    "note: known finding '{}' did not reproduce on its stored input",
                    k.signature
                );
            }
            (ReplayOutcome::Pass, _) => {}
            (ReplayOutcome::Fail(sig, what), kk) => {
                let listed = known.matches(id, &sig);
                match listed {
                    Some(kf) => {
                        out_lines.push(format!("KNOWN-FINDING: property={} {}", id, kf.what));
                    }
                    None => {
                        let what = match kk {
                            Some(k) if k.status == "fixed" => {
                                format!("fixed finding returned ({}): {}", k.signature, what)
                            }
                            _ => format!("regression input {name}: {what}"),
                        };
                        new_violations.push((sig, what, art.clone()));
                    }
                }
            }
            (ReplayOutcome::Crash(why), _) => {
                let sig = prop.crash_signature(art, &why);
                match known.matches(id, &sig) {
                    Some(kf) => {
                        out_lines.push(format!("KNOWN-FINDING: property={} {}", id, kf.what))
                    }
                    None => new_violations.push((
                        sig,
                        format!("regression input {name} crashed the process: {why}"),
                        art.clone(),
                    )),
                }
            }
        }
    }

    // 2. Sharded search.
    let n_shards = prop.n_shards(tier);
    let workers = n_workers().min(n_shards as usize).max(1);
    let mut assignment: Vec<Vec<u64>> = vec![vec![]; workers];
    for s in 0..n_shards {
        assignment[(s as usize) % workers].push(s);
    }
    let aggs: Vec<(Agg, Vec<(String, String, Value)>, Vec<String>)> =
        std::thread::scope(|scope| {
            let handles: Vec<_> = assignment
                .iter()
                .map(|shards| {
                    let known = &known;
                    scope.spawn(move || {
                        let mut agg = Agg::default();
                        let mut viols = vec![];
                        let mut inconc = vec![];
                        let mut skip: Vec<(u64, u64)> = vec![];
                        let mut crashes = 0;
                        loop {
                            let todo: Vec<u64> = shards
                                .iter()
                                .copied()
                                .filter(|s| !agg.shards_done.contains(s))
                                .collect();
                            if todo.is_empty() {
                                break;
                            }
                            let mut art = None;
                            let r = run_worker_process(
                                prop, tier, seed, &todo, &skip, None, &mut agg, &mut art,
                            );
                            let Some((at, why)) = r.crashed else { break };
                            crashes += 1;
                            let Some((s, i)) = at else {
                                inconc.push(format!(
                                    "worker died outside a case ({why}); shards {todo:?} incomplete"
                                ));
                                break;
                            };
                            // Reproduce twice in fresh processes.
                            let mut repro = 0;
                            let mut artefact = None;
                            let mut exact = i;
                            for _ in 0..2 {
                                let mut a2 = Agg::default();
                                let mut art2 = None;
                                let r2 = run_worker_process(
                                    prop,
                                    tier,
                                    seed,
                                    &[s],
                                    &skip,
                                    Some((s, i)),
                                    &mut a2,
                                    &mut art2,
                                );
                                if let Some((Some((_, ie)), _)) = &r2.crashed {
                                    repro += 1;
                                    exact = *ie;
                                    if art2.is_some() {
                                        artefact = art2;
                                    }
                                }
                            }
                            let i = exact;
                            if repro == 2 && prop.crash_type() {
                                let art = artefact.unwrap_or(json!({"shard":s,"idx":i}));
                                let sig = prop.crash_signature(&art, &why_class(&why));
                                if known.matches(prop.id(), &sig).is_none() {
                                    viols.push((
                                        sig,
                                        format!("process died ({why}) on case {s}:{i}, reproduced twice in fresh processes"),
                                        art,
                                    ));
                                }
                            } else if prop.skip_crashes() {
                                *agg.classes.entry("cases_skipped_after_process_death".to_string()).or_insert(0) += 1;
                            } else {
                                inconc.push(format!(
                                    "worker died ({why}) on case {s}:{i}; reproduced {repro}/2{}",
                                    if prop.crash_type() { "" } else { " (not a crash-type property)" }
                                ));
                            }
                            if repro == 0 {
                                // Not reproducible: step over the whole announced batch.
                                for k in 0..ANNOUNCE_BATCH {
                                    skip.push((s, i + k));
                                }
                            } else {
                                skip.push((s, i));
                            }
                            if crashes > 20 {
                                inconc.push("too many worker crashes".into());
                                break;
                            }
                        }
                        (agg, viols, inconc)
                    })
                })
                .collect();
            handles.into_iter().map(|h| h.join().expect("driver thread")).collect()
        });

    let mut agg = Agg::default();
    for (a, v, inc) in aggs {
        agg.evaluations += a.evaluations;
        agg.hashes.extend(a.hashes);
        for (k, n) in a.classes {
            *agg.classes.entry(k).or_insert(0) += n;
        }
        for (k, n) in a.known_hits {
            *agg.known_hits.entry(k).or_insert(0) += n;
        }
        for (k, n) in a.skipped {
            *agg.skipped.entry(k).or_insert(0) += n;
        }
        agg.samples.extend(a.samples);
        agg.max_case_cpu_s = agg.max_case_cpu_s.max(a.max_case_cpu_s);
        agg.shards_done.extend(a.shards_done);
        for viol in a.violations {
            new_violations.push((
                viol["sig"].as_str().unwrap_or("?").to_string(),
                viol["what"].as_str().unwrap_or("?").to_string(),
                json!({"artefact": viol["artefact"], "choices": viol["choices"], "shard": viol["shard"]}),
            ));
        }
        agg.inconclusive.extend(a.inconclusive);
        new_violations.extend(v);
        inconclusive.extend(inc);
    }
    inconclusive.extend(agg.inconclusive.clone());
    if agg.shards_done.len() as u64 != n_shards {
        inconclusive.push(format!("only {}/{} shards completed", agg.shards_done.len(), n_shards));
    }
    // Known findings met during the search.
    for (sig, n) in &agg.known_hits {
        if let Some(k) = known.matches(id, sig) {
            let line = format!("KNOWN-FINDING: property={} {}", id, k.what);
            if !out_lines.contains(&line) {
                out_lines.push(line);
            }
            eprintln!("known finding '{sig}' met {n} times during the search");
        }
    }

    // 3. Violations: dedup by signature, write replay files.
    let mut seen = BTreeSet::new();
    let mut n_viol = 0;
    let rdir = root.join("replays").join(id);
    for (sig, what, replay) in &new_violations {
        if !seen.insert(sig.clone()) {
            continue;
        }
        n_viol += 1;
        if n_viol > 12 {
            continue;
        }
        let _ = std::fs::create_dir_all(&rdir);
        let path = rdir.join(format!("{:016x}.json", hash_str(sig)));
        let artefact = replay.get("artefact").cloned().unwrap_or(replay.clone());
        let doc = json!({
            "property": id, "seed": seed, "tier": tier.name(), "signature": sig, "what": what,
            "artefact": artefact, "choices": replay.get("choices").cloned().unwrap_or(Value::Null),
        });
        let _ = std::fs::write(&path, serde_json::to_string_pretty(&doc).unwrap());
        out_lines.push(format!("VIOLATION property={} replay={}", id, path.display()));
        eprintln!("violation [{}]: {}", sig, truncate(what, 1500));
    }

    // 4. Health and evidence.
    let health = if n_viol == 0 { prop.health(tier, &agg) } else { Ok(()) };
    if let Err(e) = &health {
        inconclusive.push(format!("generator health: {e}"));
    }
    let mut coverage = serde_json::Map::new();
    coverage.insert("evaluations".into(), json!(agg.evaluations));
    coverage.insert("distinct_nontrivial".into(), json!(agg.hashes.len()));
    coverage.insert("rule".into(), json!(prop.rule()));
    let mut samples = agg.samples.clone();
    samples.truncate(6);
    coverage.insert("samples".into(), json!(samples));
    coverage.insert("classes".into(), json!(agg.classes));
    coverage.insert("known_finding_hits".into(), json!(agg.known_hits));
    coverage.insert("skipped_by_generator".into(), json!(agg.skipped));
    coverage.insert("regression_replays".into(), json!(regression_replays));
    coverage.insert("shards".into(), json!(n_shards));
    coverage.insert("max_case_cpu_s".into(), json!(agg.max_case_cpu_s));
    coverage.insert("inconclusive".into(), json!(inconclusive));
    for (k, v) in prop.extra_coverage(tier, &agg) {
        coverage.insert(k, v);
    }
    let evidence = json!({
        "property_id": id,
        "tier": tier.name(),
        "seed": seed,
        "level": prop.level(),
        "coverage": coverage,
        "assumptions": prop.assumptions(),
        "wall_s": t0.elapsed().as_secs_f64(),
        "violations": n_viol,
    });
    let edir = root.join("evidence");
    let _ = std::fs::create_dir_all(&edir);
    let _ = std::fs::write(
        edir.join(format!("{id}.json")),
        serde_json::to_string_pretty(&evidence).unwrap() + "\n",
    );

    for l in &out_lines {
        println!("{l}");
    }
    println!(
        "{id} {}: evaluations={} distinct_nontrivial={} violations={} known_hits={} wall={:.1}s",
        tier.name(),
        agg.evaluations,
        agg.hashes.len(),
        n_viol,
        agg.known_hits.values().sum::<u64>(),
        t0.elapsed().as_secs_f64()
    );
    if n_viol > 0 {
        return 1;
    }
    if !inconclusive.is_empty() {
        for i in &inconclusive {
            println!("INCONCLUSIVE: {i}");
        }
        return 2;
    }
    0
}

fn why_class(why: &str) -> String {
    if why.starts_with("runaway") {
        "runaway".into()
    } else if why.starts_with("stalled") {
        "stalled".into()
    } else {
        why.to_string()
    }
}

pub enum ReplayOutcome {
    Pass,
    Fail(String, String),
    Crash(String),
}

/// Judges an artefact in a fresh subprocess (`verif replay-raw <ID>` reading the artefact on
/// stdin).
pub fn replay_in_subprocess(id: &str, artefact: &Value) -> ReplayOutcome {
    let exe = std::env::current_exe().expect("exe");
    let mut child = Command::new(exe)
        .arg("replay-raw")
        .arg(id)
        .stdin(Stdio::piped())
        .stdout(Stdio::piped())
        .stderr(Stdio::inherit())
        .spawn()
        .expect("spawn replay");
    {
        let mut stdin = child.stdin.take().unwrap();
        let _ = stdin.write_all(artefact.to_string().as_bytes());
    }
    let out = child.wait_with_output().expect("replay output");
    let text = String::from_utf8_lossy(&out.stdout);
    for line in text.lines().rev() {
        if let Ok(v) = serde_json::from_str::<Value>(line) {
            match v["r"].as_str() {
                Some("pass") | Some("skip") => return ReplayOutcome::Pass,
                Some("fail") => {
                    return ReplayOutcome::Fail(
                        v["sig"].as_str().unwrap_or("?").into(),
                        v["what"].as_str().unwrap_or("?").into(),
                    );
                }
                _ => {}
            }
        }
    }
    use std::os::unix::process::ExitStatusExt;
    ReplayOutcome::Crash(match out.status.signal() {
        Some(s) => format!("signal {s}"),
        None => format!("exit status {:?}", out.status.code()),
    })
}

/// `verif replay-raw <ID>`: artefact on stdin, one JSON line on stdout.
pub fn replay_raw(prop: &dyn Prop) -> i32 {
    let mut s = String::new();
    use std::io::Read;
    std::io::stdin().read_to_string(&mut s).expect("stdin");
    let art: Value = serde_json::from_str(&s).expect("artefact json");
    // Same resource envelope as a worker: address-space limit and an 8 MiB stack.
    let gib: u64 = std::env::var("VERIF_AS_GIB").ok().and_then(|s| s.parse().ok()).unwrap_or(16);
    unsafe {
        let lim = libc::rlimit { rlim_cur: gib << 30, rlim_max: gib << 30 };
        libc::setrlimit(libc::RLIMIT_AS, &lim);
    }
    let v = std::thread::scope(|scope| {
        std::thread::Builder::new()
            .stack_size(8 << 20)
            .spawn_scoped(scope, || match panics::catch(|| prop.replay(&art)) {
                Ok(v) => v,
                Err(p) => Verdict::fail(
                    format!("harness-panic@{}", p.loc),
                    format!("uncaught panic at {}: {}", p.loc, p.msg),
                    art.clone(),
                ),
            })
            .expect("spawn")
            .join()
            .unwrap_or(Verdict::Skip("replay thread died"))
    });
    match v {
        Verdict::Pass => println!("{}", json!({"r":"pass"})),
        Verdict::Skip(w) => println!("{}", json!({"r":"skip","why":w})),
        Verdict::Fail(f) => println!("{}", json!({"r":"fail","sig":f.sig,"what":f.what})),
    }
    0
}

/// `verif replay <ID> <path>`: user-facing replay of a replay file. Exit 1 + VIOLATION line if the
/// oracle still fails (and the signature is not a listed known finding).
pub fn replay_file(prop: &dyn Prop, path: &str) -> i32 {
    let root = verif_root();
    let known = KnownFindings::load(&root.join("known_findings.json"));
    let s = match std::fs::read_to_string(path) {
        Ok(s) => s,
        Err(e) => {
            eprintln!("cannot read {path}: {e}");
            return 2;
        }
    };
    let doc: Value = match serde_json::from_str(&s) {
        Ok(v) => v,
        Err(e) => {
            eprintln!("bad replay file: {e}");
            return 2;
        }
    };
    let art = doc.get("artefact").cloned().unwrap_or(doc.clone());
    match replay_in_subprocess(prop.id(), &art) {
        ReplayOutcome::Pass => {
            println!("replay: property {} holds on {}", prop.id(), path);
            0
        }
        ReplayOutcome::Fail(sig, what) => {
            if let Some(k) = known.matches(prop.id(), &sig) {
                println!("KNOWN-FINDING: property={} {}", prop.id(), k.what);
                return 0;
            }
            eprintln!("violation [{sig}]: {}", truncate(&what, 2000));
            println!("VIOLATION property={} replay={}", prop.id(), path);
            1
        }
        ReplayOutcome::Crash(why) => {
            let sig = prop.crash_signature(&art, &why);
            if let Some(k) = known.matches(prop.id(), &sig) {
                println!("KNOWN-FINDING: property={} {}", prop.id(), k.what);
                return 0;
            }
            eprintln!("replay crashed the process: {why}");
            println!("VIOLATION property={} replay={}", prop.id(), path);
            1
        }
    }
}

/// Entry point of a worker subprocess.
pub fn worker_main(prop: &dyn Prop, args: &[String]) -> i32 {
    let mut tier = Tier::Quick;
    let mut seed = 0u64;
    let mut shards = vec![];
    let mut skip = HashSet::new();
    let mut only = None;
    let mut i = 0;
    let parse_pair = |s: &str| -> (u64, u64) {
        let (a, b) = s.split_once(':').expect("pair");
        (a.parse().unwrap(), b.parse().unwrap())
    };
    while i < args.len() {
        match args[i].as_str() {
            "--tier" => {
                tier = if args[i + 1] == "thorough" { Tier::Thorough } else { Tier::Quick };
                i += 1;
            }
            "--seed" => {
                seed = args[i + 1].parse().unwrap();
                i += 1;
            }
            "--shards" => {
                shards = args[i + 1].split(',').filter(|s| !s.is_empty()).map(|s| s.parse().unwrap()).collect();
                i += 1;
            }
            "--skip" => {
                skip = args[i + 1].split(',').map(parse_pair).collect();
                i += 1;
            }
            "--only" => {
                only = Some(parse_pair(&args[i + 1]));
                i += 1;
            }
            _ => {}
        }
        i += 1;
    }
    // Address-space limit: runaway allocation becomes an abort instead of taking the box down.
    let gib: u64 = std::env::var("VERIF_AS_GIB").ok().and_then(|s| s.parse().ok()).unwrap_or(16);
    unsafe {
        let lim = libc::rlimit { rlim_cur: gib << 30, rlim_max: gib << 30 };
        libc::setrlimit(libc::RLIMIT_AS, &lim);
        // A worker must not outlive its driver (a killed check would leave spinning orphans).
        libc::prctl(libc::PR_SET_PDEATHSIG, libc::SIGKILL);
    }
    let known = KnownFindings::load(&verif_root().join("known_findings.json"));
    let n_shards = prop.n_shards(tier);
    let announce = prop.crash_type() || prop.skip_crashes();
    let prop_id = prop.id().to_string();
    // Run on a thread with the stack size of a Linux main thread (8 MiB), which is what the CLI
    // tools run on; a stack overflow kills the process and is attributed by the driver.
    let res = std::thread::scope(|scope| {
        std::thread::Builder::new()
            .stack_size(8 << 20)
            .spawn_scoped(scope, move || {
                panics::install_hook();
                let mut ctx = WorkerCtx {
                    prop: prop_id,
                    tier,
                    seed,
                    shards,
                    n_shards,
                    skip,
                    only,
                    known,
                    announce,
                    stats: Stats::default(),
                    minimize: None,
                    collect: std::env::var("VERIF_COLLECT").is_ok(),
                    collected: BTreeSet::new(),
                    shrink_iters: 4000,
                };
                prop.worker(&mut ctx);
            })
            .expect("spawn")
            .join()
    });
    match res {
        Ok(()) => 0,
        Err(_) => {
            emit(json!({"k":"inconclusive","why":"worker thread panicked outside a case"}));
            3
        }
    }
}
