#![allow(dead_code)]
mod core;
mod gens;
mod oracle;
mod props;

use crate::core::driver::{self, Prop, Tier};

fn usage() -> ! {
    eprintln!(
        "usage: verif check <ID> [--tier quick|thorough]\n       verif replay <ID> <path>\n       verif list"
    );
    std::process::exit(2)
}

fn main() {
    let args: Vec<String> = std::env::args().collect();
    if args.len() < 2 {
        usage();
    }
    let cmd = args[1].as_str();
    if cmd == "list" {
        for p in props::all() {
            println!("{}", p.id());
        }
        return;
    }
    if cmd == "dbg" {
        props::debug_cmd(&args[2..]);
        return;
    }
    if args.len() < 3 {
        usage();
    }
    let id = args[2].as_str();
    let Some(prop) = props::all().into_iter().find(|p| p.id() == id) else {
        eprintln!("unknown property {id}");
        std::process::exit(2);
    };
    let prop: &dyn Prop = &*prop;
    let seed: u64 = std::env::var("VERIF_SEED").ok().and_then(|s| s.parse().ok()).unwrap_or(0);
    let code = match cmd {
        "check" => {
            let mut tier = match std::env::var("VERIF_TIER").as_deref() {
                Ok("thorough") => Tier::Thorough,
                _ => Tier::Quick,
            };
            let mut i = 3;
            while i < args.len() {
                if args[i] == "--tier" && i + 1 < args.len() {
                    tier = if args[i + 1] == "thorough" { Tier::Thorough } else { Tier::Quick };
                    i += 1;
                }
                i += 1;
            }
            driver::check(prop, tier, seed)
        }
        "worker" => driver::worker_main(prop, &args[3..]),
        "replay-raw" => driver::replay_raw(prop),
        "replay" => {
            if args.len() < 4 {
                usage();
            }
            driver::replay_file(prop, &args[3])
        }
        _ => usage(),
    };
    std::process::exit(code);
}
