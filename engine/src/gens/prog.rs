//! Typed random Cairo programs: own IR with a pretty-printer to Cairo source. The reference
//! evaluator over BigInt lives in `oracle/eval.rs`. Programs are well-typed and ownership-correct
//! by construction (all user types are Copy; arrays and dictionaries are function-local mutable
//! variables that are never moved).

use num_bigint::BigInt;
use num_traits::{One, Zero};

use crate::core::choices::Choices;

#[derive(Clone, Debug, PartialEq, Eq, Hash)]
pub enum Ty {
    Felt,
    Bool,
    U(u32),
    I(u32),
    U256,
    Tuple(Vec<Ty>),
    Struct(usize),
    Enum(usize),
    Opt(Box<Ty>),
}

pub fn prime() -> BigInt {
    (BigInt::one() << 251) + BigInt::from(17) * (BigInt::one() << 192) + BigInt::one()
}

impl Ty {
    pub fn is_int(&self) -> bool {
        matches!(self, Ty::U(_) | Ty::I(_) | Ty::U256)
    }
    pub fn is_signed(&self) -> bool {
        matches!(self, Ty::I(_))
    }
    pub fn is_scalar(&self) -> bool {
        matches!(self, Ty::Felt | Ty::Bool | Ty::U(_) | Ty::I(_) | Ty::U256)
    }
    pub fn min(&self) -> BigInt {
        match self {
            Ty::I(b) => -(BigInt::one() << (b - 1)),
            _ => BigInt::zero(),
        }
    }
    pub fn max(&self) -> BigInt {
        match self {
            Ty::U(b) => (BigInt::one() << *b) - 1,
            Ty::I(b) => (BigInt::one() << (b - 1)) - 1,
            Ty::U256 => (BigInt::one() << 256) - 1,
            Ty::Felt => prime() - 1,
            Ty::Bool => BigInt::one(),
            _ => BigInt::zero(),
        }
    }
    pub fn name(&self, p: &Program) -> String {
        match self {
            Ty::Felt => "felt252".into(),
            Ty::Bool => "bool".into(),
            Ty::U(b) => format!("u{b}"),
            Ty::I(b) => format!("i{b}"),
            Ty::U256 => "u256".into(),
            Ty::Tuple(ts) => {
                if ts.len() == 1 {
                    format!("({},)", ts[0].name(p))
                } else {
                    format!("({})", ts.iter().map(|t| t.name(p)).collect::<Vec<_>>().join(", "))
                }
            }
            Ty::Struct(i) => format!("S{i}"),
            Ty::Enum(i) => format!("E{i}"),
            Ty::Opt(t) => format!("Option<{}>", t.name(p)),
        }
    }
}

#[derive(Clone, Copy, Debug, PartialEq, Eq)]
pub enum BinOp {
    Add,
    Sub,
    Mul,
    Div,
    Rem,
    And,
    Or,
    Xor,
}
impl BinOp {
    pub fn sym(self) -> &'static str {
        match self {
            BinOp::Add => "+",
            BinOp::Sub => "-",
            BinOp::Mul => "*",
            BinOp::Div => "/",
            BinOp::Rem => "%",
            BinOp::And => "&",
            BinOp::Or => "|",
            BinOp::Xor => "^",
        }
    }
}
#[derive(Clone, Copy, Debug, PartialEq, Eq)]
pub enum CmpOp {
    Eq,
    Ne,
    Lt,
    Le,
    Gt,
    Ge,
}
impl CmpOp {
    pub fn sym(self) -> &'static str {
        match self {
            CmpOp::Eq => "==",
            CmpOp::Ne => "!=",
            CmpOp::Lt => "<",
            CmpOp::Le => "<=",
            CmpOp::Gt => ">",
            CmpOp::Ge => ">=",
        }
    }
}

#[derive(Clone, Debug)]
pub enum Expr {
    Lit(Ty, BigInt),
    Var(String),
    Bin(BinOp, Ty, Box<Expr>, Box<Expr>),
    Neg(Ty, Box<Expr>),
    BitNot(Ty, Box<Expr>),
    Cmp(CmpOp, Ty, Box<Expr>, Box<Expr>),
    AndAnd(Box<Expr>, Box<Expr>),
    OrOr(Box<Expr>, Box<Expr>),
    Not(Box<Expr>),
    /// `e.into()` (infallible widening)
    Into(Ty, Ty, Box<Expr>),
    /// `e.try_into().unwrap()`
    TryIntoUnwrap(Ty, Ty, Box<Expr>),
    /// `e.try_into()` : Option<to>
    TryInto(Ty, Ty, Box<Expr>),
    Tuple(Vec<Expr>),
    TupleField(Box<Expr>, usize, usize), // (e, index, arity) printed via destructuring block
    /// `{ let (t0_, t1_, ..) = e; (t<k0>_, t<k1>_, ..) }`: one destructuring, members permuted / duplicated
    Permute(Box<Expr>, usize, Vec<usize>),
    StructLit(usize, Vec<Expr>),
    Field(Box<Expr>, usize, usize), // (e, struct id, field index)
    EnumLit(usize, usize, Option<Box<Expr>>),
    Some_(Box<Expr>),
    None_(Ty),
    Unwrap(Box<Expr>),
    UnwrapOr(Box<Expr>, Box<Expr>),
    IsSome(Box<Expr>),
    If(Box<Expr>, Box<Block>, Box<Block>),
    MatchEnum(usize, Box<Expr>, Vec<(Option<String>, Block)>),
    MatchOpt(Box<Expr>, String, Box<Block>, Box<Block>),
    /// `match e { 0 => b0, 1 => b1, ..., _ => bd }` on an integer / felt252
    MatchNum(Ty, Box<Expr>, Vec<Block>, Box<Block>),
    MatchBool(Box<Expr>, Box<Block>, Box<Block>),
    Block(Box<Block>),
    Call(usize, Vec<Arg>),
    /// `loop { if cond { break val; } body }` with a bounded counter
    Loop(Box<LoopE>),
    ArrLen(String),
    ArrAt(String, Box<Expr>),
    ArrGet(String, Box<Expr>), // Option<T> via .get(i) -> Option<Box<@T>> mapped
    DictGet(String, Box<Expr>),
    SpanLen(String),
    SpanAt(String, Box<Expr>),
}

#[derive(Clone, Debug)]
pub enum Arg {
    Val(Expr),
    Ref(String),
    /// `arr.span()` of a local array
    Span(String),
    /// an existing span variable passed on
    SpanPass(String),
}

#[derive(Clone, Debug)]
pub struct LoopE {
    pub counter: String,
    pub limit: u32,
    pub cond: Expr,
    pub body: Vec<Stmt>,
    pub result: Expr,
    pub ty: Ty,
}

#[derive(Clone, Debug)]
pub struct Block {
    pub stmts: Vec<Stmt>,
    pub tail: Expr,
}

#[derive(Clone, Debug)]
pub enum Stmt {
    Let(String, bool, Ty, Expr),
    Assign(String, Expr),
    OpAssign(String, BinOp, Ty, Expr),
    IfS(Expr, Vec<Stmt>, Vec<Stmt>),
    While(String, u32, Expr, Vec<Stmt>), // counter var, limit, cond, body
    ForRange(String, Ty, Expr, Expr, Vec<Stmt>),
    ForSpan(String, String, bool, Vec<Stmt>), // for x in <array>.span() | <span> { }
    Assert(Expr, u64),
    ArrNew(String, Ty, Vec<Expr>),
    ArrAppend(String, Expr),
    ArrPop(String, String, Ty), // let name = arr.pop_front(): Option<T>
    DictNew(String, Ty),
    DictInsert(String, Expr, Expr),
    ReturnIf(Expr, Expr),
    Expr(Expr),
}

#[derive(Clone, Debug)]
pub enum Param {
    Val(String, Ty),
    Ref(String, Ty),
    Span(String, Ty),
}

#[derive(Clone, Debug)]
pub struct Func {
    pub params: Vec<Param>,
    pub ret: Ty,
    pub body: Block,
    pub inline: u8, // 0 none, 1 always, 2 never
    /// Recursive helper: (fuel param index)
    pub recursive: bool,
}

#[derive(Clone, Debug, Default)]
pub struct Program {
    pub structs: Vec<Vec<Ty>>,
    pub enums: Vec<Vec<Option<Ty>>>,
    pub funcs: Vec<Func>,
    /// Index of the entry function (always the last one); main wraps it.
    pub entry: usize,
    pub consts: Vec<(Ty, BigInt)>,
}

// ------------------------------------------------------------------------------------------
// Printer
// ------------------------------------------------------------------------------------------

pub fn lit(ty: &Ty, v: &BigInt) -> String {
    match ty {
        Ty::Bool => (if v.is_zero() { "false" } else { "true" }).into(),
        Ty::Felt => format!("{v}"),
        Ty::U(b) => format!("{v}_u{b}"),
        Ty::I(b) => format!("{v}_i{b}"),
        Ty::U256 => format!("{v}_u256"),
        _ => unreachable!("literal of non-scalar type"),
    }
}

struct Pr<'a> {
    p: &'a Program,
    out: String,
    ind: usize,
}

impl Pr<'_> {
    fn line(&mut self, s: &str) {
        for _ in 0..self.ind {
            self.out.push_str("    ");
        }
        self.out.push_str(s);
        self.out.push('\n');
    }
    fn block_inline(&mut self, b: &Block) -> String {
        // Renders a block as a multi-line string at the current indentation + 1.
        let mut sub = Pr { p: self.p, out: String::new(), ind: self.ind + 1 };
        for s in &b.stmts {
            sub.stmt(s);
        }
        let t = sub.expr(&b.tail);
        sub.line(&t);
        let mut r = String::from("{\n");
        r.push_str(&sub.out);
        for _ in 0..self.ind {
            r.push_str("    ");
        }
        r.push('}');
        r
    }
    fn stmts_inline(&mut self, ss: &[Stmt]) -> String {
        let mut sub = Pr { p: self.p, out: String::new(), ind: self.ind + 1 };
        for s in ss {
            sub.stmt(s);
        }
        let mut r = String::from("{\n");
        r.push_str(&sub.out);
        for _ in 0..self.ind {
            r.push_str("    ");
        }
        r.push('}');
        r
    }
    /// Expression in condition / scrutinee / operand position: block-like expressions are
    /// parenthesised (they are not allowed bare there).
    fn expr(&mut self, e: &Expr) -> String {
        let s = self.expr_raw(e);
        match e {
            Expr::If(..) | Expr::MatchEnum(..) | Expr::MatchOpt(..) | Expr::MatchNum(..) | Expr::MatchBool(..)
            | Expr::Block(..) | Expr::Loop(..) | Expr::StructLit(..) | Expr::TupleField(..) | Expr::Permute(..) | Expr::ArrGet(..) => format!("({s})"),
            _ => s,
        }
    }
    fn expr_raw(&mut self, e: &Expr) -> String {
        let p = self.p;
        match e {
            Expr::Lit(t, v) => {
                if v < &BigInt::zero() {
                    format!("({})", lit(t, v))
                } else {
                    lit(t, v)
                }
            }
            Expr::Var(n) => n.clone(),
            Expr::Bin(op, _, a, b) => format!("({} {} {})", self.expr(a), op.sym(), self.expr(b)),
            Expr::Neg(_, a) => format!("(-{})", self.expr(a)),
            Expr::BitNot(_, a) => format!("(~{})", self.expr(a)),
            Expr::Cmp(op, _, a, b) => format!("({} {} {})", self.expr(a), op.sym(), self.expr(b)),
            Expr::AndAnd(a, b) => format!("({} && {})", self.expr(a), self.expr(b)),
            Expr::OrOr(a, b) => format!("({} || {})", self.expr(a), self.expr(b)),
            Expr::Not(a) => format!("(!{})", self.expr(a)),
            Expr::Into(_, to, a) => format!("Into::<_, {}>::into({})", to.name(p), self.expr(a)),
            Expr::TryIntoUnwrap(_, to, a) => {
                format!("TryInto::<_, {}>::try_into({}).unwrap()", to.name(p), self.expr(a))
            }
            Expr::TryInto(_, to, a) => {
                format!("TryInto::<_, {}>::try_into({})", to.name(p), self.expr(a))
            }
            Expr::Tuple(es) => {
                let parts: Vec<String> = es.iter().map(|x| self.expr(x)).collect();
                if parts.len() == 1 { format!("({},)", parts[0]) } else { format!("({})", parts.join(", ")) }
            }
            Expr::TupleField(a, i, n) => {
                let pat: Vec<String> =
                    (0..*n).map(|k| if k == *i { "t_".to_string() } else { "_".to_string() }).collect();
                let pat = if *n == 1 { format!("({},)", pat[0]) } else { format!("({})", pat.join(", ")) };
                format!("{{ let {pat} = {}; t_ }}", self.expr(a))
            }
            Expr::Permute(a, n, picks) => {
                let pat: Vec<String> = (0..*n).map(|k| format!("t{k}_")).collect();
                let pat = if *n == 1 { format!("({},)", pat[0]) } else { format!("({})", pat.join(", ")) };
                let out: Vec<String> = picks.iter().map(|k| format!("t{k}_")).collect();
                let out = if out.len() == 1 { format!("({},)", out[0]) } else { format!("({})", out.join(", ")) };
                format!("{{ let {pat} = {}; {out} }}", self.expr(a))
            }
            Expr::StructLit(s, es) => {
                // Members are written (and therefore evaluated) in `struct_lit_order`, which is not
                // the declaration order for two thirds of the struct types.
                let parts: Vec<String> = struct_lit_order(*s, es.len())
                    .into_iter()
                    .map(|i| format!("m{i}: {}", self.expr(&es[i])))
                    .collect();
                format!("S{s} {{ {} }}", parts.join(", "))
            }
            Expr::Field(a, _, i) => format!("{}.m{i}", self.expr(a)),
            Expr::EnumLit(en, v, payload) => match payload {
                Some(x) => format!("E{en}::V{v}({})", self.expr(x)),
                None => format!("E{en}::V{v}"),
            },
            Expr::Some_(a) => format!("Option::Some({})", self.expr(a)),
            Expr::None_(t) => format!("Option::<{}>::None", t.name(p)),
            Expr::Unwrap(a) => format!("{}.unwrap()", self.expr(a)),
            Expr::UnwrapOr(a, d) => format!("{}.unwrap_or({})", self.expr(a), self.expr(d)),
            Expr::IsSome(a) => format!("{}.is_some()", self.expr(a)),
            Expr::If(c, t, f) => {
                let c = self.expr(c);
                let t = self.block_inline(t);
                let f = self.block_inline(f);
                format!("if {c} {t} else {f}")
            }
            Expr::MatchEnum(en, s, arms) => {
                let s = self.expr(s);
                let mut r = format!("match {s} {{\n");
                self.ind += 1;
                for (v, (bind, b)) in arms.iter().enumerate() {
                    let pat = match bind {
                        Some(n) => format!("E{en}::V{v}({n})"),
                        None => format!("E{en}::V{v}"),
                    };
                    let body = self.block_inline(b);
                    for _ in 0..self.ind {
                        r.push_str("    ");
                    }
                    r.push_str(&format!("{pat} => {body},\n"));
                }
                self.ind -= 1;
                for _ in 0..self.ind {
                    r.push_str("    ");
                }
                r.push('}');
                r
            }
            Expr::MatchOpt(s, n, some, none) => {
                let s = self.expr(s);
                self.ind += 1;
                let a = self.block_inline(some);
                let b = self.block_inline(none);
                self.ind -= 1;
                let pad = "    ".repeat(self.ind + 1);
                let pad0 = "    ".repeat(self.ind);
                format!("match {s} {{\n{pad}Option::Some({n}) => {a},\n{pad}Option::None => {b},\n{pad0}}}")
            }
            Expr::MatchNum(_, s, arms, dflt) => {
                let s = self.expr(s);
                self.ind += 1;
                let mut parts = vec![];
                for (i, b) in arms.iter().enumerate() {
                    let body = self.block_inline(b);
                    parts.push(format!("{}{i} => {body},\n", "    ".repeat(self.ind)));
                }
                let d = self.block_inline(dflt);
                parts.push(format!("{}_ => {d},\n", "    ".repeat(self.ind)));
                self.ind -= 1;
                format!("match {s} {{\n{}{}}}", parts.concat(), "    ".repeat(self.ind))
            }
            Expr::MatchBool(s, t, f) => {
                let s = self.expr(s);
                self.ind += 1;
                let a = self.block_inline(t);
                let b = self.block_inline(f);
                self.ind -= 1;
                let pad = "    ".repeat(self.ind + 1);
                let pad0 = "    ".repeat(self.ind);
                format!("match {s} {{\n{pad}true => {a},\n{pad}false => {b},\n{pad0}}}")
            }
            Expr::Block(b) => self.block_inline(b),
            Expr::Call(f, args) => {
                let parts: Vec<String> = args
                    .iter()
                    .map(|a| match a {
                        Arg::Val(e) => self.expr(e),
                        Arg::Ref(n) => format!("ref {n}"),
                        Arg::Span(n) => format!("{n}.span()"),
                        Arg::SpanPass(n) => n.clone(),
                    })
                    .collect();
                format!("f{f}({})", parts.join(", "))
            }
            Expr::Loop(l) => {
                let mut sub = Pr { p: self.p, out: String::new(), ind: self.ind + 1 };
                sub.line(&format!("let mut {}: u32 = 0;", l.counter));
                sub.line("loop {");
                sub.ind += 1;
                let c = sub.expr(&l.cond);
                let r = sub.expr(&l.result);
                sub.line(&format!("if {} >= {} || {c} {{", l.counter, l.limit));
                sub.line(&format!("    break {r};"));
                sub.line("}");
                for s in &l.body {
                    sub.stmt(s);
                }
                sub.line(&format!("{} += 1;", l.counter));
                sub.ind -= 1;
                sub.line("}");
                format!("{{\n{}{}}}", sub.out, "    ".repeat(self.ind))
            }
            Expr::ArrLen(a) => format!("{a}.len()"),
            Expr::ArrAt(a, i) => format!("(*{a}.at({}))", self.expr(i)),
            Expr::ArrGet(a, i) => {
                format!("match {a}.get({}) {{ Option::Some(b_) => Option::Some(*b_.unbox()), Option::None => Option::None }}", self.expr(i))
            }
            Expr::DictGet(d, k) => format!("{d}.get({})", self.expr(k)),
            Expr::SpanLen(a) => format!("{a}.len()"),
            Expr::SpanAt(a, i) => format!("(*{a}.at({}))", self.expr(i)),
        }
    }
    fn stmt(&mut self, s: &Stmt) {
        let p = self.p;
        match s {
            Stmt::Let(n, m, t, e) => {
                let e = self.expr(e);
                self.line(&format!("let {}{n}: {} = {e};", if *m { "mut " } else { "" }, t.name(p)));
            }
            Stmt::Assign(n, e) => {
                let e = self.expr(e);
                self.line(&format!("{n} = {e};"));
            }
            Stmt::OpAssign(n, op, _, e) => {
                let e = self.expr(e);
                self.line(&format!("{n} {}= {e};", op.sym()));
            }
            Stmt::IfS(c, t, f) => {
                let c = self.expr(c);
                let t = self.stmts_inline(t);
                if f.is_empty() {
                    self.line(&format!("if {c} {t};"));
                } else {
                    let f = self.stmts_inline(f);
                    self.line(&format!("if {c} {t} else {f};"));
                }
            }
            Stmt::While(cn, lim, c, body) => {
                self.line(&format!("let mut {cn}: u32 = 0;"));
                let c = self.expr(c);
                let mut b2 = body.clone();
                b2.push(Stmt::OpAssign(cn.clone(), BinOp::Add, Ty::U(32), Expr::Lit(Ty::U(32), BigInt::one())));
                let b = self.stmts_inline(&b2);
                self.line(&format!("while {cn} < {lim} && {c} {b};"));
            }
            Stmt::ForRange(v, t, lo, hi, body) => {
                let lo = self.expr(lo);
                let hi = self.expr(hi);
                let b = self.stmts_inline(body);
                let _ = t;
                self.line(&format!("for {v} in {lo}..{hi} {b};"));
            }
            Stmt::ForSpan(v, src, is_array, body) => {
                let sp = if *is_array { format!("{src}.span()") } else { src.clone() };
                self.line(&format!("for r_{v} in {sp} {{"));
                self.ind += 1;
                self.line(&format!("let {v} = *r_{v};"));
                for s in body {
                    self.stmt(s);
                }
                self.ind -= 1;
                self.line("};");
            }
            Stmt::Assert(c, code) => {
                let c = self.expr(c);
                self.line(&format!("assert({c}, {code});"));
            }
            Stmt::ArrNew(n, t, es) => {
                let parts: Vec<String> = es.iter().map(|x| self.expr(x)).collect();
                self.line(&format!("let mut {n}: Array<{}> = array![{}];", t.name(p), parts.join(", ")));
            }
            Stmt::ArrAppend(n, e) => {
                let e = self.expr(e);
                self.line(&format!("{n}.append({e});"));
            }
            Stmt::ArrPop(n, a, t) => {
                self.line(&format!("let {n}: Option<{}> = {a}.pop_front();", t.name(p)));
            }
            Stmt::DictNew(n, t) => {
                self.line(&format!("let mut {n}: core::dict::Felt252Dict<{}> = Default::default();", t.name(p)));
            }
            Stmt::DictInsert(d, k, v) => {
                let k = self.expr(k);
                let v = self.expr(v);
                self.line(&format!("{d}.insert({k}, {v});"));
            }
            Stmt::ReturnIf(c, v) => {
                let c = self.expr(c);
                let v = self.expr(v);
                self.line(&format!("if {c} {{ return {v}; }}"));
            }
            Stmt::Expr(e) => {
                let e = self.expr(e);
                self.line(&format!("let _ = {e};"));
            }
        }
    }
}

/// Type declarations only (structs and enums with the standard derives).
pub fn print_types(p: &Program) -> String {
    let mut pr = Pr { p, out: String::new(), ind: 0 };
    for (i, fields) in p.structs.iter().enumerate() {
        pr.line("#[derive(Copy, Drop, PartialEq, Serde)]");
        pr.line(&format!("struct S{i} {{"));
        for (k, t) in fields.iter().enumerate() {
            pr.line(&format!("    m{k}: {},", t.name(p)));
        }
        pr.line("}");
    }
    for (i, vars) in p.enums.iter().enumerate() {
        pr.line("#[derive(Copy, Drop, PartialEq, Serde)]");
        pr.line(&format!("enum E{i} {{"));
        for (k, t) in vars.iter().enumerate() {
            match t {
                Some(t) => pr.line(&format!("    V{k}: {},", t.name(p))),
                None => pr.line(&format!("    V{k},")),
            }
        }
        pr.line("}");
    }
    pr.out
}

/// One expression as Cairo source.
pub fn print_expr(p: &Program, e: &Expr) -> String {
    let mut pr = Pr { p, out: String::new(), ind: 1 };
    pr.expr(e)
}

/// One function `<prefix>fn f<i>(params) -> ret { body }`.
pub fn print_func(p: &Program, i: usize, prefix: &str) -> String {
    let f = &p.funcs[i];
    let mut pr = Pr { p, out: String::new(), ind: 0 };
    let params: Vec<String> = f
        .params
        .iter()
        .map(|pa| match pa {
            Param::Val(n, t) => format!("{n}: {}", t.name(p)),
            Param::Ref(n, t) => format!("ref {n}: {}", t.name(p)),
            Param::Span(n, t) => format!("{n}: Span<{}>", t.name(p)),
        })
        .collect();
    pr.line(&format!("{prefix}fn f{i}({}) -> {} {{", params.join(", "), f.ret.name(p)));
    pr.ind = 1;
    for s in &f.body.stmts {
        pr.stmt(s);
    }
    let t = pr.expr(&f.body.tail);
    pr.line(&t);
    pr.ind = 0;
    pr.line("}");
    pr.out
}

pub fn print_program(p: &Program) -> String {
    let mut pr = Pr { p, out: String::new(), ind: 0 };
    pr.line("use core::dict::Felt252DictTrait;");
    pr.line("use core::array::{ArrayTrait, SpanTrait};");
    pr.line("use core::option::OptionTrait;");
    pr.line("use core::traits::{Into, TryInto};");
    for (i, (t, v)) in p.consts.iter().enumerate() {
        pr.line(&format!("const C{i}: {} = {};", t.name(p), lit(t, v)));
    }
    for (i, fields) in p.structs.iter().enumerate() {
        pr.line("#[derive(Copy, Drop, PartialEq, Serde)]");
        pr.line(&format!("struct S{i} {{"));
        for (k, t) in fields.iter().enumerate() {
            pr.line(&format!("    m{k}: {},", t.name(p)));
        }
        pr.line("}");
    }
    for (i, vars) in p.enums.iter().enumerate() {
        pr.line("#[derive(Copy, Drop, PartialEq, Serde)]");
        pr.line(&format!("enum E{i} {{"));
        for (k, t) in vars.iter().enumerate() {
            match t {
                Some(t) => pr.line(&format!("    V{k}: {},", t.name(p))),
                None => pr.line(&format!("    V{k},")),
            }
        }
        pr.line("}");
    }
    for (i, f) in p.funcs.iter().enumerate() {
        match f.inline {
            1 => pr.line("#[inline(always)]"),
            2 => pr.line("#[inline(never)]"),
            _ => {}
        }
        let params: Vec<String> = f
            .params
            .iter()
            .map(|pa| match pa {
                Param::Val(n, t) => format!("{n}: {}", t.name(p)),
                Param::Ref(n, t) => format!("ref {n}: {}", t.name(p)),
                Param::Span(n, t) => format!("{n}: Span<{}>", t.name(p)),
            })
            .collect();
        pr.line(&format!("fn f{i}({}) -> {} {{", params.join(", "), f.ret.name(p)));
        pr.ind = 1;
        for s in &f.body.stmts {
            pr.stmt(s);
        }
        let t = pr.expr(&f.body.tail);
        pr.line(&t);
        pr.ind = 0;
        pr.line("}");
    }
    // Entry: scalar params only, result leaves through Serde.
    let e = &p.funcs[p.entry];
    let params: Vec<String> = e
        .params
        .iter()
        .map(|pa| match pa {
            Param::Val(n, t) => format!("{n}: {}", t.name(p)),
            _ => unreachable!("entry has value params only"),
        })
        .collect();
    let args: Vec<String> = e
        .params
        .iter()
        .map(|pa| match pa {
            Param::Val(n, _) => n.clone(),
            _ => unreachable!(),
        })
        .collect();
    pr.line(&format!("fn main({}) -> Array<felt252> {{", params.join(", ")));
    pr.line(&format!("    let r_: {} = f{}({});", e.ret.name(p), p.entry, args.join(", ")));
    pr.line("    let mut out_: Array<felt252> = array![];");
    pr.line("    r_.serialize(ref out_);");
    pr.line("    out_");
    pr.line("}");
    pr.out
}

// ------------------------------------------------------------------------------------------
// Generator
// ------------------------------------------------------------------------------------------

#[derive(Clone)]
struct VarInfo {
    name: String,
    ty: Ty,
    mutable: bool,
}

#[derive(Clone, Default)]
struct Env {
    vars: Vec<VarInfo>,
    arrays: Vec<(String, Ty)>,
    spans: Vec<(String, Ty)>,
    dicts: Vec<(String, Ty)>,
    /// Names that must not be assigned (loop counters, for variables).
    frozen: Vec<String>,
}

pub struct Gen<'a> {
    ch: &'a mut Choices,
    prog: Program,
    next_id: usize,
    cur_fn: usize,
    cur_ret: Ty,
    in_loop: bool,
    pub stats: GenStats,
    /// Shuffle functions generated so far: (index, parameter type, returns Option).
    shuffles: Vec<(usize, Ty, bool)>,
    /// Wrapper functions generated so far: (index, scalar parameter types, return type).
    wrappers: Vec<(usize, Vec<Ty>, Ty)>,
    force_wrapper: bool,
}

#[derive(Default, Clone, Debug)]
pub struct GenStats {
    pub loops: u32,
    pub matches: u32,
    pub calls: u32,
    pub arrays: u32,
    pub dicts: u32,
    pub ref_params: u32,
    pub arith: u32,
    pub casts: u32,
    pub ifs: u32,
    pub recursion: u32,
    pub early_return: u32,
    pub shuffle_functions: u32,
    pub wrappers: u32,
    pub dispatchers: u32,
}

const INT_TYS: &[Ty] = &[
    Ty::U(8),
    Ty::U(32),
    Ty::U(64),
    Ty::U(128),
    Ty::U(16),
    Ty::I(8),
    Ty::I(32),
    Ty::I(64),
    Ty::I(16),
    Ty::I(128),
    Ty::U256,
];

impl<'a> Gen<'a> {
    fn fresh(&mut self, p: &str) -> String {
        self.next_id += 1;
        format!("{p}{}", self.next_id)
    }

    fn scalar_ty(&mut self) -> Ty {
        match self.ch.weighted(&[6, 2, 2]) {
            0 => self.ch.pick(INT_TYS).clone(),
            1 => Ty::Felt,
            _ => Ty::Bool,
        }
    }

    fn any_ty(&mut self, depth: u32) -> Ty {
        let w_comp = if depth == 0 { 0 } else { 2 };
        match self.ch.weighted(&[8, w_comp, w_comp, w_comp, w_comp]) {
            0 => self.scalar_ty(),
            1 => {
                let n = 1 + self.ch.below(3);
                Ty::Tuple((0..n).map(|_| self.any_ty(depth - 1)).collect())
            }
            2 if !self.prog.structs.is_empty() => Ty::Struct(self.ch.below(self.prog.structs.len())),
            3 if !self.prog.enums.is_empty() => Ty::Enum(self.ch.below(self.prog.enums.len())),
            4 => Ty::Opt(Box::new(self.any_ty(depth - 1))),
            _ => self.scalar_ty(),
        }
    }

    fn small_value(&mut self, ty: &Ty) -> BigInt {
        // Literal values: small, boundary, or mid-range.
        let max = ty.max();
        let min = ty.min();
        match ty {
            Ty::Bool => BigInt::from(self.ch.below(2)),
            _ => match self.ch.weighted(&[6, 2, 1, 1, 5]) {
                0 => {
                    let v = BigInt::from(self.ch.below(12));
                    if ty.is_signed() && self.ch.chance(1, 3) { -v } else { v }
                }
                4 => {
                    // Identity / absorbing elements: the operands special-cased by optimisations.
                    let v = BigInt::from(*self.ch.pick(&[1i64, 0, 1, 2, -1]));
                    if v < min { BigInt::one() } else { v }
                }
                1 => {
                    let k = self.ch.below(5);
                    match k {
                        0 => max.clone(),
                        1 => min.clone(),
                        2 => max - 1,
                        3 => min + 1,
                        _ => (&max) / 2,
                    }
                }
                2 => {
                    // 2^k +- 1
                    let bits = match ty {
                        Ty::U(b) => *b,
                        Ty::I(b) => *b - 1,
                        Ty::U256 => 256,
                        _ => 251,
                    };
                    let k = 1 + self.ch.below((bits - 1) as usize) as u32;
                    let base = BigInt::one() << k;
                    let v = match self.ch.below(3) {
                        0 => base - 1,
                        1 => base,
                        _ => base + 1,
                    };
                    if v > max { max } else { v }
                }
                _ => {
                    let r = BigInt::from(self.ch.u64());
                    let span = &max - &min + 1;
                    &min + (r % span)
                }
            },
        }
    }

    fn vars_of<'e>(&self, env: &'e Env, ty: &Ty) -> Vec<&'e VarInfo> {
        env.vars.iter().filter(|v| &v.ty == ty).collect()
    }

    /// Generates an expression of type `ty`.
    fn expr(&mut self, env: &Env, ty: &Ty, fuel: u32) -> Expr {
        // Leaves.
        if fuel == 0 || self.ch.chance(1, 5) {
            return self.leaf(env, ty);
        }
        let f = fuel - 1;
        if !self.callable(ty).is_empty() && self.ch.chance(1, 4) {
            return self.call(env, ty, f);
        }
        match ty {
            Ty::Bool => match self.ch.weighted(&[4, 2, 2, 1, 2, 1, 1]) {
                0 => {
                    // comparison of two scalars
                    let t = self.scalar_ty();
                    let ops: &[CmpOp] = if t.is_int() {
                        &[CmpOp::Lt, CmpOp::Eq, CmpOp::Le, CmpOp::Gt, CmpOp::Ge, CmpOp::Ne]
                    } else {
                        &[CmpOp::Eq, CmpOp::Ne]
                    };
                    let op = *self.ch.pick(ops);
                    Expr::Cmp(op, t.clone(), Box::new(self.expr(env, &t, f)), Box::new(self.expr(env, &t, f)))
                }
                1 => Expr::AndAnd(Box::new(self.expr(env, ty, f)), Box::new(self.expr(env, ty, f))),
                2 => Expr::OrOr(Box::new(self.expr(env, ty, f)), Box::new(self.expr(env, ty, f))),
                3 => Expr::Not(Box::new(self.expr(env, ty, f))),
                4 => {
                    // structural equality
                    let t = self.any_ty(1);
                    let op = if self.ch.bool() { CmpOp::Eq } else { CmpOp::Ne };
                    Expr::Cmp(op, t.clone(), Box::new(self.expr(env, &t, f)), Box::new(self.expr(env, &t, f)))
                }
                5 => {
                    let t = self.any_ty(1);
                    Expr::IsSome(Box::new(self.expr(env, &Ty::Opt(Box::new(t)), f)))
                }
                _ => self.control(env, ty, f),
            },
            Ty::Felt => match self.ch.weighted(&[5, 2, 3]) {
                0 => {
                    self.stats.arith += 1;
                    let op = *self.ch.pick(&[BinOp::Add, BinOp::Sub, BinOp::Mul]);
                    Expr::Bin(op, ty.clone(), Box::new(self.expr(env, ty, f)), Box::new(self.expr(env, ty, f)))
                }
                1 => {
                    self.stats.casts += 1;
                    let from = self.ch.pick(INT_TYS).clone();
                    let inner = Box::new(self.expr(env, &from, f));
                    if from == Ty::U256 {
                        Expr::TryIntoUnwrap(from, ty.clone(), inner)
                    } else {
                        Expr::Into(from, ty.clone(), inner)
                    }
                }
                _ => self.control(env, ty, f),
            },
            Ty::U(_) | Ty::I(_) | Ty::U256 => match self.ch.weighted(&[8, 3, 4, 1]) {
                0 => {
                    self.stats.arith += 1;
                    let ops: &[BinOp] = if ty.is_signed() {
                        &[BinOp::Add, BinOp::Sub, BinOp::Mul, BinOp::Div, BinOp::Rem]
                    } else {
                        &[BinOp::Add, BinOp::Sub, BinOp::Mul, BinOp::Div, BinOp::Rem, BinOp::And, BinOp::Or, BinOp::Xor]
                    };
                    let op = *self.ch.pick(ops);
                    // Often: variable-ish operand against a literal (either side).
                    match self.ch.weighted(&[3, 2, 1]) {
                        0 => Expr::Bin(op, ty.clone(), Box::new(self.expr(env, ty, f)), Box::new(self.expr(env, ty, f))),
                        1 => Expr::Bin(op, ty.clone(), Box::new(self.leaf(env, ty)), Box::new(Expr::Lit(ty.clone(), self.small_value(ty)))),
                        _ => Expr::Bin(op, ty.clone(), Box::new(Expr::Lit(ty.clone(), self.small_value(ty))), Box::new(self.leaf(env, ty))),
                    }
                }
                1 => {
                    self.stats.casts += 1;
                    self.cast_to(env, ty, f)
                }
                2 => self.control(env, ty, f),
                _ => {
                    if ty.is_signed() {
                        Expr::Neg(ty.clone(), Box::new(self.expr(env, ty, f)))
                    } else if *ty != Ty::U256 {
                        Expr::BitNot(ty.clone(), Box::new(self.expr(env, ty, f)))
                    } else {
                        self.control(env, ty, f)
                    }
                }
            },
            Ty::Tuple(ts) => {
                if self.ch.chance(1, 4) {
                    self.control(env, ty, f)
                } else {
                    Expr::Tuple(ts.iter().map(|t| self.expr(env, t, f)).collect())
                }
            }
            Ty::Struct(s) => {
                if self.ch.chance(1, 4) {
                    self.control(env, ty, f)
                } else {
                    let fields = self.prog.structs[*s].clone();
                    Expr::StructLit(*s, fields.iter().map(|t| self.expr(env, t, f)).collect())
                }
            }
            Ty::Enum(en) => {
                if self.ch.chance(1, 4) {
                    self.control(env, ty, f)
                } else {
                    let vars = self.prog.enums[*en].clone();
                    let v = self.ch.below(vars.len());
                    let payload = vars[v].as_ref().map(|t| Box::new(self.expr(env, t, f)));
                    Expr::EnumLit(*en, v, payload)
                }
            }
            Ty::Opt(inner) => match self.ch.weighted(&[4, 1, 2, 2]) {
                0 => Expr::Some_(Box::new(self.expr(env, inner, f))),
                1 => Expr::None_((**inner).clone()),
                2 if inner.is_int() || **inner == Ty::Felt => {
                    // try_into from another integer type
                    self.stats.casts += 1;
                    let from = if **inner == Ty::Felt { self.ch.pick(INT_TYS).clone() } else { self.cast_source(inner) };
                    if **inner == Ty::Felt {
                        let from = if from == Ty::U256 { Ty::U(128) } else { from };
                        Expr::Some_(Box::new(Expr::Into(from.clone(), Ty::Felt, Box::new(self.expr(env, &from, f)))))
                    } else {
                        Expr::TryInto(from.clone(), (**inner).clone(), Box::new(self.expr(env, &from, f)))
                    }
                }
                2 | 3 => {
                    // array get / pop
                    let cands: Vec<(String, Ty)> =
                        env.arrays.iter().filter(|(_, t)| t == &**inner).cloned().collect();
                    if !cands.is_empty() {
                        let (a, _) = cands[self.ch.below(cands.len())].clone();
                        Expr::ArrGet(a, Box::new(self.expr(env, &Ty::U(32), f.min(1))))
                    } else {
                        self.control(env, ty, f)
                    }
                }
                _ => self.control(env, ty, f),
            },
        }
    }

    fn cast_source(&mut self, to: &Ty) -> Ty {
        // Any other integer type or felt252.
        // u256 converts only from/to unsigned integers and felt252.
        let mut c: Vec<Ty> = INT_TYS
            .iter()
            .filter(|t| *t != to)
            .filter(|t| match (to, t) {
                (Ty::U256, Ty::I(_)) | (Ty::I(_), Ty::U256) => false,
                _ => true,
            })
            .cloned()
            .collect();
        c.push(Ty::Felt);
        c[self.ch.below(c.len())].clone()
    }

    pub fn into_ok(from: &Ty, to: &Ty) -> bool {
        match (from, to) {
            (Ty::U(a), Ty::U(b)) => a < b,
            (Ty::I(a), Ty::I(b)) => a < b,
            (Ty::U(a), Ty::I(b)) => a < b,
            (Ty::U(_), Ty::U256) => true,
            (Ty::U(_) | Ty::I(_) | Ty::Bool, Ty::Felt) => true,
            (Ty::U256, Ty::Felt) => false,
            (Ty::Felt, Ty::U256) => true,
            _ => false,
        }
    }

    fn cast_to(&mut self, env: &Env, to: &Ty, f: u32) -> Expr {
        let from = self.cast_source(to);
        let inner = Box::new(self.expr(env, &from, f));
        if Self::into_ok(&from, to) && self.ch.chance(2, 3) {
            Expr::Into(from, to.clone(), inner)
        } else {
            Expr::TryIntoUnwrap(from, to.clone(), inner)
        }
    }

    fn leaf(&mut self, env: &Env, ty: &Ty) -> Expr {
        let vars = self.vars_of(env, ty);
        if !vars.is_empty() && !self.ch.chance(1, 4) {
            let n = vars[self.ch.below(vars.len())].name.clone();
            return Expr::Var(n);
        }
        // A variable of another numeric type, converted.
        if (ty.is_int() || *ty == Ty::Felt) && self.ch.chance(1, 2) {
            let cands: Vec<VarInfo> = env
                .vars
                .iter()
                .filter(|v| (v.ty.is_int() || v.ty == Ty::Felt) && &v.ty != ty)
                .filter(|v| !matches!((&v.ty, ty), (Ty::U256, Ty::I(_)) | (Ty::I(_), Ty::U256)))
                .cloned()
                .collect();
            if !cands.is_empty() {
                let v = cands[self.ch.below(cands.len())].clone();
                let inner = Box::new(Expr::Var(v.name.clone()));
                return if Self::into_ok(&v.ty, ty) {
                    Expr::Into(v.ty.clone(), ty.clone(), inner)
                } else {
                    Expr::TryIntoUnwrap(v.ty.clone(), ty.clone(), inner)
                };
            }
        }
        if *ty == Ty::Bool && self.ch.chance(1, 2) {
            // A comparison of a numeric variable with a small literal.
            let cands: Vec<VarInfo> = env.vars.iter().filter(|v| v.ty.is_int()).cloned().collect();
            if !cands.is_empty() {
                let v = cands[self.ch.below(cands.len())].clone();
                let op = *self.ch.pick(&[CmpOp::Lt, CmpOp::Eq, CmpOp::Ge, CmpOp::Ne]);
                let l = Expr::Lit(v.ty.clone(), BigInt::from(self.ch.below(6)));
                return Expr::Cmp(op, v.ty.clone(), Box::new(Expr::Var(v.name)), Box::new(l));
            }
        }
        // Projections out of composite variables.
        if ty.is_scalar() && self.ch.chance(1, 3) {
            let mut cands: Vec<Expr> = vec![];
            for v in &env.vars {
                match &v.ty {
                    Ty::Tuple(ts) => {
                        for (i, t) in ts.iter().enumerate() {
                            if t == ty {
                                cands.push(Expr::TupleField(Box::new(Expr::Var(v.name.clone())), i, ts.len()));
                            }
                        }
                    }
                    Ty::Struct(s) => {
                        for (i, t) in self.prog.structs[*s].iter().enumerate() {
                            if t == ty {
                                cands.push(Expr::Field(Box::new(Expr::Var(v.name.clone())), *s, i));
                            }
                        }
                    }
                    _ => {}
                }
            }
            if *ty == Ty::U(32) {
                for (a, _) in &env.arrays {
                    cands.push(Expr::ArrLen(a.clone()));
                }
                for (a, _) in &env.spans {
                    cands.push(Expr::SpanLen(a.clone()));
                }
            }
            for (d, t) in &env.dicts {
                if t == ty {
                    cands.push(Expr::DictGet(d.clone(), Box::new(Expr::Lit(Ty::Felt, BigInt::from(self.ch.below(4))))));
                }
            }
            for (i, (t, _)) in self.prog.consts.iter().enumerate() {
                if t == ty {
                    cands.push(Expr::Var(format!("C{i}")));
                }
            }
            if !cands.is_empty() {
                let i = self.ch.below(cands.len());
                return cands.swap_remove(i);
            }
        }
        match ty {
            t if t.is_scalar() => Expr::Lit(ty.clone(), self.small_value(ty)),
            Ty::Tuple(ts) => Expr::Tuple(ts.iter().map(|t| self.leaf(env, t)).collect()),
            Ty::Struct(s) => {
                let fields = self.prog.structs[*s].clone();
                Expr::StructLit(*s, fields.iter().map(|t| self.leaf(env, t)).collect())
            }
            Ty::Enum(en) => {
                let vars = self.prog.enums[*en].clone();
                let v = self.ch.below(vars.len());
                let payload = vars[v].as_ref().map(|t| Box::new(self.leaf(env, t)));
                Expr::EnumLit(*en, v, payload)
            }
            Ty::Opt(inner) => {
                if self.ch.chance(1, 3) {
                    Expr::None_((**inner).clone())
                } else {
                    Expr::Some_(Box::new(self.leaf(env, inner)))
                }
            }
            _ => unreachable!(),
        }
    }

    /// Control-flow shaped expressions producing `ty`.
    fn control(&mut self, env: &Env, ty: &Ty, f: u32) -> Expr {
        let n_callable = self.callable(ty).len();
        let w_call = if n_callable > 0 { 4 } else { 0 };
        let w_arr = if env.arrays.iter().any(|(_, t)| t == ty) || env.spans.iter().any(|(_, t)| t == ty) { 3 } else { 0 };
        let w_loop = if self.in_loop { 0 } else { 2 };
        match self.ch.weighted(&[4, 2, 2, 2, w_call, 2, w_arr, w_loop, 2, 2]) {
            0 => {
                self.stats.ifs += 1;
                let c = self.expr(env, &Ty::Bool, f);
                Expr::If(Box::new(c), Box::new(self.block(env, ty, f)), Box::new(self.block(env, ty, f)))
            }
            1 if !self.prog.enums.is_empty() => {
                self.stats.matches += 1;
                let en = self.ch.below(self.prog.enums.len());
                let s = self.expr(env, &Ty::Enum(en), f);
                let vars = self.prog.enums[en].clone();
                let mut arms = vec![];
                for v in vars {
                    match v {
                        Some(t) => {
                            let n = self.fresh("p");
                            let mut e2 = env.clone();
                            e2.vars.push(VarInfo { name: n.clone(), ty: t, mutable: false });
                            arms.push((Some(n), self.block(&e2, ty, f)));
                        }
                        None => arms.push((None, self.block(env, ty, f))),
                    }
                }
                Expr::MatchEnum(en, Box::new(s), arms)
            }
            2 => {
                self.stats.matches += 1;
                let inner = self.any_ty(1);
                let s = self.expr(env, &Ty::Opt(Box::new(inner.clone())), f);
                let n = self.fresh("p");
                let mut e2 = env.clone();
                e2.vars.push(VarInfo { name: n.clone(), ty: inner, mutable: false });
                Expr::MatchOpt(Box::new(s), n, Box::new(self.block(&e2, ty, f)), Box::new(self.block(env, ty, f)))
            }
            3 => {
                // numeric match: 1..=11 literal arms + otherwise.
                self.stats.matches += 1;
                let t = self.ch.pick(&[Ty::Felt, Ty::U(8), Ty::U(32), Ty::U(64), Ty::U(16), Ty::U(128)]).clone();
                let n = 1 + self.ch.below(11);
                // Keep the scrutinee small often so that the arms are reached.
                let s = if t != Ty::Felt && self.ch.chance(2, 3) {
                    Expr::Bin(BinOp::Rem, t.clone(), Box::new(self.expr(env, &t, f)), Box::new(Expr::Lit(t.clone(), BigInt::from(n + 2))))
                } else {
                    self.expr(env, &t, f)
                };
                let arms = (0..n).map(|_| self.block(env, ty, f.min(2))).collect();
                Expr::MatchNum(t, Box::new(s), arms, Box::new(self.block(env, ty, f.min(2))))
            }
            4 if n_callable > 0 => self.call(env, ty, f),
            5 => Expr::Block(Box::new(self.block(env, ty, f))),
            6 => {
                let mut c: Vec<Expr> = vec![];
                for (a, t) in &env.arrays {
                    if t == ty {
                        c.push(Expr::ArrAt(a.clone(), Box::new(Expr::Lit(Ty::U(32), BigInt::zero()))));
                    }
                }
                for (a, t) in &env.spans {
                    if t == ty {
                        c.push(Expr::SpanAt(a.clone(), Box::new(Expr::Lit(Ty::U(32), BigInt::zero()))));
                    }
                }
                if c.is_empty() {
                    return self.leaf(env, ty);
                }
                let k = self.ch.below(c.len());
                let idx = self.expr(env, &Ty::U(32), f.min(1));
                match c.swap_remove(k) {
                    Expr::ArrAt(a, _) => Expr::ArrAt(a, Box::new(idx)),
                    Expr::SpanAt(a, _) => Expr::SpanAt(a, Box::new(idx)),
                    _ => unreachable!(),
                }
            }
            7 if !self.in_loop => {
                self.stats.loops += 1;
                self.loop_expr(env, ty, f)
            }
            8 => {
                let inner = Ty::Opt(Box::new(ty.clone()));
                if self.ch.bool() {
                    Expr::Unwrap(Box::new(self.expr(env, &inner, f)))
                } else {
                    Expr::UnwrapOr(Box::new(self.expr(env, &inner, f)), Box::new(self.expr(env, ty, f)))
                }
            }
            9 => {
                self.stats.matches += 1;
                let s = self.expr(env, &Ty::Bool, f);
                Expr::MatchBool(Box::new(s), Box::new(self.block(env, ty, f)), Box::new(self.block(env, ty, f)))
            }
            _ => self.leaf(env, ty),
        }
    }

    fn callable(&self, ty: &Ty) -> Vec<usize> {
        (0..self.cur_fn).filter(|i| &self.prog.funcs[*i].ret == ty).collect()
    }

    fn call(&mut self, env: &Env, ty: &Ty, f: u32) -> Expr {
        let c = self.callable(ty);
        let fi = c[self.ch.below(c.len())];
        self.stats.calls += 1;
        let params = self.prog.funcs[fi].params.clone();
        let recursive = self.prog.funcs[fi].recursive;
        let mut args = vec![];
        for (k, p) in params.iter().enumerate() {
            match p {
                Param::Val(_, t) => {
                    if recursive && k == 0 {
                        // fuel argument: small literal
                        args.push(Arg::Val(Expr::Lit(Ty::U(32), BigInt::from(self.ch.below(6)))));
                    } else {
                        args.push(Arg::Val(self.expr(env, t, f.min(2))));
                    }
                }
                Param::Ref(_, t) => {
                    let c: Vec<&VarInfo> = env.vars.iter().filter(|v| v.mutable && &v.ty == t && !env.frozen.contains(&v.name)).collect();
                    if c.is_empty() {
                        // Cannot satisfy: fall back to a non-call expression.
                        return self.leaf(env, ty);
                    }
                    // A variable may be passed by ref only once per call.
                    let used: Vec<String> = args.iter().filter_map(|a| if let Arg::Ref(n) = a { Some(n.clone()) } else { None }).collect();
                    let c: Vec<&&VarInfo> = c.iter().filter(|v| !used.contains(&v.name)).collect();
                    if c.is_empty() {
                        return self.leaf(env, ty);
                    }
                    args.push(Arg::Ref(c[self.ch.below(c.len())].name.clone()));
                }
                Param::Span(_, t) => {
                    let c: Vec<&(String, Ty)> = env.arrays.iter().filter(|(_, x)| x == t).collect();
                    if c.is_empty() {
                        return self.leaf(env, ty);
                    }
                    args.push(Arg::Span(c[self.ch.below(c.len())].0.clone()));
                }
            }
        }
        // `ref` arguments must not be read by value arguments evaluated in the same call in a
        // way that depends on order? They may: evaluation is left to right and refs are written
        // back after the call. Keep it simple: value arguments do not mention ref'ed variables.
        let refd: Vec<String> = args.iter().filter_map(|a| if let Arg::Ref(n) = a { Some(n.clone()) } else { None }).collect();
        if !refd.is_empty() {
            for (a, p) in args.iter_mut().zip(params.iter()) {
                if let (Arg::Val(e), Param::Val(_, t)) = (&*a, p) {
                    if mentions(e, &refd) {
                        *a = Arg::Val(self.leaf(&Env::default(), t));
                    }
                }
            }
        }
        Expr::Call(fi, args)
    }

    fn loop_expr(&mut self, env: &Env, ty: &Ty, f: u32) -> Expr {
        // { let mut acc = init; let mut i = 0; loop { if i >= L || cond { break acc-expr; } body; i += 1; } }
        let counter = self.fresh("i");
        let acc = self.fresh("a");
        let acc_ty = self.scalar_ty();
        let limit = 1 + self.ch.below(8) as u32;
        let mut e2 = env.clone();
        e2.vars.push(VarInfo { name: acc.clone(), ty: acc_ty.clone(), mutable: true });
        e2.vars.push(VarInfo { name: counter.clone(), ty: Ty::U(32), mutable: false });
        e2.frozen.push(counter.clone());
        let was = self.in_loop;
        self.in_loop = true;
        let init = self.expr(env, &acc_ty, f.min(2));
        let cond = self.expr(&e2, &Ty::Bool, f.min(2));
        let body = self.stmts_r(&mut e2.clone(), 1, 3, f.min(2));
        let result = self.expr(&e2, ty, f.min(2));
        self.in_loop = was;
        let l = LoopE { counter, limit, cond, body, result, ty: ty.clone() };
        Expr::Block(Box::new(Block {
            stmts: vec![Stmt::Let(acc, true, acc_ty, init)],
            tail: Expr::Loop(Box::new(l)),
        }))
    }

    fn block(&mut self, env: &Env, ty: &Ty, f: u32) -> Block {
        let mut e2 = env.clone();
        let n = self.ch.below(3);
        let stmts = self.stmts(&mut e2, n, f);
        let tail = self.expr(&e2, ty, f);
        Block { stmts, tail }
    }

    fn stmts_r(&mut self, env: &mut Env, base: usize, extra: usize, f: u32) -> Vec<Stmt> {
        let n = base + self.ch.below(extra);
        self.stmts(env, n, f)
    }

    fn stmts(&mut self, env: &mut Env, n: usize, f: u32) -> Vec<Stmt> {
        let mut out = vec![];
        for _ in 0..n {
            if let Some(s) = self.stmt(env, f) {
                out.push(s);
            }
        }
        out
    }

    fn stmt(&mut self, env: &mut Env, f: u32) -> Option<Stmt> {
        let muts: Vec<VarInfo> = env.vars.iter().filter(|v| v.mutable && !env.frozen.contains(&v.name)).cloned().collect();
        let w_mut = if muts.is_empty() { 0 } else { 4 };
        let w_arr = if env.arrays.is_empty() { 0 } else { 3 };
        let w_dict = if env.dicts.is_empty() { 0 } else { 3 };
        let w_loop = if self.in_loop || f == 0 { 0 } else { 2 };
        let w_ret = if self.in_loop { 0 } else { 1 };
        match self.ch.weighted(&[6, w_mut, w_mut, 2, w_loop, 1, 2, w_arr, 1, w_dict, w_ret, w_loop, 1]) {
            0 => {
                let t = self.any_ty(2);
                let m = self.ch.chance(1, 2);
                let e = self.expr(env, &t, f);
                let n = self.fresh("v");
                env.vars.push(VarInfo { name: n.clone(), ty: t.clone(), mutable: m });
                Some(Stmt::Let(n, m, t, e))
            }
            1 => {
                let v = muts[self.ch.below(muts.len())].clone();
                Some(Stmt::Assign(v.name, self.expr(env, &v.ty, f)))
            }
            2 => {
                let ints: Vec<&VarInfo> = muts.iter().filter(|v| v.ty.is_int() || v.ty == Ty::Felt).collect();
                if ints.is_empty() {
                    return None;
                }
                let v = ints[self.ch.below(ints.len())].clone();
                let ops: &[BinOp] = if v.ty == Ty::Felt {
                    &[BinOp::Add, BinOp::Sub, BinOp::Mul]
                } else {
                    &[BinOp::Add, BinOp::Sub, BinOp::Mul, BinOp::Div, BinOp::Rem]
                };
                let op = *self.ch.pick(ops);
                self.stats.arith += 1;
                let rhs = if self.ch.bool() { Expr::Lit(v.ty.clone(), self.small_value(&v.ty)) } else { self.expr(env, &v.ty, f.min(2)) };
                Some(Stmt::OpAssign(v.name.clone(), op, v.ty.clone(), rhs))
            }
            3 => {
                self.stats.ifs += 1;
                let c = self.expr(env, &Ty::Bool, f);
                let mut e1 = env.clone();
                let t = self.stmts_r(&mut e1, 1, 2, f.saturating_sub(1));
                let mut e2 = env.clone();
                let el = if self.ch.bool() { self.stmts_r(&mut e2, 1, 2, f.saturating_sub(1)) } else { vec![] };
                Some(Stmt::IfS(c, t, el))
            }
            4 => {
                self.stats.loops += 1;
                let cn = self.fresh("w");
                let lim = 1 + self.ch.below(6) as u32;
                let mut e2 = env.clone();
                e2.vars.push(VarInfo { name: cn.clone(), ty: Ty::U(32), mutable: false });
                e2.frozen.push(cn.clone());
                let was = self.in_loop;
                self.in_loop = true;
                let c = self.expr(&e2, &Ty::Bool, f.min(2));
                let body = self.stmts_r(&mut e2, 1, 3, f.saturating_sub(1).min(2));
                self.in_loop = was;
                Some(Stmt::While(cn, lim, c, body))
            }
            5 => {
                let c = self.expr(env, &Ty::Bool, f.min(2));
                Some(Stmt::Assert(c, 1000 + self.ch.below(50) as u64))
            }
            6 => {
                // new array
                self.stats.arrays += 1;
                let t = if self.ch.chance(1, 4) && !self.prog.structs.is_empty() {
                    Ty::Struct(self.ch.below(self.prog.structs.len()))
                } else {
                    self.scalar_ty()
                };
                let n = self.ch.below(4);
                let es = (0..n).map(|_| self.expr(env, &t, f.min(2))).collect();
                let name = self.fresh("arr");
                env.arrays.push((name.clone(), t.clone()));
                Some(Stmt::ArrNew(name, t, es))
            }
            7 => {
                let (a, t) = env.arrays[self.ch.below(env.arrays.len())].clone();
                if self.ch.chance(1, 5) {
                    let n = self.fresh("v");
                    env.vars.push(VarInfo { name: n.clone(), ty: Ty::Opt(Box::new(t.clone())), mutable: false });
                    Some(Stmt::ArrPop(n, a, t))
                } else {
                    Some(Stmt::ArrAppend(a, self.expr(env, &t, f.min(2))))
                }
            }
            8 => {
                self.stats.dicts += 1;
                let t = self.ch.pick(&[Ty::U(64), Ty::Felt, Ty::U(8), Ty::U(128), Ty::U(32)]).clone();
                let name = self.fresh("d");
                env.dicts.push((name.clone(), t.clone()));
                Some(Stmt::DictNew(name, t))
            }
            9 => {
                let (d, t) = env.dicts[self.ch.below(env.dicts.len())].clone();
                // Small keys, keys beyond 2^128 (the squash code has a separate path when small and
                // big keys meet in one dictionary), or any felt252 expression.
                let k = match self.ch.below(6) {
                    0 | 1 | 2 => Expr::Lit(Ty::Felt, BigInt::from(self.ch.below(4))),
                    3 => Expr::Lit(Ty::Felt, [BigInt::one() << 128u32, (BigInt::one() << 200u32) + BigInt::one(), prime() - BigInt::one()][self.ch.below(3)].clone()),
                    _ => self.expr(env, &Ty::Felt, f.min(1)),
                };
                Some(Stmt::DictInsert(d, k, self.expr(env, &t, f.min(2))))
            }
            10 => {
                self.stats.early_return += 1;
                let c = self.expr(env, &Ty::Bool, f.min(2));
                let ret = self.cur_ret.clone();
                Some(Stmt::ReturnIf(c, self.expr(env, &ret, f.min(2))))
            }
            11 => {
                // for loops
                self.stats.loops += 1;
                let was = self.in_loop;
                self.in_loop = true;
                let r = if !env.arrays.is_empty() && self.ch.bool() {
                    // for x in arr.span()  (printed through a local span)
                    let (a, t) = env.arrays[self.ch.below(env.arrays.len())].clone();
                    let v = self.fresh("x");
                    let mut e2 = env.clone();
                    e2.vars.push(VarInfo { name: v.clone(), ty: t, mutable: false });
                    // The array is borrowed by the iteration: no appends inside.
                    e2.arrays.retain(|(n, _)| n != &a);
                    let body = self.stmts_r(&mut e2, 1, 2, f.saturating_sub(1).min(2));
                    Stmt::ForSpan(v, a, true, body)
                } else {
                    let t = self.ch.pick(&[Ty::U(32), Ty::U(8), Ty::U(64)]).clone();
                    let v = self.fresh("k");
                    let lo = BigInt::from(self.ch.below(4));
                    let hi = &lo + BigInt::from(self.ch.below(7));
                    let mut e2 = env.clone();
                    e2.vars.push(VarInfo { name: v.clone(), ty: t.clone(), mutable: false });
                    let body = self.stmts_r(&mut e2, 1, 2, f.saturating_sub(1).min(2));
                    Stmt::ForRange(v, t.clone(), Expr::Lit(t.clone(), lo), Expr::Lit(t, hi), body)
                };
                self.in_loop = was;
                Some(r)
            }
            _ => {
                let t = self.any_ty(1);
                Some(Stmt::Expr(self.expr(env, &t, f)))
            }
        }
    }

    /// A small wrapper around function `idx`: it takes two scalars and calls `idx` with an
    /// aggregate argument that is constant except for those two members (and constants for the
    /// other parameters). Called from the entry function with literals, this is the shape that
    /// function specialisation (partially constant aggregate, then fully constant after inlining
    /// the wrapper) works on.
    fn maybe_wrapper(&mut self, idx: usize) -> Option<Func> {
        let forced = std::mem::take(&mut self.force_wrapper);
        if !forced && !self.ch.chance(1, 3) {
            return None;
        }
        let f = self.prog.funcs[idx].clone();
        if f.recursive || !f.params.iter().all(|p| matches!(p, Param::Val(..))) {
            return None;
        }
        let members = |t: &Ty, prog: &Program| -> Option<Vec<Ty>> {
            match t {
                Ty::Tuple(ts) if ts.len() >= 2 && ts.iter().all(|x| x.is_scalar()) => Some(ts.clone()),
                Ty::Struct(s) if prog.structs[*s].len() >= 2 && prog.structs[*s].iter().all(|x| x.is_scalar()) => Some(prog.structs[*s].clone()),
                _ => None,
            }
        };
        let (j, ms) = f.params.iter().enumerate().find_map(|(j, p)| match p {
            Param::Val(_, t) => members(t, &self.prog).map(|m| (j, m)),
            _ => None,
        })?;
        // Two member positions, of the same type when there are such.
        let mut pair = if forced { (1usize, 2usize) } else { (0usize, 1usize) };
        'o: for a in 0..(if forced { 0 } else { ms.len() }) {
            for b in a + 1..ms.len() {
                if ms[a] == ms[b] {
                    pair = (a, b);
                    break 'o;
                }
            }
        }
        let (na, nb) = (self.fresh("x"), self.fresh("x"));
        let empty = Env::default();
        let mut args = vec![];
        for (k, p) in f.params.iter().enumerate() {
            let Param::Val(_, t) = p else { return None };
            if k == j {
                let parts: Vec<Expr> = ms
                    .iter()
                    .enumerate()
                    .map(|(m, mt)| {
                        if m == pair.0 {
                            Expr::Var(na.clone())
                        } else if m == pair.1 {
                            Expr::Var(nb.clone())
                        } else if forced {
                            // The selector of a dispatcher.
                            Expr::Lit(mt.clone(), BigInt::from(self.ch.below(3)))
                        } else {
                            Expr::Lit(mt.clone(), self.small_value(mt))
                        }
                    })
                    .collect();
                args.push(Arg::Val(match t {
                    Ty::Struct(s) => Expr::StructLit(*s, parts),
                    _ => Expr::Tuple(parts),
                }));
            } else {
                args.push(Arg::Val(self.expr(&empty, t, 0)));
            }
        }
        let widx = self.prog.funcs.len();
        self.wrappers.push((widx, vec![ms[pair.0].clone(), ms[pair.1].clone()], f.ret.clone()));
        self.stats.wrappers += 1;
        Some(Func {
            params: vec![Param::Val(na, ms[pair.0].clone()), Param::Val(nb, ms[pair.1].clone())],
            ret: f.ret.clone(),
            body: Block { stmts: vec![], tail: Expr::Call(idx, args) },
            inline: 0,
            recursive: false,
        })
    }

    fn func(&mut self, idx: usize, is_entry: bool) -> Func {
        self.cur_fn = idx;
        let mut env = Env::default();
        let mut params = vec![];
        let n_params = 1 + self.ch.below(3);
        let recursive = !is_entry && idx > 0 && self.ch.chance(1, 5);
        if recursive {
            self.stats.recursion += 1;
            let n = self.fresh("n");
            env.vars.push(VarInfo { name: n.clone(), ty: Ty::U(32), mutable: false });
            params.push(Param::Val(n, Ty::U(32)));
        }
        for _ in 0..n_params {
            let kind = if is_entry { 0 } else { self.ch.weighted(&[6, 2, 2]) };
            match kind {
                0 => {
                    let t = if is_entry { self.scalar_ty() } else { self.any_ty(2) };
                    let n = self.fresh("x");
                    env.vars.push(VarInfo { name: n.clone(), ty: t.clone(), mutable: false });
                    params.push(Param::Val(n, t));
                }
                1 => {
                    self.stats.ref_params += 1;
                    let t = self.scalar_ty();
                    let n = self.fresh("r");
                    env.vars.push(VarInfo { name: n.clone(), ty: t.clone(), mutable: true });
                    params.push(Param::Ref(n, t));
                }
                _ => {
                    let t = self.scalar_ty();
                    let n = self.fresh("s");
                    env.spans.push((n.clone(), t.clone()));
                    params.push(Param::Span(n, t));
                }
            }
        }
        // Dispatcher functions: a tuple parameter whose first member selects one of three sizeable
        // branches that use the other two members - what function specialisation is made for. A
        // wrapper (see `maybe_wrapper`) always follows.
        if !is_entry && !recursive && self.ch.chance(1, 6) {
            let t = INT_TYS[self.ch.below(INT_TYS.len())].clone();
            let cfg_ty = Ty::Tuple(vec![Ty::U(8), t.clone(), t.clone()]);
            let (cfg, x) = (self.fresh("x"), self.fresh("x"));
            let mut env = Env::default();
            env.vars.push(VarInfo { name: cfg.clone(), ty: cfg_ty.clone(), mutable: false });
            env.vars.push(VarInfo { name: x.clone(), ty: t.clone(), mutable: false });
            let ret = self.scalar_ty();
            self.cur_ret = ret.clone();
            let sel = |k: u32| {
                Expr::Cmp(CmpOp::Eq, Ty::U(8), Box::new(Expr::TupleField(Box::new(Expr::Var(cfg.clone())), 0, 3)), Box::new(Expr::Lit(Ty::U(8), BigInt::from(k))))
            };
            let b1 = self.block(&env, &ret, 3);
            let b2 = self.block(&env, &ret, 3);
            let b3 = self.block(&env, &ret, 3);
            let inner = Expr::If(Box::new(sel(0)), Box::new(b2), Box::new(b3));
            let tail = Expr::If(Box::new(sel(1)), Box::new(b1), Box::new(Block { stmts: vec![], tail: inner }));
            self.force_wrapper = true;
            self.stats.dispatchers += 1;
            return Func { params: vec![Param::Val(cfg, cfg_ty), Param::Val(x, t)], ret, body: Block { stmts: vec![], tail }, inline: 0, recursive: false };
        }
        // Shuffle functions: the body only rebuilds the (single, composite) parameter from its own
        // members, permuted or duplicated - the shape return / struct optimisations look for.
        if !is_entry && !recursive && self.ch.chance(1, 6) {
            let t = self.scalar_ty();
            let x = self.fresh("x");
            let same: Vec<usize> = (0..self.prog.structs.len())
                .filter(|s| {
                    let f = &self.prog.structs[*s];
                    f.len() >= 2 && f.iter().all(|u| *u == f[0])
                })
                .collect();
            // Remap functions: a match that rebuilds each variant of an enum as another variant
            // with the same payload type, passing the payload through.
            let remappable: Vec<usize> = (0..self.prog.enums.len())
                .filter(|e| {
                    let vs = &self.prog.enums[*e];
                    (0..vs.len()).any(|i| (0..vs.len()).any(|j| i != j && vs[i] == vs[j]))
                })
                .collect();
            if !remappable.is_empty() && self.ch.chance(2, 3) {
                let en = remappable[self.ch.below(remappable.len())];
                let vs = self.prog.enums[en].clone();
                let mut arms = vec![];
                for (i, v) in vs.iter().enumerate() {
                    let class: Vec<usize> = (0..vs.len()).filter(|j| vs[*j] == *v).collect();
                    let pos = class.iter().position(|j| *j == i).unwrap();
                    let target = if self.ch.chance(3, 4) { class[(pos + 1) % class.len()] } else { i };
                    match v {
                        Some(_) => {
                            let n = self.fresh("p");
                            arms.push((Some(n.clone()), Block { stmts: vec![], tail: Expr::EnumLit(en, target, Some(Box::new(Expr::Var(n)))) }));
                        }
                        None => arms.push((None, Block { stmts: vec![], tail: Expr::EnumLit(en, target, None) })),
                    }
                }
                self.stats.shuffle_functions += 1;
                let pty = Ty::Enum(en);
                self.shuffles.push((idx, pty.clone(), false));
                let tail = Expr::MatchEnum(en, Box::new(Expr::Var(x.clone())), arms);
                return Func { params: vec![Param::Val(x, pty.clone())], ret: pty, body: Block { stmts: vec![], tail }, inline: self.ch.below(3) as u8, recursive: false };
            }
            let (pty, tail) = if !same.is_empty() && self.ch.bool() {
                let sid = same[self.ch.below(same.len())];
                let n = self.prog.structs[sid].len();
                let picks: Vec<usize> = (0..n).map(|i| if self.ch.chance(1, 4) { self.ch.below(n) } else { (i + 1) % n }).collect();
                let fields = picks.iter().map(|k| Expr::Field(Box::new(Expr::Var(x.clone())), sid, *k)).collect();
                (Ty::Struct(sid), Expr::StructLit(sid, fields))
            } else {
                let n = 2 + self.ch.below(2);
                let picks: Vec<usize> = (0..n).map(|i| if self.ch.chance(1, 4) { self.ch.below(n) } else { (i + 1) % n }).collect();
                (Ty::Tuple(vec![t.clone(); n]), Expr::Permute(Box::new(Expr::Var(x.clone())), n, picks))
            };
            self.stats.shuffle_functions += 1;
            let tail = if self.ch.chance(1, 3) { Expr::Some_(Box::new(tail)) } else { tail };
            let ret = if matches!(tail, Expr::Some_(_)) { Ty::Opt(Box::new(pty.clone())) } else { pty.clone() };
            self.shuffles.push((idx, pty.clone(), matches!(ret, Ty::Opt(_))));
            return Func { params: vec![Param::Val(x, pty)], ret, body: Block { stmts: vec![], tail }, inline: self.ch.below(3) as u8, recursive: false };
        }
        let ret = if is_entry { self.any_ty(2) } else if self.ch.chance(1, 3) { self.any_ty(2) } else { self.scalar_ty() };
        // The entry returns (value, digest); early returns inside it must produce that type.
        self.cur_ret = if is_entry { Ty::Tuple(vec![ret.clone(), Ty::Felt]) } else { ret.clone() };
        let fuel = 2 + self.ch.below(3) as u32;
        let body = if recursive {
            // if n == 0 { base } else { combine(f(n - 1, args...), step) }
            let nname = match &params[0] {
                Param::Val(n, _) => n.clone(),
                _ => unreachable!(),
            };
            let base = self.block(&env, &ret, fuel.min(2));
            // Recursive call with the same ref/span params, and fresh value args.
            let mut args = vec![Arg::Val(Expr::Bin(
                BinOp::Sub,
                Ty::U(32),
                Box::new(Expr::Var(nname.clone())),
                Box::new(Expr::Lit(Ty::U(32), BigInt::one())),
            ))];
            for p in params.iter().skip(1) {
                match p {
                    Param::Val(_, t) => args.push(Arg::Val(self.expr(&env, t, 1))),
                    Param::Ref(n, _) => args.push(Arg::Ref(n.clone())),
                    Param::Span(n, _) => args.push(Arg::SpanPass(n.clone())),
                }
            }
            let rec_name = self.fresh("q");
            let mut e2 = env.clone();
            e2.vars.push(VarInfo { name: rec_name.clone(), ty: ret.clone(), mutable: false });
            let mut after = self.block(&e2, &ret, fuel.min(2));
            after.stmts.insert(0, Stmt::Let(rec_name, false, ret.clone(), Expr::Call(idx, args)));
            Block {
                stmts: vec![],
                tail: Expr::If(
                    Box::new(Expr::Cmp(CmpOp::Eq, Ty::U(32), Box::new(Expr::Var(nname)), Box::new(Expr::Lit(Ty::U(32), BigInt::zero())))),
                    Box::new(base),
                    Box::new(after),
                ),
            }
        } else {
            let mut e2 = env.clone();
            let n = 1 + self.ch.below(5);
            let stmts = self.stmts(&mut e2, n, fuel);
            let tail = self.expr(&e2, &ret, fuel);
            let mut stmts = stmts;
            if is_entry {
                // Identity / neighbour probes: for a few integer variables, guarded so that they
                // cannot overflow, `v - 1`, `v + 1`, `v * 1`, `v + 0`, `v / 1`, `v - 0`, `v * 2 / 2`
                // (the operand shapes that optimisations special-case) flow into the digest.
                let ints: Vec<VarInfo> = e2.vars.iter().filter(|v| matches!(v.ty, Ty::U(_) | Ty::I(_))).cloned().collect();
                let n_probe = ints.len().min(3);
                for k in 0..n_probe {
                    let v = ints[(self.ch.below(ints.len()) + k) % ints.len()].clone();
                    let t = v.ty.clone();
                    let var = || Box::new(Expr::Var(v.name.clone()));
                    let l = |x: i64| Box::new(Expr::Lit(t.clone(), BigInt::from(x)));
                    let lo = Expr::Lit(t.clone(), t.min() + 2);
                    let hi = Expr::Lit(t.clone(), t.max() / 2 - 2);
                    let cond = Expr::AndAnd(
                        Box::new(Expr::Cmp(CmpOp::Gt, t.clone(), var(), Box::new(lo))),
                        Box::new(Expr::Cmp(CmpOp::Lt, t.clone(), var(), Box::new(hi))),
                    );
                    let probes = vec![
                        Expr::Bin(BinOp::Sub, t.clone(), var(), l(1)),
                        Expr::Bin(BinOp::Add, t.clone(), var(), l(1)),
                        Expr::Bin(BinOp::Mul, t.clone(), var(), l(1)),
                        Expr::Bin(BinOp::Add, t.clone(), var(), l(0)),
                        Expr::Bin(BinOp::Div, t.clone(), var(), l(1)),
                        Expr::Bin(BinOp::Sub, t.clone(), var(), l(0)),
                        Expr::Bin(BinOp::Add, t.clone(), l(1), var()),
                        Expr::Bin(BinOp::Div, t.clone(), Box::new(Expr::Bin(BinOp::Mul, t.clone(), var(), l(2))), l(2)),
                        Expr::Bin(BinOp::Rem, t.clone(), var(), l(2)),
                        Expr::Bin(BinOp::Mul, t.clone(), var(), l(0)),
                    ];
                    let mut sum = Expr::Lit(Ty::Felt, BigInt::zero());
                    for (i, pe) in probes.into_iter().enumerate() {
                        let term = Expr::Bin(
                            BinOp::Mul,
                            Ty::Felt,
                            Box::new(Expr::Into(t.clone(), Ty::Felt, Box::new(pe))),
                            Box::new(Expr::Lit(Ty::Felt, BigInt::from(2 * i + 3))),
                        );
                        sum = Expr::Bin(BinOp::Add, Ty::Felt, Box::new(sum), Box::new(term));
                    }
                    let name = self.fresh("pr");
                    stmts.push(Stmt::Let(
                        name.clone(),
                        false,
                        Ty::Felt,
                        Expr::If(
                            Box::new(cond),
                            Box::new(Block { stmts: vec![], tail: sum }),
                            Box::new(Block { stmts: vec![], tail: Expr::Lit(Ty::Felt, BigInt::zero()) }),
                        ),
                    ));
                    e2.vars.push(VarInfo { name, ty: Ty::Felt, mutable: false });
                }
                // Every shuffle function is called once and each member of its result becomes a
                // scalar variable (so the digest below, whose weights differ per variable, sees
                // the order of the members).
                for (fidx, pty, opt) in self.shuffles.clone() {
                    let arg = self.expr(&e2, &pty, 2);
                    let call = Expr::Call(fidx, vec![Arg::Val(arg)]);
                    let call = if opt { Expr::Unwrap(Box::new(call)) } else { call };
                    let name = self.fresh("sh");
                    stmts.push(Stmt::Let(name.clone(), false, pty.clone(), call));
                    let members: Vec<(Ty, Expr)> = match &pty {
                        Ty::Tuple(ts) => ts.iter().enumerate().map(|(i, t)| (t.clone(), Expr::TupleField(Box::new(Expr::Var(name.clone())), i, ts.len()))).collect(),
                        Ty::Struct(sid) => self.prog.structs[*sid].iter().enumerate().map(|(i, t)| (t.clone(), Expr::Field(Box::new(Expr::Var(name.clone())), *sid, i))).collect(),
                        _ => vec![],
                    };
                    if let Ty::Enum(en) = &pty {
                        // The variant (and a scalar payload) of a remapped enum becomes a scalar.
                        let vs = self.prog.enums[*en].clone();
                        let mut arms = vec![];
                        for (i, v) in vs.iter().enumerate() {
                            let tag = Expr::Lit(Ty::Felt, BigInt::from(i + 1));
                            match v {
                                Some(t) => {
                                    let n = self.fresh("p");
                                    let tail = match t {
                                        Ty::Felt => Expr::Bin(BinOp::Add, Ty::Felt, Box::new(tag), Box::new(Expr::Bin(BinOp::Mul, Ty::Felt, Box::new(Expr::Var(n.clone())), Box::new(Expr::Lit(Ty::Felt, BigInt::from(16)))))),
                                        Ty::Bool | Ty::U(_) | Ty::I(_) => Expr::Bin(
                                            BinOp::Add,
                                            Ty::Felt,
                                            Box::new(tag),
                                            Box::new(Expr::Bin(BinOp::Mul, Ty::Felt, Box::new(Expr::Into(t.clone(), Ty::Felt, Box::new(Expr::Var(n.clone())))), Box::new(Expr::Lit(Ty::Felt, BigInt::from(16))))),
                                        ),
                                        _ => tag,
                                    };
                                    arms.push((Some(n), Block { stmts: vec![], tail }));
                                }
                                None => arms.push((None, Block { stmts: vec![], tail: tag })),
                            }
                        }
                        let m = self.fresh("shm");
                        stmts.push(Stmt::Let(m.clone(), false, Ty::Felt, Expr::MatchEnum(*en, Box::new(Expr::Var(name.clone())), arms)));
                        e2.vars.push(VarInfo { name: m, ty: Ty::Felt, mutable: false });
                    }
                    for (t, e) in members {
                        if t.is_scalar() {
                            let m = self.fresh("shm");
                            stmts.push(Stmt::Let(m.clone(), false, t.clone(), e));
                            e2.vars.push(VarInfo { name: m, ty: t, mutable: false });
                        }
                    }
                }
                // Every wrapper is called once with two distinct literals.
                for (widx, tys, ret) in self.wrappers.clone() {
                    let v0 = self.small_value(&tys[0]);
                    let mut v1 = self.small_value(&tys[1]);
                    if tys[0] == tys[1] && v0 == v1 {
                        v1 = if tys[1] == Ty::Bool { BigInt::one() - v1 } else { v1 + 1 };
                    }
                    let call = Expr::Call(widx, vec![Arg::Val(Expr::Lit(tys[0].clone(), v0)), Arg::Val(Expr::Lit(tys[1].clone(), v1))]);
                    let name = self.fresh("wr");
                    stmts.push(Stmt::Let(name.clone(), false, ret.clone(), call));
                    if ret.is_scalar() {
                        e2.vars.push(VarInfo { name, ty: ret, mutable: false });
                    }
                }
                // Observability: the entry also returns a felt252 digest of every scalar variable
                // in scope, so that intermediate computations reach the result.
                let mut digest = Expr::Lit(Ty::Felt, BigInt::zero());
                let mut k = 1u32;
                for v in &e2.vars {
                    let term = match &v.ty {
                        Ty::Felt => Expr::Var(v.name.clone()),
                        Ty::Bool | Ty::U(_) | Ty::I(_) => Expr::Into(v.ty.clone(), Ty::Felt, Box::new(Expr::Var(v.name.clone()))),
                        _ => continue,
                    };
                    k += 1;
                    let weighted = Expr::Bin(BinOp::Mul, Ty::Felt, Box::new(term), Box::new(Expr::Lit(Ty::Felt, BigInt::from(k))));
                    digest = Expr::Bin(BinOp::Add, Ty::Felt, Box::new(digest), Box::new(weighted));
                }
                for (a, _) in &e2.arrays {
                    let term = Expr::Into(Ty::U(32), Ty::Felt, Box::new(Expr::ArrLen(a.clone())));
                    digest = Expr::Bin(BinOp::Add, Ty::Felt, Box::new(digest), Box::new(term));
                }
                let full_ret = Ty::Tuple(vec![ret.clone(), Ty::Felt]);
                let r = Func {
                    params,
                    ret: full_ret,
                    body: Block { stmts, tail: Expr::Tuple(vec![tail, digest]) },
                    inline: 0,
                    recursive: false,
                };
                return r;
            }
            Block { stmts, tail }
        };
        let inline = if recursive { 0 } else { self.ch.weighted(&[4, 1, 1]) as u8 };
        Func { params, ret, body, inline, recursive }
    }
}

fn mentions(e: &Expr, names: &[String]) -> bool {
    let s = format!("{e:?}");
    names.iter().any(|n| s.contains(&format!("\"{n}\"")))
}

fn expr_ty_hint(e: &Expr) -> Ty {
    // Only used to replace a scalar-typed value argument by a literal of the same type.
    match e {
        Expr::Lit(t, _) => t.clone(),
        Expr::Bin(_, t, _, _) | Expr::Neg(t, _) | Expr::BitNot(t, _) => t.clone(),
        Expr::Into(_, t, _) | Expr::TryIntoUnwrap(_, t, _) => t.clone(),
        Expr::Cmp(..) | Expr::AndAnd(..) | Expr::OrOr(..) | Expr::Not(..) | Expr::IsSome(..) => Ty::Bool,
        _ => Ty::Bool,
    }
}

// ---- analysis: lazily read operands ----------------------------------------------------------------

fn writes_block(b: &Block, out: &mut std::collections::BTreeSet<String>) {
    for s in &b.stmts {
        writes_stmt(s, out);
    }
    writes_expr(&b.tail, out);
}
fn writes_stmts(ss: &[Stmt], out: &mut std::collections::BTreeSet<String>) {
    for s in ss {
        writes_stmt(s, out);
    }
}
fn writes_stmt(s: &Stmt, out: &mut std::collections::BTreeSet<String>) {
    match s {
        Stmt::Let(_, _, _, e) | Stmt::Expr(e) | Stmt::Assert(e, _) => writes_expr(e, out),
        Stmt::Assign(n, e) | Stmt::OpAssign(n, _, _, e) => {
            out.insert(n.clone());
            writes_expr(e, out);
        }
        Stmt::IfS(c, a, b) => {
            writes_expr(c, out);
            writes_stmts(a, out);
            writes_stmts(b, out);
        }
        Stmt::While(_, _, c, b) => {
            writes_expr(c, out);
            writes_stmts(b, out);
        }
        Stmt::ForRange(_, _, a, b, body) => {
            writes_expr(a, out);
            writes_expr(b, out);
            writes_stmts(body, out);
        }
        Stmt::ForSpan(_, _, _, body) => writes_stmts(body, out),
        Stmt::ArrNew(_, _, es) => es.iter().for_each(|e| writes_expr(e, out)),
        Stmt::ArrAppend(n, e) => {
            out.insert(n.clone());
            writes_expr(e, out);
        }
        Stmt::ArrPop(_, n, _) => {
            out.insert(n.clone());
        }
        Stmt::DictNew(..) => {}
        Stmt::DictInsert(n, a, b) => {
            out.insert(n.clone());
            writes_expr(a, out);
            writes_expr(b, out);
        }
        Stmt::ReturnIf(a, b) => {
            writes_expr(a, out);
            writes_expr(b, out);
        }
    }
}
/// Variables assigned (or passed by `ref`, or mutated as array / dict) anywhere inside `e`.
fn writes_expr(e: &Expr, out: &mut std::collections::BTreeSet<String>) {
    for c in children(e) {
        writes_expr(c, out);
    }
    match e {
        Expr::If(_, a, b) | Expr::MatchBool(_, a, b) | Expr::MatchOpt(_, _, a, b) => {
            writes_block(a, out);
            writes_block(b, out);
        }
        Expr::MatchEnum(_, _, arms) => arms.iter().for_each(|(_, b)| writes_block(b, out)),
        Expr::MatchNum(_, _, arms, d) => {
            arms.iter().for_each(|b| writes_block(b, out));
            writes_block(d, out);
        }
        Expr::Block(b) => writes_block(b, out),
        Expr::Loop(l) => {
            writes_expr(&l.cond, out);
            writes_stmts(&l.body, out);
            writes_expr(&l.result, out);
        }
        Expr::Call(_, args) => {
            for a in args {
                if let Arg::Ref(n) = a {
                    out.insert(n.clone());
                }
            }
        }
        Expr::DictGet(n, _) => {
            out.insert(n.clone());
        }
        _ => {}
    }
}
/// The order in which the members of a literal of struct type `S<s>` with `n` members are written
/// in the source - the order in which they are evaluated: rotated by one, declaration order, or
/// reversed, by struct index. The printer, the reference evaluator and the operand-order analysis
/// all use this one function.
pub fn struct_lit_order(s: usize, n: usize) -> Vec<usize> {
    match (n >= 2, s % 3) {
        (true, 0) => (0..n).map(|k| (k + 1) % n).collect(),
        (true, 2) => (0..n).rev().collect(),
        _ => (0..n).collect(),
    }
}
/// The ordered operand expressions of `e` (blocks are handled by the callers).
fn children(e: &Expr) -> Vec<&Expr> {
    match e {
        Expr::StructLit(s, es) => struct_lit_order(*s, es.len()).into_iter().map(|i| &es[i]).collect(),
        Expr::Bin(_, _, a, b) | Expr::Cmp(_, _, a, b) | Expr::AndAnd(a, b) | Expr::OrOr(a, b) | Expr::UnwrapOr(a, b) => vec![a, b],
        Expr::Neg(_, a) | Expr::BitNot(_, a) | Expr::Not(a) | Expr::Into(_, _, a) | Expr::TryIntoUnwrap(_, _, a) | Expr::TryInto(_, _, a) | Expr::TupleField(a, _, _)
        | Expr::Permute(a, _, _) | Expr::Field(a, _, _) | Expr::Some_(a) | Expr::Unwrap(a) | Expr::IsSome(a) | Expr::ArrAt(_, a) | Expr::ArrGet(_, a) | Expr::DictGet(_, a)
        | Expr::SpanAt(_, a) => vec![a],
        Expr::Tuple(es) => es.iter().collect(),
        Expr::EnumLit(_, _, Some(p)) => vec![p],
        Expr::If(c, _, _) | Expr::MatchBool(c, _, _) | Expr::MatchOpt(c, _, _, _) | Expr::MatchEnum(_, c, _) | Expr::MatchNum(_, c, _, _) => vec![c],
        Expr::Call(_, args) => args.iter().filter_map(|a| if let Arg::Val(e) = a { Some(e) } else { None }).collect(),
        _ => vec![],
    }
}
/// Variable a *place* operand refers to (a bare variable or a member path of one): these are
/// materialised by the compiler only when the enclosing value is built.
fn place_var(e: &Expr) -> Option<&str> {
    match e {
        Expr::Var(n) => Some(n),
        Expr::Field(a, _, _) => place_var(a),
        _ => None,
    }
}
fn hazard_expr(e: &Expr) -> bool {
    let cs = children(e);
    // Operands that are places, followed by a sibling that assigns the same variable.
    let multi = matches!(e, Expr::Bin(..) | Expr::Cmp(..) | Expr::Tuple(..) | Expr::StructLit(..) | Expr::Call(..) | Expr::UnwrapOr(..));
    if multi {
        for i in 0..cs.len() {
            // Nested aggregates of places are built lazily as well.
            let mut places = vec![];
            fn collect<'a>(e: &'a Expr, out: &mut Vec<&'a str>) {
                if let Some(v) = place_var(e) {
                    out.push(v);
                } else if let Expr::Tuple(es) | Expr::StructLit(_, es) = e {
                    es.iter().for_each(|x| collect(x, out));
                }
            }
            collect(cs[i], &mut places);
            if places.is_empty() {
                continue;
            }
            let mut w = Default::default();
            for later in &cs[i + 1..] {
                writes_expr(later, &mut w);
            }
            if places.iter().any(|v| w.contains(*v)) {
                return true;
            }
        }
    }
    if cs.iter().any(|c| hazard_expr(c)) {
        return true;
    }
    match e {
        Expr::If(_, a, b) | Expr::MatchBool(_, a, b) | Expr::MatchOpt(_, _, a, b) => hazard_block(a) || hazard_block(b),
        Expr::MatchEnum(_, _, arms) => arms.iter().any(|(_, b)| hazard_block(b)),
        Expr::MatchNum(_, _, arms, d) => arms.iter().any(hazard_block) || hazard_block(d),
        Expr::Block(b) => hazard_block(b),
        Expr::Loop(l) => hazard_expr(&l.cond) || l.body.iter().any(hazard_stmt) || hazard_expr(&l.result),
        _ => false,
    }
}
fn hazard_block(b: &Block) -> bool {
    b.stmts.iter().any(hazard_stmt) || hazard_expr(&b.tail)
}
fn hazard_stmt(s: &Stmt) -> bool {
    match s {
        Stmt::Let(_, _, _, e) | Stmt::Expr(e) | Stmt::Assert(e, _) | Stmt::Assign(_, e) | Stmt::OpAssign(_, _, _, e) | Stmt::ArrAppend(_, e) => hazard_expr(e),
        Stmt::IfS(c, a, b) => hazard_expr(c) || a.iter().any(hazard_stmt) || b.iter().any(hazard_stmt),
        Stmt::While(_, _, c, b) => hazard_expr(c) || b.iter().any(hazard_stmt),
        Stmt::ForRange(_, _, a, b, body) => hazard_expr(a) || hazard_expr(b) || body.iter().any(hazard_stmt),
        Stmt::ForSpan(_, _, _, body) => body.iter().any(hazard_stmt),
        Stmt::ArrNew(_, _, es) => es.iter().any(hazard_expr),
        Stmt::DictInsert(_, a, b) | Stmt::ReturnIf(a, b) => hazard_expr(a) || hazard_expr(b),
        Stmt::ArrPop(..) | Stmt::DictNew(..) => false,
    }
}
/// True iff some expression has a place operand (a variable or a member path) followed, within the
/// same expression, by an operand that assigns that variable: `(v, { v = 0; 2 })`.
pub fn lazy_read_hazard(p: &Program) -> bool {
    p.funcs.iter().any(|f| hazard_block(&f.body))
}

pub fn generate(ch: &mut Choices) -> (Program, GenStats) {
    let mut g = Gen {
        ch,
        prog: Program::default(),
        next_id: 0,
        cur_fn: 0,
        cur_ret: Ty::Felt,
        in_loop: false,
        stats: GenStats::default(),
        shuffles: vec![],
        wrappers: vec![],
        force_wrapper: false,
    };
    // Types.
    let ns = g.ch.below(3);
    for _ in 0..ns {
        let nf = 1 + g.ch.below(3);
        let fields = (0..nf).map(|_| g.any_ty(1)).collect();
        g.prog.structs.push(fields);
    }
    let ne = g.ch.below(3);
    for _ in 0..ne {
        let nv = 1 + g.ch.below(4);
        // A later variant repeats an earlier variant's payload type half of the time (variants
        // that can be mapped onto each other, see the remap functions).
        let mut vars: Vec<Option<Ty>> = vec![];
        for _ in 0..nv {
            let earlier: Vec<Ty> = vars.iter().flatten().cloned().collect();
            if !earlier.is_empty() && g.ch.bool() {
                vars.push(Some(earlier[g.ch.below(earlier.len())].clone()));
            } else if g.ch.bool() {
                vars.push(Some(g.any_ty(1)));
            } else {
                vars.push(None);
            }
        }
        g.prog.enums.push(vars);
    }
    let nc = g.ch.below(3);
    for _ in 0..nc {
        let t = g.scalar_ty();
        let v = g.small_value(&t);
        g.prog.consts.push((t, v));
    }
    let nf = 2 + g.ch.below(4);
    for k in 0..nf {
        let is_entry = k == nf - 1;
        let idx = g.prog.funcs.len();
        let f = g.func(idx, is_entry);
        g.prog.funcs.push(f);
        if !is_entry {
            if let Some(w) = g.maybe_wrapper(idx) {
                g.prog.funcs.push(w);
            }
        }
    }
    g.prog.entry = g.prog.funcs.len() - 1;
    let stats = g.stats.clone();
    (g.prog, stats)
}

/// Argument vectors for the entry point: boundary values and small values per parameter type.
pub fn gen_args(ch: &mut Choices, p: &Program) -> Vec<BigInt> {
    let mut out = vec![];
    for pa in &p.funcs[p.entry].params {
        if let Param::Val(_, t) = pa {
            let max = t.max();
            let min = t.min();
            let v = match t {
                Ty::Bool => BigInt::from(ch.below(2)),
                _ => match ch.weighted(&[5, 3, 2]) {
                    0 => {
                        let v = BigInt::from(ch.below(9));
                        if t.is_signed() && ch.bool() { -v } else { v }
                    }
                    1 => match ch.below(6) {
                        0 => max,
                        1 => min,
                        2 => max - 1,
                        3 => min + 1,
                        4 => BigInt::from(2),
                        _ => (&max) / 2 + 1,
                    },
                    _ => {
                        let span = &max - &min + 1;
                        let r: BigInt = (BigInt::from(ch.u64()) << 64) + BigInt::from(ch.u64());
                        let r = if *t == Ty::U256 || *t == Ty::Felt { (r.clone() << 128) + r } else { r };
                        &min + (r % span)
                    }
                },
            };
            out.push(v);
        }
    }
    out
}
