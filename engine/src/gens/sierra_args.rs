//! In-range argument generation directed by Sierra parameter types (for corpus functions).

use cairo_lang_runnable_utils::builder::RunnableBuilder;
use cairo_lang_runner::Arg;
use cairo_lang_sierra::ids::ConcreteTypeId;
use cairo_lang_sierra::program::{Function, GenericArg};
use num_bigint::BigInt;
use num_traits::{One, Zero};

use crate::core::choices::Choices;
use crate::core::exec::bigint_to_felt;
use crate::gens::prog::prime;

fn pick_in(ch: &mut Choices, lo: &BigInt, hi: &BigInt, nonzero: bool) -> BigInt {
    let span = hi - lo + 1;
    let mut v = match ch.weighted(&[5, 4, 2, 2]) {
        0 => {
            let s = BigInt::from(ch.below(9));
            if lo < &BigInt::zero() && ch.bool() { -s } else { s }
        }
        1 => match ch.below(6) {
            0 => hi.clone(),
            1 => lo.clone(),
            2 => hi - 1,
            3 => lo + 1,
            4 => (hi + lo) / 2,
            _ => (hi + lo) / 2 + 1,
        },
        2 => {
            // 2^k, 2^k +- 1
            let bits = hi.bits().max(2) as usize;
            let k = 1 + ch.below(bits - 1);
            let b = BigInt::one() << k;
            match ch.below(3) {
                0 => b - 1,
                1 => b,
                _ => b + 1,
            }
        }
        _ => {
            let r = (BigInt::from(ch.u64()) << 192) + (BigInt::from(ch.u64()) << 128) + (BigInt::from(ch.u64()) << 64) + BigInt::from(ch.u64());
            lo + (r % &span)
        }
    };
    if &v > hi {
        v = hi.clone();
    }
    if &v < lo {
        v = lo.clone();
    }
    if nonzero && v.is_zero() {
        v = if hi >= &BigInt::one() { BigInt::one() } else { -BigInt::one() };
    }
    v
}

fn felt(v: &BigInt) -> Arg {
    let p = prime();
    Arg::Value(bigint_to_felt(&(((v % &p) + &p) % &p)))
}

/// Flattened in-range value of a Sierra type; None if the type is not supported as an argument.
pub fn gen_value(ch: &mut Choices, b: &RunnableBuilder, ty: &ConcreteTypeId, nonzero: bool, depth: u32) -> Option<Vec<Arg>> {
    if depth > 6 {
        return None;
    }
    let long = b.type_long_id(ty);
    let name = long.generic_id.0.as_str();
    let int_range = |bits: u32, signed: bool| -> (BigInt, BigInt) {
        if signed {
            (-(BigInt::one() << (bits - 1)), (BigInt::one() << (bits - 1)) - 1)
        } else {
            (BigInt::zero(), (BigInt::one() << bits) - 1)
        }
    };
    let r = match name {
        "felt252" => Some((BigInt::zero(), prime() - 1)),
        "u8" => Some(int_range(8, false)),
        "u16" => Some(int_range(16, false)),
        "u32" => Some(int_range(32, false)),
        "u64" => Some(int_range(64, false)),
        "u128" => Some(int_range(128, false)),
        "i8" => Some(int_range(8, true)),
        "i16" => Some(int_range(16, true)),
        "i32" => Some(int_range(32, true)),
        "i64" => Some(int_range(64, true)),
        "i128" => Some(int_range(128, true)),
        "bytes31" => Some((BigInt::zero(), (BigInt::one() << 248) - 1)),
        "BoundedInt" => match (&long.generic_args.first(), &long.generic_args.get(1)) {
            (Some(GenericArg::Value(lo)), Some(GenericArg::Value(hi))) => Some((lo.clone(), hi.clone())),
            _ => None,
        },
        _ => None,
    };
    if let Some((lo, hi)) = r {
        if nonzero && lo.is_zero() && hi.is_zero() {
            return None;
        }
        return Some(vec![felt(&pick_in(ch, &lo, &hi, nonzero))]);
    }
    match name {
        "NonZero" => match long.generic_args.first() {
            Some(GenericArg::Type(t)) => gen_value(ch, b, t, true, depth + 1),
            _ => None,
        },
        "Snapshot" => match long.generic_args.first() {
            Some(GenericArg::Type(t)) => gen_value(ch, b, t, nonzero, depth + 1),
            _ => None,
        },
        "Struct" => {
            let mut out = vec![];
            let n_members = long.generic_args.len().saturating_sub(1);
            for (i, a) in long.generic_args.iter().skip(1).enumerate() {
                let GenericArg::Type(t) = a else { return None };
                // NonZero<u256>: make the last member non-zero.
                let nz = nonzero && i + 1 == n_members;
                out.extend(gen_value(ch, b, t, nz, depth + 1)?);
            }
            Some(out)
        }
        "Enum" => {
            let variants: Vec<&ConcreteTypeId> = long
                .generic_args
                .iter()
                .skip(1)
                .filter_map(|a| if let GenericArg::Type(t) = a { Some(t) } else { None })
                .collect();
            let n = variants.len();
            if n == 0 {
                return None;
            }
            let size = b.type_size(ty) as usize;
            let idx = ch.below(n);
            let payload = gen_value(ch, b, variants[idx], false, depth + 1)?;
            let selector = if n <= 2 { BigInt::from(idx) } else { BigInt::from((n - idx) * 2 - 1) };
            let mut out = vec![felt(&selector)];
            let flat: usize = payload.iter().map(|a| a.size()).sum();
            if 1 + flat > size {
                return None;
            }
            for _ in 0..(size - 1 - flat) {
                out.push(felt(&BigInt::zero()));
            }
            out.extend(payload);
            Some(out)
        }
        "Array" => match long.generic_args.first() {
            Some(GenericArg::Type(t)) => {
                let n = ch.below(5);
                let mut items = vec![];
                for _ in 0..n {
                    let v = gen_value(ch, b, t, false, depth + 1)?;
                    // Only flat (non-pointer) element types.
                    if v.iter().any(|a| matches!(a, Arg::Array(_))) {
                        return None;
                    }
                    items.extend(v);
                }
                Some(vec![Arg::Array(items)])
            }
            _ => None,
        },
        _ => None,
    }
}

/// Arguments for all user parameters of `func`, or None if some parameter type is unsupported.
pub fn gen_args(ch: &mut Choices, b: &RunnableBuilder, func: &Function) -> Option<Vec<Arg>> {
    let mut out = vec![];
    for ty in &func.signature.param_types {
        let long = b.type_long_id(ty);
        if !b.is_user_arg_type(&long.generic_id) {
            continue;
        }
        out.extend(gen_value(ch, b, ty, false, 0)?);
    }
    Some(out)
}

pub fn args_to_json(args: &[Arg]) -> serde_json::Value {
    fn one(a: &Arg) -> serde_json::Value {
        match a {
            Arg::Value(f) => serde_json::Value::String(f.to_bigint().to_string()),
            Arg::Array(v) => serde_json::Value::Array(v.iter().map(one).collect()),
        }
    }
    serde_json::Value::Array(args.iter().map(one).collect())
}

pub fn args_from_json(v: &serde_json::Value) -> Vec<Arg> {
    fn one(v: &serde_json::Value) -> Arg {
        match v {
            serde_json::Value::Array(a) => Arg::Array(a.iter().map(one).collect()),
            serde_json::Value::String(s) => Arg::Value(bigint_to_felt(&s.parse::<BigInt>().unwrap_or_default())),
            _ => Arg::Value(bigint_to_felt(&BigInt::zero())),
        }
    }
    v.as_array().map(|a| a.iter().map(one).collect()).unwrap_or_default()
}
