//! Ownership programs for C08 part B: a generator of programs that move non-copyable values
//! around correctly (the valid twin), together with injection sites at which one extra statement,
//! or one removed statement, turns the program into one with a use after move or a value that is
//! neither dropped nor consumed (the invalid twin).

use crate::core::choices::Choices;

#[derive(Clone, Copy, PartialEq, Eq, Debug)]
pub enum OT {
    /// `#[derive(Drop)] struct NC { a: felt252, b: Array<felt252> }`: not copyable, droppable.
    NC,
    /// `#[derive(PanicDestruct)] struct ND { a: felt252 }`: not copyable, not droppable, not
    /// destructible (it may only be abandoned while panicking, which every call may do).
    ND,
    /// `Array<felt252>`
    Arr,
    /// `#[derive(Drop)] struct Pair { x: NC, y: NC }`
    Pair,
    /// Library wrappers around NC: droppable because NC is, copyable only if NC were.
    Nul,
    Bx,
    Opt,
    Tup,
}

#[derive(Clone, Copy, PartialEq, Eq, Debug)]
enum St {
    Live,
    /// Pair only: member x moved out.
    PartX,
    Dead,
}

#[derive(Clone, Debug)]
struct Var {
    name: String,
    ty: OT,
    st: St,
    /// Block nesting depth of the declaration.
    depth: usize,
    /// Loop nesting depth of the declaration.
    loop_depth: usize,
}

#[derive(Clone, Debug)]
pub struct Injection {
    pub kind: &'static str,
    /// Insert `text` before line `at` (None = delete line `at`).
    pub at: usize,
    pub text: Option<String>,
}

pub struct OwnProgram {
    pub lines: Vec<String>,
    pub injections: Vec<Injection>,
    pub features: Vec<&'static str>,
}

pub const PRELUDE: &str = "\
#[derive(Drop)]
struct NC {
    a: felt252,
    b: Array<felt252>,
}
#[derive(PanicDestruct)]
struct ND {
    a: felt252,
}
#[derive(Drop)]
struct Pair {
    x: NC,
    y: NC,
}
/// No Drop, no Destruct, no PanicDestruct: must be consumed, and nothing may panic while it lives.
struct NP {
    a: felt252,
}
fn mk_np(v: felt252) -> NP nopanic {
    NP { a: v }
}
fn eat_np(x: NP) -> felt252 nopanic {
    let NP { a } = x;
    a
}
fn bump(x: felt252) -> felt252 nopanic {
    x
}
fn check(x: felt252) {
    assert(x != 77, 'seventy-seven');
}
fn mk_nc(v: felt252) -> NC {
    NC { a: v, b: array![v, 1] }
}
fn mk_nd(v: felt252) -> ND {
    ND { a: v }
}
fn mk_arr(v: felt252) -> Array<felt252> {
    array![v, 2, 3]
}
fn mk_pair(v: felt252) -> Pair {
    Pair { x: mk_nc(v), y: mk_nc(v + 1) }
}
#[inline(never)]
fn eat_nc(x: NC) -> felt252 {
    x.a + x.b.len().into()
}
#[inline(never)]
fn eat_nd(x: ND) -> felt252 {
    let ND { a } = x;
    a
}
fn eat_arr(x: Array<felt252>) -> felt252 {
    x.len().into()
}
fn eat_pair(p: Pair) -> felt252 {
    let Pair { x, y } = p;
    eat_nc(x) + eat_nc(y)
}
fn mk_nul(v: felt252) -> Nullable<NC> {
    NullableTrait::new(mk_nc(v))
}
fn eat_nul(x: Nullable<NC>) -> felt252 {
    eat_nc(x.deref())
}
fn mk_box(v: felt252) -> Box<NC> {
    BoxTrait::new(mk_nc(v))
}
fn eat_box(x: Box<NC>) -> felt252 {
    eat_nc(x.unbox())
}
fn mk_opt(v: felt252) -> Option<NC> {
    Option::Some(mk_nc(v))
}
fn eat_opt(x: Option<NC>) -> felt252 {
    match x {
        Option::Some(n) => eat_nc(n),
        Option::None => 0,
    }
}
fn mk_tup(v: felt252) -> (NC, felt252) {
    (mk_nc(v), v)
}
fn eat_tup(x: (NC, felt252)) -> felt252 {
    let (n, f) = x;
    eat_nc(n) + f
}
fn peek_nc(x: @NC) -> felt252 {
    *x.a
}
fn peek_arr(x: @Array<felt252>) -> felt252 {
    x.len().into()
}
fn touch_nc(ref x: NC) {
    x.a += 1;
    x.b.append(7);
}
";

struct G<'a> {
    ch: &'a mut Choices,
    lines: Vec<String>,
    vars: Vec<Var>,
    n: usize,
    depth: usize,
    loop_depth: usize,
    inj: Vec<Injection>,
    features: Vec<&'static str>,
    budget: usize,
    /// > 0 inside a match arm that ends with a panic.
    panic_arm: usize,
}

fn mk(ty: OT) -> &'static str {
    match ty {
        OT::NC => "mk_nc",
        OT::ND => "mk_nd",
        OT::Arr => "mk_arr",
        OT::Pair => "mk_pair",
        OT::Nul => "mk_nul",
        OT::Bx => "mk_box",
        OT::Opt => "mk_opt",
        OT::Tup => "mk_tup",
    }
}
fn eat(ty: OT) -> &'static str {
    match ty {
        OT::NC => "eat_nc",
        OT::ND => "eat_nd",
        OT::Arr => "eat_arr",
        OT::Pair => "eat_pair",
        OT::Nul => "eat_nul",
        OT::Bx => "eat_box",
        OT::Opt => "eat_opt",
        OT::Tup => "eat_tup",
    }
}

impl G<'_> {
    fn ind(&self) -> String {
        "    ".repeat(self.depth)
    }
    fn emit(&mut self, s: &str) {
        let l = format!("{}{}", self.ind(), s);
        self.lines.push(l);
    }
    fn fresh(&mut self) -> String {
        self.n += 1;
        format!("v{}", self.n)
    }
    fn feat(&mut self, f: &'static str) {
        if !self.features.contains(&f) {
            self.features.push(f);
        }
    }

    /// Records use-after-move sites for every dead (or partially moved) variable in scope, and
    /// moved-in-loop sites for live variables declared outside the current loop.
    fn record_sites(&mut self) {
        let at = self.lines.len();
        let ind = self.ind();
        let vars = self.vars.clone();
        for v in &vars {
            match v.st {
                St::Dead => {
                    let form = self.ch.below(4);
                    let (kind, text): (&'static str, String) = match (form, v.ty) {
                        (0, _) => ("use-after-move:by-value-call", format!("acc += {}({});", eat(v.ty), v.name)),
                        (1, _) => ("use-after-move:let-move", format!("let _again = {};", v.name)),
                        (2, OT::NC) => ("use-after-move:snapshot-of-moved", format!("acc += peek_nc(@{});", v.name)),
                        (2, OT::Arr) => ("use-after-move:snapshot-of-moved", format!("acc += peek_arr(@{});", v.name)),
                        (3, OT::NC) => ("use-after-move:ref-of-moved", format!("touch_nc(ref {});", v.name)),
                        (3, OT::Pair) => ("use-after-move:member-of-moved", format!("acc += eat_nc({}.y);", v.name)),
                        _ => ("use-after-move:by-value-call", format!("acc += {}({});", eat(v.ty), v.name)),
                    };
                    self.inj.push(Injection { kind, at, text: Some(format!("{ind}{text}")) });
                }
                St::PartX => {
                    let (kind, text) = if self.ch.bool() {
                        ("use-after-move:whole-after-partial-move", format!("acc += eat_pair({});", v.name))
                    } else {
                        ("use-after-move:member-moved-twice", format!("acc += eat_nc({}.x);", v.name))
                    };
                    self.inj.push(Injection { kind, at, text: Some(format!("{ind}{text}")) });
                }
                St::Live => {
                    // (Not inside an arm that ends with a panic: the flow never reaches the
                    // next iteration from there, so the move is legal.)
                    if v.loop_depth < self.loop_depth && self.panic_arm == 0 {
                        self.inj.push(Injection {
                            kind: "use-after-move:moved-inside-loop",
                            at,
                            text: Some(format!("{ind}acc += {}({});", eat(v.ty), v.name)),
                        });
                    }
                }
            }
        }
        // A value created and never consumed.
        if self.ch.chance(1, 3) {
            if self.panic_arm == 0 {
                self.inj.push(Injection { kind: "not-dropped:never-consumed-local", at, text: Some(format!("{ind}let _leak = mk_nd(5);")) });
            } else {
                // In a region that ends with a panic a PanicDestruct value may be abandoned; one
                // without PanicDestruct may not.
                self.inj.push(Injection { kind: "not-dropped:undestructible-value-reaches-panic", at, text: Some(format!("{ind}let _leak = mk_np(5);")) });
            }
        }
    }

    fn movable(&self, v: &Var) -> bool {
        if v.st != St::Live || v.loop_depth < self.loop_depth {
            return false;
        }
        // ND values are consumed in their declaring block (or by the both-arms rule of `if`).
        v.ty != OT::ND || v.depth == self.depth
    }

    fn consume_line(&mut self, i: usize) {
        let v = self.vars[i].clone();
        let at = self.lines.len();
        let form = self.ch.below(5);
        match (form, v.ty) {
            (0, OT::Pair) => {
                let (a, b) = (self.fresh(), self.fresh());
                self.emit(&format!("let Pair {{ x: mut {a}, y: mut {b} }} = {};", v.name));
                self.feat("destructure");
                let (d, l) = (self.depth, self.loop_depth);
                self.vars.push(Var { name: a, ty: OT::NC, st: St::Live, depth: d, loop_depth: l });
                self.vars.push(Var { name: b, ty: OT::NC, st: St::Live, depth: d, loop_depth: l });
            }
            (1, OT::NC) => {
                let a = self.fresh();
                self.emit(&format!("let mut {a} = Pair {{ x: {}, y: mk_nc(2) }};", v.name));
                self.feat("move-into-struct");
                let (d, l) = (self.depth, self.loop_depth);
                self.vars.push(Var { name: a, ty: OT::Pair, st: St::Live, depth: d, loop_depth: l });
            }
            (2, t) if t != OT::ND || true => {
                let a = self.fresh();
                self.emit(&format!("let mut {a} = {};", v.name));
                self.feat("let-move");
                let (d, l) = (self.depth, self.loop_depth);
                self.vars.push(Var { name: a, ty: v.ty, st: St::Live, depth: d, loop_depth: l });
            }
            (3, OT::NC) if self.loop_depth == 0 => {
                let (w, c) = (self.fresh(), self.fresh());
                self.emit(&format!("let {w} = {};", v.name));
                self.emit(&format!("let {c} = |z: felt252| -> felt252 {{ z + eat_nc({w}) }};"));
                self.emit(&format!("acc += {c}(3);"));
                self.feat("closure-capture");
            }
            _ => {
                self.emit(&format!("acc += {}({});", eat(v.ty), v.name));
            }
        }
        self.vars[i].st = St::Dead;
        if v.ty == OT::ND {
            // Removing the consumption of a non-droppable value leaves it undropped. (Only the
            // plain call form is removable without breaking names.)
            if self.lines[at].contains("eat_nd(") && self.panic_arm == 0 {
                self.inj.push(Injection { kind: "not-dropped:consumption-removed", at, text: None });
            }
        }
    }

    fn stmt(&mut self) {
        self.record_sites();
        let live: Vec<usize> = (0..self.vars.len()).filter(|i| self.movable(&self.vars[*i])).collect();
        let peekable: Vec<usize> =
            (0..self.vars.len()).filter(|i| self.vars[*i].st == St::Live && matches!(self.vars[*i].ty, OT::NC | OT::Arr)).collect();
        let w_new = 4;
        let w_consume = if live.is_empty() { 0 } else { 4 };
        let w_peek = if peekable.is_empty() { 0 } else { 2 };
        let w_if = if self.budget > 0 && self.depth < 4 { 3 } else { 0 };
        let w_loop = if self.budget > 0 && self.depth < 3 && self.loop_depth < 2 { 2 } else { 0 };
        let partial: Vec<usize> = (0..self.vars.len())
            .filter(|i| self.vars[*i].ty == OT::Pair && self.vars[*i].st != St::Dead && self.vars[*i].loop_depth == self.loop_depth)
            .collect();
        let w_partial = if partial.is_empty() { 0 } else { 2 };
        let w_pm = if self.budget > 0 && self.depth < 3 { 2 } else { 0 };
        match self.ch.weighted(&[w_new, w_consume, w_peek, w_if, w_loop, w_partial, 1, 2, w_pm]) {
            0 => {
                let ty = *self.ch.pick(&[OT::NC, OT::NC, OT::ND, OT::Arr, OT::Pair, OT::Nul, OT::Bx, OT::Opt, OT::Tup]);
                let name = self.fresh();
                let k = self.ch.below(9);
                self.emit(&format!("let mut {name} = {}({k});", mk(ty)));
                let (d, l) = (self.depth, self.loop_depth);
                self.vars.push(Var { name, ty, st: St::Live, depth: d, loop_depth: l });
            }
            1 => {
                let i = live[self.ch.below(live.len())];
                self.consume_line(i);
            }
            2 => {
                let i = peekable[self.ch.below(peekable.len())];
                let v = self.vars[i].clone();
                match (v.ty, self.ch.below(3)) {
                    (OT::NC, 0) => {
                        self.emit(&format!("touch_nc(ref {});", v.name));
                        self.feat("ref-argument");
                    }
                    (OT::NC, _) => self.emit(&format!("acc += peek_nc(@{});", v.name)),
                    (OT::Arr, 0) => {
                        self.emit(&format!("{}.append(acc);", v.name));
                        self.feat("ref-argument");
                    }
                    _ => self.emit(&format!("acc += peek_arr(@{});", v.name)),
                }
            }
            3 => self.if_stmt(),
            4 => self.loop_stmt(),
            5 => {
                let i = partial[self.ch.below(partial.len())];
                let v = self.vars[i].clone();
                let a = self.fresh();
                let (d, l) = (self.depth, self.loop_depth);
                if v.st == St::Live {
                    self.emit(&format!("let mut {a} = {}.x;", v.name));
                    self.vars[i].st = St::PartX;
                    self.feat("partial-move");
                } else {
                    self.emit(&format!("let mut {a} = {}.y;", v.name));
                    self.vars[i].st = St::Dead;
                }
                self.vars.push(Var { name: a, ty: OT::NC, st: St::Live, depth: d, loop_depth: l });
            }
            6 => {
                let k = self.ch.below(50);
                self.emit(&format!("acc = acc * 3 + {k};"));
            }
            7 => self.np_section(),
            _ => self.panic_match(),
        }
    }

    /// Statements of one block; at the end every live ND declared in it is consumed and the
    /// block's variables leave the scope.
    fn block(&mut self, n: usize, extra_consume: &[usize]) {
        let base = self.vars.len();
        for _ in 0..n {
            self.stmt();
        }
        for i in extra_consume {
            if self.vars[*i].st == St::Live {
                self.consume_nd_plain(*i);
            }
        }
        for i in base..self.vars.len() {
            if self.vars[i].ty == OT::ND && self.vars[i].st == St::Live {
                self.consume_nd_plain(i);
            }
        }
        self.record_sites();
        self.vars.truncate(base);
    }

    fn consume_nd_plain(&mut self, i: usize) {
        let at = self.lines.len();
        let name = self.vars[i].name.clone();
        self.emit(&format!("acc += eat_nd({name});"));
        self.vars[i].st = St::Dead;
        if self.panic_arm == 0 {
            self.inj.push(Injection { kind: "not-dropped:consumption-removed", at, text: None });
        }
    }

    /// A value without Drop / Destruct / PanicDestruct lives over a few non-panicking statements.
    fn np_section(&mut self) {
        self.feat("undestructible-value-section");
        let mut name = self.fresh();
        let k = self.ch.below(9);
        self.emit(&format!("let {name} = mk_np({k});"));
        let kind: &'static str = if self.panic_arm > 0 {
            "not-dropped:live-across-panicable-call-in-panic-region"
        } else {
            "not-dropped:live-across-panicable-call"
        };
        let n = self.ch.below(3);
        for _ in 0..n {
            let ind = self.ind();
            self.inj.push(Injection { kind, at: self.lines.len(), text: Some(format!("{ind}check(acc);")) });
            if self.ch.bool() {
                // (Arithmetic operators are trait calls that may panic; `bump` is nopanic.)
                self.emit("acc = bump(acc);");
            } else {
                let w = self.fresh();
                self.emit(&format!("let {w} = {name};"));
                name = w;
            }
        }
        let ind = self.ind();
        self.inj.push(Injection { kind, at: self.lines.len(), text: Some(format!("{ind}check(acc);")) });
        let at = self.lines.len();
        self.emit(&format!("acc += eat_np({name});"));
        self.inj.push(Injection { kind: "not-dropped:undestructible-consumption-removed", at, text: None });
    }

    /// `match p0 { 0 => { ..; panic }, _ => { .. } }`: the first arm ends with a panic.
    fn panic_match(&mut self) {
        self.budget -= 1;
        self.feat("arm-ending-with-panic");
        self.emit("match p0 {");
        self.depth += 1;
        self.emit("0 => {");
        self.depth += 1;
        let before = self.vars.clone();
        self.panic_arm += 1;
        let n = 1 + self.ch.below(3);
        self.block(n, &[]);
        if self.ch.bool() {
            self.np_section();
        }
        self.panic_arm -= 1;
        self.emit("core::panic_with_felt252('boom')");
        self.depth -= 1;
        self.emit("},");
        self.vars = before;
        self.emit("_ => {");
        self.depth += 1;
        let n = self.ch.below(3);
        self.block(n, &[]);
        self.depth -= 1;
        self.emit("},");
        self.depth -= 1;
        self.emit("}");
    }

    fn if_stmt(&mut self) {
        self.budget -= 1;
        self.feat("branch");
        // Outer non-droppable values consumed in both arms.
        let both: Vec<usize> = (0..self.vars.len())
            .filter(|i| self.vars[*i].ty == OT::ND && self.vars[*i].st == St::Live && self.vars[*i].loop_depth == self.loop_depth && self.vars[*i].depth == self.depth)
            .filter(|_| self.ch.chance(1, 2))
            .collect();
        let cond = match self.ch.below(3) {
            0 => "acc == 4".to_string(),
            1 => "p0 == 0".to_string(),
            _ => format!("acc != {}", self.ch.below(9)),
        };
        self.emit(&format!("if {cond} {{"));
        let before = self.vars.clone();
        self.depth += 1;
        let n1 = 1 + self.ch.below(3);
        self.block(n1, &both);
        self.depth -= 1;
        let after1 = self.vars.clone();
        self.vars = before;
        self.emit("} else {");
        self.depth += 1;
        let n2 = self.ch.below(3);
        self.block(n2, &both);
        self.depth -= 1;
        self.emit("}");
        // Merge: moved on either path = moved.
        for (i, v) in self.vars.iter_mut().enumerate() {
            let a = after1[i].st;
            v.st = match (a, v.st) {
                (St::Dead, _) | (_, St::Dead) => St::Dead,
                (St::PartX, _) | (_, St::PartX) => St::PartX,
                _ => St::Live,
            };
        }
        if !both.is_empty() {
            self.feat("non-droppable-consumed-in-both-arms");
        }
    }

    fn loop_stmt(&mut self) {
        self.budget -= 1;
        self.feat("loop");
        let i = self.fresh();
        let n = 1 + self.ch.below(3);
        self.emit(&format!("let mut {i}: u32 = 0;"));
        self.emit("loop {");
        self.depth += 1;
        self.loop_depth += 1;
        self.emit(&format!("if {i} == {n} {{"));
        self.emit("    break;");
        self.emit("}");
        let k = 1 + self.ch.below(3);
        self.block(k, &[]);
        self.emit(&format!("{i} += 1;"));
        self.loop_depth -= 1;
        self.depth -= 1;
        self.emit("};");
    }
}

pub fn generate(ch: &mut Choices) -> OwnProgram {
    let mut g = G { ch, lines: vec![], vars: vec![], n: 0, depth: 0, loop_depth: 0, inj: vec![], features: vec![], budget: 4, panic_arm: 0 };
    for l in PRELUDE.lines() {
        g.lines.push(l.to_string());
    }
    // An optional helper taking ownership of its parameters.
    let helper = g.ch.bool();
    if helper {
        g.emit("fn helper(mut h0: NC, mut h1: Array<felt252>, p0: felt252) -> felt252 {");
        g.depth = 1;
        g.emit("let mut acc: felt252 = p0;");
        g.vars.push(Var { name: "h0".into(), ty: OT::NC, st: St::Live, depth: 1, loop_depth: 0 });
        g.vars.push(Var { name: "h1".into(), ty: OT::Arr, st: St::Live, depth: 1, loop_depth: 0 });
        let n = 1 + g.ch.below(4);
        g.block(n, &[]);
        g.emit("acc");
        g.depth = 0;
        g.emit("}");
        g.vars.clear();
        g.feat("owned-parameters");
    }
    g.emit("fn main(p0: felt252) -> felt252 {");
    g.depth = 1;
    g.emit("let mut acc: felt252 = p0;");
    if helper {
        g.emit("acc += helper(mk_nc(1), mk_arr(2), p0);");
    }
    let n = 3 + g.ch.below(6);
    g.block(n, &[]);
    g.emit("acc");
    g.depth = 0;
    g.emit("}");
    OwnProgram { lines: g.lines, injections: g.inj, features: g.features }
}

impl OwnProgram {
    pub fn valid(&self) -> String {
        self.lines.join("\n") + "\n"
    }
    pub fn invalid(&self, inj: &Injection) -> String {
        let mut l = self.lines.clone();
        match &inj.text {
            Some(t) => l.insert(inj.at, t.clone()),
            None => {
                l.remove(inj.at);
            }
        }
        l.join("\n") + "\n"
    }
}
