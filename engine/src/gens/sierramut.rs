//! Sierra program mutations (C14, C15): single-point mutations enumerable per program, and seeded
//! multi-point mutants. A mutation is a small serialisable value so that a replay can rebuild the
//! mutant from the origin text.

use cairo_lang_sierra::ids::{ConcreteLibfuncId, ConcreteTypeId, GenericLibfuncId, GenericTypeId, VarId};
use cairo_lang_sierra::program::{BranchInfo, BranchTarget, GenericArg, Program, Statement, StatementIdx};
use num_bigint::BigInt;
use serde_json::{Value, json};

use crate::core::choices::Choices;

#[derive(Clone, Debug, PartialEq)]
pub enum Mut {
    DelStmt(usize),
    DupStmt(usize),
    SwapStmt(usize),
    /// statement i calls the libfunc declared at index j
    SetLibfunc(usize, usize),
    SwapArgs(usize, usize, usize),
    /// statement i, arg a := var id v
    SetArg(usize, usize, u64),
    DelArg(usize, usize),
    DupArg(usize, usize),
    /// statement i, branch b, result r := var id v
    SetResult(usize, usize, usize, u64),
    DelResult(usize, usize, usize),
    AddResult(usize, usize, u64),
    /// statement i, branch b -> target t (usize::MAX = fallthrough)
    Retarget(usize, usize, usize),
    DelBranch(usize, usize),
    DupBranch(usize, usize),
    /// return statement i: var r := v / delete / add
    SetRet(usize, usize, u64),
    DelRet(usize, usize),
    AddRet(usize, u64),
    /// type declaration d: generic arg g edited by edit kind k
    TypeArg(usize, usize, u8),
    TypeGeneric(usize, usize),
    DelType(usize),
    DupType(usize),
    SwapType(usize),
    TypeInfoFlip(usize, u8),
    LibfuncArg(usize, usize, u8),
    LibfuncGeneric(usize, usize),
    DelLibfunc(usize),
    SwapLibfunc(usize),
    /// function f
    FuncEntry(usize, usize),
    FuncParamType(usize, usize, usize),
    FuncRetType(usize, usize, usize),
    FuncDelParam(usize, usize),
    FuncDelRet(usize, usize),
    /// function f: append type t to the declared return types
    FuncAddRet(usize, usize),
    FuncDupParamId(usize, usize),
    DelFunc(usize),
    DupFunc(usize),
}

const GENERIC_TYPES: &[&str] = &[
    "felt252", "u8", "u128", "u64", "Array", "Box", "Struct", "Enum", "Snapshot", "NonZero", "Nullable", "Uninitialized",
    "Felt252Dict", "Felt252DictEntry", "SquashedFelt252Dict", "RangeCheck", "GasBuiltin", "BoundedInt", "Const", "Span",
    "Bitwise", "Pedersen", "SegmentArena", "BuiltinCosts", "i8", "u256", "Circuit", "CircuitInput", "AddModGate", "U96Guarantee",
    "IntRange", "Coupon", "Closure", "bytes31", "StorageAddress", "System", "EcPoint", "EcState", "U128MulGuarantee", "QM31",
];
const GENERIC_LIBFUNCS: &[&str] = &[
    "drop", "dup", "store_temp", "rename", "branch_align", "jump", "felt252_add", "felt252_const", "u8_overflowing_add",
    "array_new", "array_append", "array_pop_front", "array_get", "array_len", "struct_construct", "struct_deconstruct",
    "enum_init", "enum_match", "function_call", "withdraw_gas", "redeposit_gas", "get_builtin_costs", "alloc_local",
    "store_local", "finalize_locals", "revoke_ap_tracking", "disable_ap_tracking", "enable_ap_tracking", "into_box", "unbox",
    "snapshot_take", "felt252_dict_new", "felt252_dict_entry_get", "felt252_dict_entry_finalize", "felt252_dict_squash",
    "const_as_immediate", "const_as_box", "upcast", "downcast", "bounded_int_add", "bounded_int_div_rem", "u128_guarantee_mul",
    "u256_sqrt", "u512_safe_divmod_by_u256", "bitwise", "pedersen", "ec_point_from_x_nz", "felt252_is_zero", "null",
    "nullable_from_box", "match_nullable", "coupon_buy", "coupon_refund", "span_from_tuple", "tuple_from_span", "try_into_circuit_modulus",
    "eval_circuit", "init_circuit_data", "add_circuit_input", "get_circuit_output", "u96_guarantee_verify", "int_range_pop_front",
    "unwrap_non_zero", "bytes31_const", "storage_base_address_const", "enum_from_bounded_int", "enum_snapshot_match", "struct_snapshot_deconstruct",
    "array_slice", "array_snapshot_multi_pop_front", "array_snapshot_multi_pop_back", "u128_byte_reverse", "felt252_div", "blake2s_compress",
];

fn edit_value(v: &BigInt, k: u8) -> BigInt {
    match k % 8 {
        0 => v + 1,
        1 => v - 1,
        2 => -v.clone(),
        3 => BigInt::from(0),
        4 => (BigInt::from(1) << 128) + v,
        5 => (BigInt::from(1) << 251) + (BigInt::from(17) << 192) + 1,
        6 => (BigInt::from(1) << 300) + v,
        _ => -(BigInt::from(1) << 127usize) - 1,
    }
}

fn var_ids(p: &Program) -> Vec<u64> {
    let mut v: Vec<u64> = vec![];
    for f in &p.funcs {
        for pa in &f.params {
            v.push(pa.id.id);
        }
    }
    for s in &p.statements {
        match s {
            Statement::Invocation(i) => {
                for a in &i.args {
                    v.push(a.id);
                }
                for b in &i.branches {
                    for r in &b.results {
                        v.push(r.id);
                    }
                }
            }
            Statement::Return(r) => {
                for a in r {
                    v.push(a.id);
                }
            }
        }
    }
    v.sort();
    v.dedup();
    v.push(v.last().copied().unwrap_or(0) + 1); // a fresh id
    v
}

/// All single-point mutations of `p`, with the large cross products thinned by `thin`
/// (1 = everything; k = every k-th element of the second index).
pub fn enumerate(p: &Program, thin: usize) -> Vec<Mut> {
    let mut out = vec![];
    let thin = thin.max(1);
    let n = p.statements.len();
    let vars = var_ids(p);
    let nl = p.libfunc_declarations.len();
    let nt = p.type_declarations.len();
    for (i, s) in p.statements.iter().enumerate() {
        out.push(Mut::DelStmt(i));
        out.push(Mut::DupStmt(i));
        if i + 1 < n {
            out.push(Mut::SwapStmt(i));
        }
        match s {
            Statement::Invocation(inv) => {
                for j in (0..nl).step_by(thin) {
                    out.push(Mut::SetLibfunc(i, (j + i) % nl.max(1)));
                }
                for a in 0..inv.args.len() {
                    for b in a + 1..inv.args.len() {
                        out.push(Mut::SwapArgs(i, a, b));
                    }
                    out.push(Mut::DelArg(i, a));
                    out.push(Mut::DupArg(i, a));
                    for v in vars.iter().step_by(thin) {
                        out.push(Mut::SetArg(i, a, *v));
                    }
                }
                for (b, br) in inv.branches.iter().enumerate() {
                    out.push(Mut::DelBranch(i, b));
                    out.push(Mut::DupBranch(i, b));
                    out.push(Mut::Retarget(i, b, usize::MAX));
                    for t in (0..n).step_by(thin) {
                        out.push(Mut::Retarget(i, b, t));
                    }
                    out.push(Mut::AddResult(i, b, *vars.last().unwrap()));
                    for r in 0..br.results.len() {
                        out.push(Mut::DelResult(i, b, r));
                        for v in vars.iter().step_by(thin.max(2)) {
                            out.push(Mut::SetResult(i, b, r, *v));
                        }
                    }
                }
            }
            Statement::Return(rv) => {
                out.push(Mut::AddRet(i, *vars.last().unwrap()));
                for r in 0..rv.len() {
                    out.push(Mut::DelRet(i, r));
                    for v in vars.iter().step_by(thin) {
                        out.push(Mut::SetRet(i, r, *v));
                    }
                }
            }
        }
    }
    for (d, td) in p.type_declarations.iter().enumerate() {
        out.push(Mut::DelType(d));
        out.push(Mut::DupType(d));
        if d + 1 < nt {
            out.push(Mut::SwapType(d));
        }
        for k in 0..4 {
            out.push(Mut::TypeInfoFlip(d, k));
        }
        for g in (0..GENERIC_TYPES.len()).step_by(thin) {
            out.push(Mut::TypeGeneric(d, g));
        }
        for g in 0..td.long_id.generic_args.len() + 1 {
            for k in 0..12 {
                out.push(Mut::TypeArg(d, g, k));
            }
        }
    }
    for (d, ld) in p.libfunc_declarations.iter().enumerate() {
        out.push(Mut::DelLibfunc(d));
        if d + 1 < nl {
            out.push(Mut::SwapLibfunc(d));
        }
        for g in (0..GENERIC_LIBFUNCS.len()).step_by(thin) {
            out.push(Mut::LibfuncGeneric(d, g));
        }
        for g in 0..ld.long_id.generic_args.len() + 1 {
            for k in 0..12 {
                out.push(Mut::LibfuncArg(d, g, k));
            }
        }
    }
    for (f, func) in p.funcs.iter().enumerate() {
        out.push(Mut::DelFunc(f));
        out.push(Mut::DupFunc(f));
        for t in (0..n + 1).step_by(thin) {
            out.push(Mut::FuncEntry(f, t));
        }
        for a in 0..func.params.len() {
            out.push(Mut::FuncDelParam(f, a));
            out.push(Mut::FuncDupParamId(f, a));
            for t in (0..nt).step_by(thin) {
                out.push(Mut::FuncParamType(f, a, t));
            }
        }
        for t in (0..nt).step_by(thin) {
            out.push(Mut::FuncAddRet(f, t));
        }
        for r in 0..func.signature.ret_types.len() {
            out.push(Mut::FuncDelRet(f, r));
            for t in (0..nt).step_by(thin) {
                out.push(Mut::FuncRetType(f, r, t));
            }
        }
    }
    out
}

fn edit_generic_args(args: &mut Vec<GenericArg>, g: usize, k: u8, p: &Program) {
    let type_id = |i: usize| -> Option<ConcreteTypeId> { p.type_declarations.get(i % p.type_declarations.len().max(1)).map(|t| t.id.clone()) };
    if g >= args.len() {
        // Append an argument.
        match k % 4 {
            0 => args.push(GenericArg::Value(BigInt::from(k))),
            1 => {
                if let Some(t) = type_id(k as usize) {
                    args.push(GenericArg::Type(t));
                }
            }
            2 => {
                if let Some(f) = p.funcs.first() {
                    args.push(GenericArg::UserFunc(f.id.clone()));
                }
            }
            _ => {
                if let Some(l) = p.libfunc_declarations.first() {
                    args.push(GenericArg::Libfunc(l.id.clone()));
                }
            }
        }
        return;
    }
    match k {
        8 => {
            args.remove(g);
        }
        9 => {
            let a = args[g].clone();
            args.insert(g, a);
        }
        10 => {
            // Change the kind of the argument.
            args[g] = match &args[g] {
                GenericArg::Value(_) => type_id(0).map(GenericArg::Type).unwrap_or(GenericArg::Value(BigInt::from(0))),
                _ => GenericArg::Value(BigInt::from(3)),
            };
        }
        11 => {
            if g + 1 < args.len() {
                args.swap(g, g + 1);
            }
        }
        _ => match &mut args[g] {
            GenericArg::Value(v) => *v = edit_value(v, k),
            GenericArg::Type(t) => {
                let cur = p.type_declarations.iter().position(|d| d.id == *t).unwrap_or(0);
                if let Some(nt) = type_id(cur + 1 + k as usize) {
                    *t = nt;
                }
            }
            GenericArg::UserFunc(f) => {
                let cur = p.funcs.iter().position(|x| x.id == *f).unwrap_or(0);
                if !p.funcs.is_empty() {
                    *f = p.funcs[(cur + 1 + k as usize) % p.funcs.len()].id.clone();
                }
                if k % 3 == 2 {
                    f.id = f.id.wrapping_add(0x5bd1e995);
                }
            }
            GenericArg::Libfunc(l) => {
                let cur = p.libfunc_declarations.iter().position(|x| x.id == *l).unwrap_or(0);
                if !p.libfunc_declarations.is_empty() {
                    *l = p.libfunc_declarations[(cur + 1 + k as usize) % p.libfunc_declarations.len()].id.clone();
                }
            }
            GenericArg::UserType(u) => {
                u.id += 1u32 + k as u32;
            }
        },
    }
}

pub fn apply(p: &Program, m: &Mut) -> Program {
    let mut q = p.clone();
    let var = |v: u64| VarId::new(v);
    let n = q.statements.len();
    // Branch targets are absolute statement indices: deleting/duplicating statements shifts code,
    // which is part of what the mutation tests (targets are left as they are).
    match m {
        Mut::DelStmt(i) => {
            if *i < n {
                q.statements.remove(*i);
            }
        }
        Mut::DupStmt(i) => {
            if *i < n {
                let s = q.statements[*i].clone();
                q.statements.insert(*i, s);
            }
        }
        Mut::SwapStmt(i) => {
            if i + 1 < n {
                q.statements.swap(*i, i + 1);
            }
        }
        Mut::SetLibfunc(i, j) => {
            if let (Some(Statement::Invocation(inv)), Some(l)) = (q.statements.get_mut(*i), p.libfunc_declarations.get(*j)) {
                inv.libfunc_id = l.id.clone();
            }
        }
        Mut::SwapArgs(i, a, b) => {
            if let Some(Statement::Invocation(inv)) = q.statements.get_mut(*i) {
                if *a < inv.args.len() && *b < inv.args.len() {
                    inv.args.swap(*a, *b);
                }
            }
        }
        Mut::SetArg(i, a, v) => {
            if let Some(Statement::Invocation(inv)) = q.statements.get_mut(*i) {
                if let Some(x) = inv.args.get_mut(*a) {
                    *x = var(*v);
                }
            }
        }
        Mut::DelArg(i, a) => {
            if let Some(Statement::Invocation(inv)) = q.statements.get_mut(*i) {
                if *a < inv.args.len() {
                    inv.args.remove(*a);
                }
            }
        }
        Mut::DupArg(i, a) => {
            if let Some(Statement::Invocation(inv)) = q.statements.get_mut(*i) {
                if *a < inv.args.len() {
                    let x = inv.args[*a].clone();
                    inv.args.insert(*a, x);
                }
            }
        }
        Mut::SetResult(i, b, r, v) => {
            if let Some(Statement::Invocation(inv)) = q.statements.get_mut(*i) {
                if let Some(x) = inv.branches.get_mut(*b).and_then(|br| br.results.get_mut(*r)) {
                    *x = var(*v);
                }
            }
        }
        Mut::DelResult(i, b, r) => {
            if let Some(Statement::Invocation(inv)) = q.statements.get_mut(*i) {
                if let Some(br) = inv.branches.get_mut(*b) {
                    if *r < br.results.len() {
                        br.results.remove(*r);
                    }
                }
            }
        }
        Mut::AddResult(i, b, v) => {
            if let Some(Statement::Invocation(inv)) = q.statements.get_mut(*i) {
                if let Some(br) = inv.branches.get_mut(*b) {
                    br.results.push(var(*v));
                }
            }
        }
        Mut::Retarget(i, b, t) => {
            if let Some(Statement::Invocation(inv)) = q.statements.get_mut(*i) {
                if let Some(br) = inv.branches.get_mut(*b) {
                    br.target = if *t == usize::MAX { BranchTarget::Fallthrough } else { BranchTarget::Statement(StatementIdx(*t)) };
                }
            }
        }
        Mut::DelBranch(i, b) => {
            if let Some(Statement::Invocation(inv)) = q.statements.get_mut(*i) {
                if *b < inv.branches.len() {
                    inv.branches.remove(*b);
                }
            }
        }
        Mut::DupBranch(i, b) => {
            if let Some(Statement::Invocation(inv)) = q.statements.get_mut(*i) {
                if *b < inv.branches.len() {
                    let x: BranchInfo = inv.branches[*b].clone();
                    inv.branches.insert(*b, x);
                }
            }
        }
        Mut::SetRet(i, r, v) => {
            if let Some(Statement::Return(rv)) = q.statements.get_mut(*i) {
                if let Some(x) = rv.get_mut(*r) {
                    *x = var(*v);
                }
            }
        }
        Mut::DelRet(i, r) => {
            if let Some(Statement::Return(rv)) = q.statements.get_mut(*i) {
                if *r < rv.len() {
                    rv.remove(*r);
                }
            }
        }
        Mut::AddRet(i, v) => {
            if let Some(Statement::Return(rv)) = q.statements.get_mut(*i) {
                rv.push(var(*v));
            }
        }
        Mut::TypeArg(d, g, k) => {
            if let Some(td) = q.type_declarations.get_mut(*d) {
                edit_generic_args(&mut td.long_id.generic_args, *g, *k, p);
            }
        }
        Mut::TypeGeneric(d, g) => {
            if let Some(td) = q.type_declarations.get_mut(*d) {
                td.long_id.generic_id = GenericTypeId::from_string(GENERIC_TYPES[*g % GENERIC_TYPES.len()]);
            }
        }
        Mut::DelType(d) => {
            if *d < q.type_declarations.len() {
                q.type_declarations.remove(*d);
            }
        }
        Mut::DupType(d) => {
            if *d < q.type_declarations.len() {
                let x = q.type_declarations[*d].clone();
                q.type_declarations.insert(*d, x);
            }
        }
        Mut::SwapType(d) => {
            if d + 1 < q.type_declarations.len() {
                q.type_declarations.swap(*d, d + 1);
            }
        }
        Mut::TypeInfoFlip(d, k) => {
            if let Some(td) = q.type_declarations.get_mut(*d) {
                let mut info = td.declared_type_info.clone().unwrap_or(cairo_lang_sierra::program::DeclaredTypeInfo {
                    storable: true,
                    droppable: true,
                    duplicatable: true,
                    zero_sized: false,
                });
                match k % 4 {
                    0 => info.storable = !info.storable,
                    1 => info.droppable = !info.droppable,
                    2 => info.duplicatable = !info.duplicatable,
                    _ => info.zero_sized = !info.zero_sized,
                }
                td.declared_type_info = Some(info);
            }
        }
        Mut::LibfuncArg(d, g, k) => {
            if let Some(ld) = q.libfunc_declarations.get_mut(*d) {
                edit_generic_args(&mut ld.long_id.generic_args, *g, *k, p);
            }
        }
        Mut::LibfuncGeneric(d, g) => {
            if let Some(ld) = q.libfunc_declarations.get_mut(*d) {
                ld.long_id.generic_id = GenericLibfuncId::from_string(GENERIC_LIBFUNCS[*g % GENERIC_LIBFUNCS.len()]);
            }
        }
        Mut::DelLibfunc(d) => {
            if *d < q.libfunc_declarations.len() {
                q.libfunc_declarations.remove(*d);
            }
        }
        Mut::SwapLibfunc(d) => {
            if d + 1 < q.libfunc_declarations.len() {
                q.libfunc_declarations.swap(*d, d + 1);
            }
        }
        Mut::FuncEntry(f, t) => {
            if let Some(func) = q.funcs.get_mut(*f) {
                func.entry_point = StatementIdx(*t);
            }
        }
        Mut::FuncParamType(f, a, t) => {
            if let (Some(func), Some(td)) = (q.funcs.get_mut(*f), p.type_declarations.get(*t)) {
                if let Some(pa) = func.params.get_mut(*a) {
                    pa.ty = td.id.clone();
                }
                if let Some(pt) = func.signature.param_types.get_mut(*a) {
                    *pt = td.id.clone();
                }
            }
        }
        Mut::FuncRetType(f, r, t) => {
            if let (Some(func), Some(td)) = (q.funcs.get_mut(*f), p.type_declarations.get(*t)) {
                if let Some(rt) = func.signature.ret_types.get_mut(*r) {
                    *rt = td.id.clone();
                }
            }
        }
        Mut::FuncDelParam(f, a) => {
            if let Some(func) = q.funcs.get_mut(*f) {
                if *a < func.params.len() {
                    func.params.remove(*a);
                }
                if *a < func.signature.param_types.len() {
                    func.signature.param_types.remove(*a);
                }
            }
        }
        Mut::FuncAddRet(f, t) => {
            if let (Some(func), Some(td)) = (q.funcs.get_mut(*f), p.type_declarations.get(*t)) {
                func.signature.ret_types.push(td.id.clone());
            }
        }
        Mut::FuncDelRet(f, r) => {
            if let Some(func) = q.funcs.get_mut(*f) {
                if *r < func.signature.ret_types.len() {
                    func.signature.ret_types.remove(*r);
                }
            }
        }
        Mut::FuncDupParamId(f, a) => {
            if let Some(func) = q.funcs.get_mut(*f) {
                if func.params.len() >= 2 && *a < func.params.len() {
                    let other = func.params[(*a + 1) % func.params.len()].id.clone();
                    func.params[*a].id = other;
                }
            }
        }
        Mut::DelFunc(f) => {
            if *f < q.funcs.len() {
                q.funcs.remove(*f);
            }
        }
        Mut::DupFunc(f) => {
            if *f < q.funcs.len() {
                let x = q.funcs[*f].clone();
                q.funcs.push(x);
            }
        }
    }
    let _: Option<ConcreteLibfuncId> = None;
    q
}

/// A random mutation (for multi-point mutants) drawn from the enumeration.
pub fn random(ch: &mut Choices, p: &Program) -> Mut {
    let all = enumerate(p, 7);
    if all.is_empty() {
        return Mut::DelStmt(0);
    }
    all[ch.below(all.len())].clone()
}

pub fn to_json(m: &Mut) -> Value {
    json!(format!("{m:?}"))
}

/// Parses the Debug rendering back (`Name(a, b, c)`).
pub fn from_json(v: &Value) -> Option<Mut> {
    let s = v.as_str()?;
    let (name, rest) = s.split_once('(')?;
    let nums: Vec<u64> = rest.trim_end_matches(')').split(',').filter_map(|x| x.trim().parse::<u64>().ok()).collect();
    let u = |i: usize| nums.get(i).copied().unwrap_or(0) as usize;
    let g = |i: usize| nums.get(i).copied().unwrap_or(0);
    Some(match name {
        "DelStmt" => Mut::DelStmt(u(0)),
        "DupStmt" => Mut::DupStmt(u(0)),
        "SwapStmt" => Mut::SwapStmt(u(0)),
        "SetLibfunc" => Mut::SetLibfunc(u(0), u(1)),
        "SwapArgs" => Mut::SwapArgs(u(0), u(1), u(2)),
        "SetArg" => Mut::SetArg(u(0), u(1), g(2)),
        "DelArg" => Mut::DelArg(u(0), u(1)),
        "DupArg" => Mut::DupArg(u(0), u(1)),
        "SetResult" => Mut::SetResult(u(0), u(1), u(2), g(3)),
        "DelResult" => Mut::DelResult(u(0), u(1), u(2)),
        "AddResult" => Mut::AddResult(u(0), u(1), g(2)),
        "Retarget" => Mut::Retarget(u(0), u(1), u(2)),
        "DelBranch" => Mut::DelBranch(u(0), u(1)),
        "DupBranch" => Mut::DupBranch(u(0), u(1)),
        "SetRet" => Mut::SetRet(u(0), u(1), g(2)),
        "DelRet" => Mut::DelRet(u(0), u(1)),
        "AddRet" => Mut::AddRet(u(0), g(1)),
        "TypeArg" => Mut::TypeArg(u(0), u(1), g(2) as u8),
        "TypeGeneric" => Mut::TypeGeneric(u(0), u(1)),
        "DelType" => Mut::DelType(u(0)),
        "DupType" => Mut::DupType(u(0)),
        "SwapType" => Mut::SwapType(u(0)),
        "TypeInfoFlip" => Mut::TypeInfoFlip(u(0), g(1) as u8),
        "LibfuncArg" => Mut::LibfuncArg(u(0), u(1), g(2) as u8),
        "LibfuncGeneric" => Mut::LibfuncGeneric(u(0), u(1)),
        "DelLibfunc" => Mut::DelLibfunc(u(0)),
        "SwapLibfunc" => Mut::SwapLibfunc(u(0)),
        "FuncEntry" => Mut::FuncEntry(u(0), u(1)),
        "FuncParamType" => Mut::FuncParamType(u(0), u(1), u(2)),
        "FuncRetType" => Mut::FuncRetType(u(0), u(1), u(2)),
        "FuncDelParam" => Mut::FuncDelParam(u(0), u(1)),
        "FuncDelRet" => Mut::FuncDelRet(u(0), u(1)),
        "FuncAddRet" => Mut::FuncAddRet(u(0), u(1)),
        "FuncDupParamId" => Mut::FuncDupParamId(u(0), u(1)),
        "DelFunc" => Mut::DelFunc(u(0)),
        "DupFunc" => Mut::DupFunc(u(0)),
        _ => return None,
    })
}

pub fn kind_name(m: &Mut) -> String {
    let s = format!("{m:?}");
    s.split('(').next().unwrap_or("?").to_string()
}
