//! Const-evaluable expression trees (C07) over the documented constructs, with named leaves whose
//! values are in range for their types. The same tree is printed three ways: with literals in a
//! `const` item, with the leaves as function parameters (run time), and with literals in a
//! function body (lowering-level constant folding).

use num_bigint::BigInt;
use num_traits::{One, Zero};

use crate::core::choices::Choices;
use crate::gens::prog::*;

pub struct Leaf {
    pub name: String,
    pub ty: Ty,
    pub value: BigInt,
}

pub struct ConstCase {
    pub program: Program, // types + const fns (funcs)
    pub ty: Ty,
    pub expr: Expr,
    pub leaves: Vec<Leaf>,
    pub n_ops: u32,
    pub boundary_leaf: bool,
}

const INTS: &[Ty] = &[Ty::U(8), Ty::I(8), Ty::U(16), Ty::I(16), Ty::U(32), Ty::I(32), Ty::U(64), Ty::I(64), Ty::U(128), Ty::I(128), Ty::U256];

struct G<'a> {
    ch: &'a mut Choices,
    prog: Program,
    leaves: Vec<Leaf>,
    next: usize,
    n_ops: u32,
    boundary: bool,
    /// Local bindings in scope (name, type).
    scope: Vec<(String, Ty)>,
    allow_leaves: bool,
}

impl G<'_> {
    fn scalar(&mut self) -> Ty {
        match self.ch.weighted(&[7, 2, 2]) {
            0 => self.ch.pick(INTS).clone(),
            1 => Ty::Felt,
            _ => Ty::Bool,
        }
    }
    fn any_ty(&mut self, d: u32) -> Ty {
        let w = if d == 0 { 0 } else { 2 };
        match self.ch.weighted(&[8, w, w, w, w]) {
            1 => {
                let n = 1 + self.ch.below(3);
                Ty::Tuple((0..n).map(|_| self.any_ty(d - 1)).collect())
            }
            2 if !self.prog.structs.is_empty() => Ty::Struct(self.ch.below(self.prog.structs.len())),
            3 if !self.prog.enums.is_empty() => Ty::Enum(self.ch.below(self.prog.enums.len())),
            4 => Ty::Opt(Box::new(self.any_ty(d - 1))),
            _ => self.scalar(),
        }
    }
    fn value(&mut self, t: &Ty) -> BigInt {
        let (min, max) = (t.min(), t.max());
        if *t == Ty::Bool {
            return BigInt::from(self.ch.below(2));
        }
        if *t == Ty::Felt && self.ch.chance(1, 4) {
            // Field representatives of small negative numbers: P - m for m around the minima of
            // the signed types (conversions to signed types accept exactly m <= 2^(bits-1)).
            self.boundary = true;
            let k = *self.ch.pick(&[0u32, 1, 7, 15, 31, 63, 127]);
            let m = (BigInt::one() << k) + BigInt::from(self.ch.below(3) as i32 - 1);
            let m = if m < BigInt::one() { BigInt::one() } else { m };
            return max + BigInt::one() - m;
        }
        match self.ch.weighted(&[4, 4, 2, 1]) {
            0 => {
                let v = BigInt::from(self.ch.below(10));
                if t.is_signed() && self.ch.bool() { -v } else { v }
            }
            1 => {
                self.boundary = true;
                match self.ch.below(7) {
                    0 => max,
                    1 => min,
                    2 => max - 1,
                    3 => min + 1,
                    4 => if t.is_signed() { BigInt::from(-1) } else { BigInt::one() },
                    5 => (&max) / 2 + 1,
                    _ => BigInt::zero(),
                }
            }
            2 => {
                self.boundary = true;
                let bits = max.bits().max(2) as usize;
                let k = 1 + self.ch.below(bits - 1);
                let b = BigInt::one() << k;
                let v = match self.ch.below(3) {
                    0 => b - 1,
                    1 => b,
                    _ => b + 1,
                };
                if v > max { max } else { v }
            }
            _ => {
                let span = &max - &min + 1;
                let r = (BigInt::from(self.ch.u64()) << 192) + (BigInt::from(self.ch.u64()) << 64) + BigInt::from(self.ch.u64());
                &min + (r % span)
            }
        }
    }
    fn leaf(&mut self, t: &Ty) -> Expr {
        // A local binding of the right type, a named leaf, or a plain literal.
        let locals: Vec<String> = self.scope.iter().filter(|(_, ty)| ty == t).map(|(n, _)| n.clone()).collect();
        if !locals.is_empty() && self.ch.chance(1, 2) {
            return Expr::Var(locals[self.ch.below(locals.len())].clone());
        }
        match t {
            t if t.is_scalar() => {
                let v = self.value(t);
                if self.allow_leaves && self.leaves.len() < 10 && !self.ch.chance(1, 4) {
                    self.next += 1;
                    let name = format!("x{}", self.next);
                    self.leaves.push(Leaf { name: name.clone(), ty: t.clone(), value: v });
                    Expr::Var(name)
                } else {
                    Expr::Lit(t.clone(), v)
                }
            }
            Ty::Tuple(ts) => Expr::Tuple(ts.iter().map(|x| self.leaf(x)).collect()),
            Ty::Struct(s) => {
                let fs = self.prog.structs[*s].clone();
                Expr::StructLit(*s, fs.iter().map(|x| self.leaf(x)).collect())
            }
            Ty::Enum(en) => {
                let vs = self.prog.enums[*en].clone();
                let v = self.ch.below(vs.len());
                Expr::EnumLit(*en, v, vs[v].as_ref().map(|t| Box::new(self.leaf(t))))
            }
            Ty::Opt(inner) => {
                if self.ch.chance(1, 3) { Expr::None_((**inner).clone()) } else { Expr::Some_(Box::new(self.leaf(inner))) }
            }
            _ => unreachable!(),
        }
    }
    fn block(&mut self, t: &Ty, f: u32) -> Block {
        let mark = self.scope.len();
        let n = self.ch.below(3);
        let mut stmts = vec![];
        for _ in 0..n {
            let lt = self.any_ty(1);
            let e = self.expr(&lt, f);
            self.next += 1;
            let name = format!("l{}", self.next);
            stmts.push(Stmt::Let(name.clone(), false, lt.clone(), e));
            self.scope.push((name, lt));
        }
        let tail = self.expr(t, f);
        self.scope.truncate(mark);
        Block { stmts, tail }
    }
    fn expr(&mut self, t: &Ty, fuel: u32) -> Expr {
        if fuel == 0 || self.ch.chance(1, 6) {
            return self.leaf(t);
        }
        let f = fuel - 1;
        // Control-flow shapes usable at every type.
        let ctl = self.ch.weighted(&[10, 2, 1, 1, 1, 1, 2, 1]);
        match ctl {
            1 => {
                self.n_ops += 1;
                let c = self.expr(&Ty::Bool, f);
                return Expr::If(Box::new(c), Box::new(self.block(t, f)), Box::new(self.block(t, f)));
            }
            2 if !self.prog.enums.is_empty() => {
                self.n_ops += 1;
                let en = self.ch.below(self.prog.enums.len());
                let s = self.expr(&Ty::Enum(en), f);
                let vars = self.prog.enums[en].clone();
                let mut arms = vec![];
                for v in vars {
                    match v {
                        Some(vt) => {
                            self.next += 1;
                            let n = format!("p{}", self.next);
                            self.scope.push((n.clone(), vt));
                            let b = self.block(t, f);
                            self.scope.pop();
                            arms.push((Some(n), b));
                        }
                        None => arms.push((None, self.block(t, f))),
                    }
                }
                return Expr::MatchEnum(en, Box::new(s), arms);
            }
            3 => {
                self.n_ops += 1;
                let inner = self.any_ty(1);
                let s = self.expr(&Ty::Opt(Box::new(inner.clone())), f);
                self.next += 1;
                let n = format!("p{}", self.next);
                self.scope.push((n.clone(), inner));
                let some = self.block(t, f);
                self.scope.pop();
                return Expr::MatchOpt(Box::new(s), n, Box::new(some), Box::new(self.block(t, f)));
            }
            4 => {
                self.n_ops += 1;
                let st = self.ch.pick(&[Ty::Felt, Ty::U(8), Ty::U(32), Ty::U(64), Ty::U(128), Ty::U(16)]).clone();
                let n = 1 + self.ch.below(5);
                let s = self.expr(&st, f);
                let arms = (0..n).map(|_| self.block(t, f.min(1))).collect();
                return Expr::MatchNum(st, Box::new(s), arms, Box::new(self.block(t, f.min(1))));
            }
            5 => {
                self.n_ops += 1;
                let s = self.expr(&Ty::Bool, f);
                return Expr::MatchBool(Box::new(s), Box::new(self.block(t, f)), Box::new(self.block(t, f)));
            }
            6 => return Expr::Block(Box::new(self.block(t, f))),
            7 => {
                // const fn call
                let c: Vec<usize> = (0..self.prog.funcs.len()).filter(|i| &self.prog.funcs[*i].ret == t).collect();
                if !c.is_empty() {
                    self.n_ops += 1;
                    let fi = c[self.ch.below(c.len())];
                    let params = self.prog.funcs[fi].params.clone();
                    let args = params
                        .iter()
                        .map(|p| match p {
                            Param::Val(_, pt) => Arg::Val(self.expr(pt, f.min(1))),
                            _ => unreachable!(),
                        })
                        .collect();
                    return Expr::Call(fi, args);
                }
            }
            _ => {}
        }
        match t {
            Ty::Bool => match self.ch.weighted(&[5, 2, 2, 1]) {
                0 => {
                    self.n_ops += 1;
                    let st = self.scalar();
                    let ops: &[CmpOp] = if st.is_int() { &[CmpOp::Lt, CmpOp::Eq, CmpOp::Le, CmpOp::Gt, CmpOp::Ge, CmpOp::Ne] } else { &[CmpOp::Eq, CmpOp::Ne] };
                    let op = *self.ch.pick(ops);
                    Expr::Cmp(op, st.clone(), Box::new(self.expr(&st, f)), Box::new(self.expr(&st, f)))
                }
                1 => {
                    self.n_ops += 1;
                    Expr::AndAnd(Box::new(self.expr(t, f)), Box::new(self.expr(t, f)))
                }
                2 => {
                    self.n_ops += 1;
                    Expr::OrOr(Box::new(self.expr(t, f)), Box::new(self.expr(t, f)))
                }
                _ => {
                    self.n_ops += 1;
                    Expr::Not(Box::new(self.expr(t, f)))
                }
            },
            Ty::Felt => match self.ch.weighted(&[5, 3]) {
                0 => {
                    self.n_ops += 1;
                    let op = *self.ch.pick(&[BinOp::Add, BinOp::Sub, BinOp::Mul]);
                    Expr::Bin(op, t.clone(), Box::new(self.expr(t, f)), Box::new(self.expr(t, f)))
                }
                _ => {
                    self.n_ops += 1;
                    let from = self.ch.pick(&INTS[..10]).clone();
                    Expr::Into(from.clone(), Ty::Felt, Box::new(self.expr(&from, f)))
                }
            },
            Ty::U(_) | Ty::I(_) | Ty::U256 => match self.ch.weighted(&[8, 4, 1]) {
                0 => {
                    self.n_ops += 1;
                    let ops: &[BinOp] = if t.is_signed() {
                        &[BinOp::Add, BinOp::Sub, BinOp::Mul, BinOp::Div, BinOp::Rem]
                    } else {
                        &[BinOp::Add, BinOp::Sub, BinOp::Mul, BinOp::Div, BinOp::Rem, BinOp::And, BinOp::Or, BinOp::Xor]
                    };
                    let op = *self.ch.pick(ops);
                    Expr::Bin(op, t.clone(), Box::new(self.expr(t, f)), Box::new(self.expr(t, f)))
                }
                1 => {
                    self.n_ops += 1;
                    // Conversion from another integer type or felt252.
                    let mut c: Vec<Ty> = INTS
                        .iter()
                        .filter(|x| *x != t)
                        .filter(|x| !matches!((t, x), (Ty::U256, Ty::I(_)) | (Ty::I(_), Ty::U256)))
                        .cloned()
                        .collect();
                    c.push(Ty::Felt);
                    let from = c[self.ch.below(c.len())].clone();
                    let inner = Box::new(self.expr(&from, f));
                    // Widening conversions exist only as `into` in const context (their `try_into` is a
                    // non-const blanket impl).
                    if Gen::into_ok(&from, t) {
                        Expr::Into(from, t.clone(), inner)
                    } else {
                        Expr::TryIntoUnwrap(from, t.clone(), inner)
                    }
                }
                _ => {
                    if t.is_signed() {
                        self.n_ops += 1;
                        Expr::Neg(t.clone(), Box::new(self.expr(t, f)))
                    } else {
                        self.leaf(t)
                    }
                }
            },
            Ty::Tuple(ts) => Expr::Tuple(ts.iter().map(|x| self.expr(x, f)).collect()),
            Ty::Struct(s) => {
                let fs = self.prog.structs[*s].clone();
                Expr::StructLit(*s, fs.iter().map(|x| self.expr(x, f)).collect())
            }
            Ty::Enum(en) => {
                let vs = self.prog.enums[*en].clone();
                let v = self.ch.below(vs.len());
                Expr::EnumLit(*en, v, vs[v].as_ref().map(|x| Box::new(self.expr(x, f))))
            }
            Ty::Opt(inner) => {
                if self.ch.chance(1, 4) {
                    Expr::None_((**inner).clone())
                } else if inner.is_int() && self.ch.chance(1, 2) {
                    self.n_ops += 1;
                    let mut c: Vec<Ty> = INTS
                        .iter()
                        .filter(|x| **x != **inner)
                        .filter(|x| !matches!((&**inner, x), (Ty::U256, Ty::I(_)) | (Ty::I(_), Ty::U256)))
                        .cloned()
                        .collect();
                    c.push(Ty::Felt);
                    let c: Vec<Ty> = c.into_iter().filter(|x| !Gen::into_ok(x, inner)).collect();
                    if c.is_empty() {
                        return Expr::Some_(Box::new(self.expr(inner, f)));
                    }
                    let from = c[self.ch.below(c.len())].clone();
                    Expr::TryInto(from.clone(), (**inner).clone(), Box::new(self.expr(&from, f)))
                } else {
                    Expr::Some_(Box::new(self.expr(inner, f)))
                }
            }
        }
    }
}

pub fn generate(ch: &mut Choices) -> ConstCase {
    let mut g = G { ch, prog: Program::default(), leaves: vec![], next: 0, n_ops: 0, boundary: false, scope: vec![], allow_leaves: false };
    let ns = g.ch.below(3);
    for _ in 0..ns {
        let nf = 1 + g.ch.below(3);
        let fs = (0..nf).map(|_| g.any_ty(1)).collect();
        g.prog.structs.push(fs);
    }
    let ne = g.ch.below(3);
    for _ in 0..ne {
        let nv = 1 + g.ch.below(3);
        let vs = (0..nv).map(|_| if g.ch.bool() { Some(g.any_ty(1)) } else { None }).collect();
        g.prog.enums.push(vs);
    }
    // const fns: bodies are const expressions over their parameters (no leaves inside).
    let nf = g.ch.below(3);
    for _ in 0..nf {
        let np = 1 + g.ch.below(2);
        let mut params = vec![];
        g.scope.clear();
        for _ in 0..np {
            let t = g.scalar();
            g.next += 1;
            let n = format!("a{}", g.next);
            g.scope.push((n.clone(), t.clone()));
            params.push(Param::Val(n, t));
        }
        let ret = g.scalar();
        let body = g.block(&ret, 2);
        g.scope.clear();
        g.prog.funcs.push(Func { params, ret, body, inline: 0, recursive: false });
    }
    g.allow_leaves = true;
    g.n_ops = 0;
    if g.ch.chance(1, 3) {
        // Operator template: one binary (or unary) operation on two leaves from a tight boundary
        // set of one integer type - systematic coverage of the (boundary, boundary) operand pairs.
        let t = g.ch.pick(INTS).clone();
        let (min, max) = (t.min(), t.max());
        let mut set = vec![min.clone(), &min + 1, BigInt::zero(), BigInt::one(), BigInt::from(2), &max - 1, max.clone(), &max / 2 + 1];
        if t.is_signed() {
            set.push(BigInt::from(-1));
            set.push(BigInt::from(-2));
        }
        let x = set[g.ch.below(set.len())].clone();
        let y = set[g.ch.below(set.len())].clone();
        g.leaves.push(Leaf { name: "x1".into(), ty: t.clone(), value: x });
        g.leaves.push(Leaf { name: "x2".into(), ty: t.clone(), value: y });
        g.boundary = true;
        let (a, b) = (Box::new(Expr::Var("x1".into())), Box::new(Expr::Var("x2".into())));
        let ops: &[BinOp] = if t.is_signed() { &[BinOp::Rem, BinOp::Div, BinOp::Mul, BinOp::Sub, BinOp::Add] } else { &[BinOp::Rem, BinOp::Div, BinOp::Mul, BinOp::Sub, BinOp::Add, BinOp::And, BinOp::Or, BinOp::Xor] };
        let k = g.ch.below(ops.len() + 2);
        let (ty, expr) = if k < ops.len() {
            (t.clone(), Expr::Bin(ops[k], t.clone(), a, b))
        } else if k == ops.len() && t.is_signed() {
            (t.clone(), Expr::Neg(t.clone(), a))
        } else {
            let op = *g.ch.pick(&[CmpOp::Lt, CmpOp::Le, CmpOp::Eq, CmpOp::Ge]);
            (Ty::Bool, Expr::Cmp(op, t.clone(), a, b))
        };
        return ConstCase { program: g.prog, ty, expr, leaves: g.leaves, n_ops: 2, boundary_leaf: true };
    }
    let ty = g.any_ty(2);
    let fuel = 2 + g.ch.below(3) as u32;
    let expr = g.expr(&ty, fuel);
    ConstCase { program: g.prog, ty, expr, leaves: g.leaves, n_ops: g.n_ops, boundary_leaf: g.boundary }
}

/// Replaces the named leaves by literals.
pub fn with_literals(e: &Expr, leaves: &[Leaf]) -> Expr {
    let sub = |x: &Expr| Box::new(with_literals(x, leaves));
    let blk = |b: &Block| Box::new(Block {
        stmts: b
            .stmts
            .iter()
            .map(|s| match s {
                Stmt::Let(n, m, t, x) => Stmt::Let(n.clone(), *m, t.clone(), with_literals(x, leaves)),
                other => other.clone(),
            })
            .collect(),
        tail: with_literals(&b.tail, leaves),
    });
    match e {
        Expr::Var(n) => match leaves.iter().find(|l| &l.name == n) {
            Some(l) => Expr::Lit(l.ty.clone(), l.value.clone()),
            None => e.clone(),
        },
        Expr::Lit(..) | Expr::None_(_) => e.clone(),
        Expr::Bin(o, t, a, b) => Expr::Bin(*o, t.clone(), sub(a), sub(b)),
        Expr::Neg(t, a) => Expr::Neg(t.clone(), sub(a)),
        Expr::BitNot(t, a) => Expr::BitNot(t.clone(), sub(a)),
        Expr::Cmp(o, t, a, b) => Expr::Cmp(*o, t.clone(), sub(a), sub(b)),
        Expr::AndAnd(a, b) => Expr::AndAnd(sub(a), sub(b)),
        Expr::OrOr(a, b) => Expr::OrOr(sub(a), sub(b)),
        Expr::Not(a) => Expr::Not(sub(a)),
        Expr::Into(f, t, a) => Expr::Into(f.clone(), t.clone(), sub(a)),
        Expr::TryIntoUnwrap(f, t, a) => Expr::TryIntoUnwrap(f.clone(), t.clone(), sub(a)),
        Expr::TryInto(f, t, a) => Expr::TryInto(f.clone(), t.clone(), sub(a)),
        Expr::Tuple(es) => Expr::Tuple(es.iter().map(|x| with_literals(x, leaves)).collect()),
        Expr::StructLit(s, es) => Expr::StructLit(*s, es.iter().map(|x| with_literals(x, leaves)).collect()),
        Expr::EnumLit(en, v, p) => Expr::EnumLit(*en, *v, p.as_ref().map(|x| sub(x))),
        Expr::Some_(a) => Expr::Some_(sub(a)),
        Expr::If(c, t, f) => Expr::If(sub(c), blk(t), blk(f)),
        Expr::MatchEnum(en, s, arms) => Expr::MatchEnum(*en, sub(s), arms.iter().map(|(b, blk_)| (b.clone(), *blk(blk_))).collect()),
        Expr::MatchOpt(s, n, a, b) => Expr::MatchOpt(sub(s), n.clone(), blk(a), blk(b)),
        Expr::MatchNum(t, s, arms, d) => Expr::MatchNum(t.clone(), sub(s), arms.iter().map(|b| *blk(b)).collect(), blk(d)),
        Expr::MatchBool(s, a, b) => Expr::MatchBool(sub(s), blk(a), blk(b)),
        Expr::Block(b) => Expr::Block(blk(b)),
        Expr::Call(f, args) => Expr::Call(
            *f,
            args.iter()
                .map(|a| match a {
                    Arg::Val(x) => Arg::Val(with_literals(x, leaves)),
                    o => o.clone(),
                })
                .collect(),
        ),
        other => other.clone(),
    }
}
