//! Programs whose loops / recursive functions use the builtins (Pedersen, Poseidon, Bitwise, EcOp,
//! AddMod / MulMod through circuits, Blake2s, range checks, the segment arena) inside gas-counted
//! control flow: the shapes in which per-branch builtin pre-costs, `redeposit_gas` and
//! `branch_align` matter. Written for C04 after a seeded change (a per-branch MulMod token count
//! of `eval_circuit`) showed that neither the generated programs nor the repository's e2e snippets
//! evaluate a circuit inside a loop; used by every check that draws from `execs::pick_case`.

use crate::core::choices::Choices;

const HEADER: &str = "use core::circuit::{\n    AddInputResultTrait, CircuitElement, CircuitInput, CircuitInputs, CircuitModulus,\n    CircuitOutputsTrait, EvalCircuitTrait, circuit_add, circuit_mul, circuit_sub, circuit_inverse, u384,\n};\nuse core::dict::Felt252Dict;\nuse core::ec::{EcPointTrait, EcStateTrait};\nuse core::box::BoxTrait;\nuse core::num::traits::{WideMul, WideSquare, Sqrt};\n";

/// One operation: updates `acc: felt252` using the loop index `i: felt252`.
fn op(ch: &mut Choices, k: usize) -> String {
    match k {
        0 => "acc = core::pedersen::pedersen(acc, i);".into(),
        1 => "let (h0_, h1_, _) = core::poseidon::hades_permutation(acc, i, 2);\n        acc = h0_ + h1_;".into(),
        2 => "let w_: u256 = acc.into();\n        let b_: u128 = (w_.low & 0xf0f0f0f0f0f0f0f0) ^ (w_.high | 0xff);\n        acc = b_.into() + i;".into(),
        3 => "let g_ = EcPointTrait::new_nz(core::ec::stark_curve::GEN_X, core::ec::stark_curve::GEN_Y).unwrap();\n        let mut s_ = EcStateTrait::init();\n        s_.add_mul(acc + i + 1, g_);\n        acc = match s_.finalize_nz() {\n            Option::Some(p_) => { let (x_, _) = p_.coordinates(); x_ },\n            Option::None => 7,\n        };".into(),
        4 => {
            // A circuit with a drawn number of mul / add gates, evaluated successfully.
            let muls = 1 + ch.below(3);
            let adds = ch.below(3);
            let mut e = "circuit_mul(in0_, in1_)".to_string();
            for _ in 1..muls {
                e = format!("circuit_mul({e}, in1_)");
            }
            for _ in 0..adds {
                e = format!("circuit_add({e}, in0_)");
            }
            let modulus = ["1000003, 0", "79228162514264337593543950319, 0", "5, 1"][ch.below(3)];
            format!(
                "let in0_ = CircuitElement::<CircuitInput<0>> {{}};\n        let in1_ = CircuitElement::<CircuitInput<1>> {{}};\n        let out_ = {e};\n        let m_ = TryInto::<_, CircuitModulus>::try_into([{modulus}, 0, 0]).unwrap();\n        let a_: u256 = acc.into();\n        let b_: u256 = (i + 2).into();\n        let a_: u384 = a_.low.into();\n        let b_: u384 = b_.low.into();\n        let r_ = (out_,).new_inputs().next(a_).next(b_).done().eval(m_).unwrap();\n        let o_: u128 = r_.get_output(out_).try_into().unwrap();\n        acc = o_.into();"
            )
        }
        5 => {
            // A circuit whose evaluation may fail (inverse of a possibly zero value).
            "let in0_ = CircuitElement::<CircuitInput<0>> {};\n        let in1_ = CircuitElement::<CircuitInput<1>> {};\n        let out_ = circuit_mul(circuit_inverse(circuit_sub(in0_, in1_)), in1_);\n        let m_ = TryInto::<_, CircuitModulus>::try_into([1000003, 0, 0, 0]).unwrap();\n        let a_: u256 = acc.into();\n        let a_: u384 = (a_.low % 7).into();\n        let b_: u256 = i.into();\n        let b_: u384 = (b_.low % 7).into();\n        acc = match (out_,).new_inputs().next(a_).next(b_).done().eval(m_) {\n            Result::Ok(r_) => { let o_: u128 = r_.get_output(out_).try_into().unwrap(); o_.into() },\n            Result::Err(_) => acc + 1,\n        };".into()
        }
        6 => "let st_ = BoxTrait::new([0x6B08E647_u32, 0xBB67AE85, 0x3C6EF372, 0xA54FF53A, 0x510E527F, 0x9B05688C, 0x1F83D9AB, 0x5BE0CD19]);\n        let w_: u256 = acc.into();\n        let l_: u32 = (w_.low & 0xffffffff).try_into().unwrap();\n        let msg_ = BoxTrait::new([l_, 1_u32, 2, 3, 4, 5, 6, 7, 8, 9, 10, 11, 12, 13, 14, 15]);\n        let [b0_, b1_, _, _, _, _, _, _] = core::blake::blake2s_compress(st_, 64, msg_).unbox();\n        acc = b0_.into() + b1_.into() + i;".into(),
        7 => "let mut d_: Felt252Dict<felt252> = Default::default();\n        d_.insert(i, acc);\n        d_.insert(acc, i);\n        acc = d_.get(i) + d_.get(acc) + 1;".into(),
        8 => "let w_: u256 = acc.into();\n        let q_ = w_ / 3_u256;\n        let s_: u128 = w_.sqrt();\n        acc = q_.low.into() + s_.into() + i;".into(),
        9 => "let w_: u256 = acc.into();\n        let sq_ = w_.wide_square();\n        let i_: u256 = i.into();\n        let nz_: NonZero<u256> = (i_ + 3).try_into().unwrap();\n        let (_, r_) = core::integer::u512_safe_div_rem_by_u256(sq_, nz_);\n        acc = r_.low.into() + sq_.limb1.into();".into(),
        10 => "let mut arr_: Array<felt252> = array![acc, i, acc + i];\n        let _ = arr_.pop_front();\n        let mut sp_ = arr_.span();\n        acc = *sp_.pop_back().unwrap() * 3 + *sp_.at(0);".into(),
        12 => "let q_ = core::qm31::QM31Trait::new(5, 1, 2, 3);\n        let r_ = (q_ * core::qm31::qm31_const::<2, 0, 0, 0>() + q_) - core::qm31::qm31_const::<1, 1, 0, 0>();\n        let r_ = r_ / core::qm31::qm31_const::<3, 0, 0, 0>();\n        let [a_, b_, _, _] = core::qm31::QM31Trait::unpack(r_);\n        let a_: felt252 = a_.into();\n        let b_: felt252 = b_.into();\n        acc = acc + a_ + b_ + i;".into(),
        _ => "let w_: u256 = acc.into();\n        let x_: u64 = (w_.low & 0xffffffffffffffff).try_into().unwrap();\n        let y_: u128 = x_.wide_mul(x_);\n        acc = y_.into() - i;".into(),
    }
}
pub const N_OPS: usize = 13;
pub const OP_NAMES: [&str; N_OPS] = ["pedersen", "poseidon", "bitwise", "ec_op", "circuit", "circuit_may_fail", "blake2s", "dict", "u256_div_sqrt", "u512_div", "array", "wide_mul", "qm31_const_operand"];

pub struct BuiltinProgram {
    pub source: String,
    pub ops: Vec<usize>,
    pub shape: usize,
}

/// A crate with one entry function `run(n: u8, seed: felt252) -> felt252`.
pub fn generate(ch: &mut Choices) -> BuiltinProgram {
    let shape = ch.below(6);
    let n_ops = 1 + ch.below(3);
    let ops: Vec<usize> = (0..n_ops).map(|_| ch.below(N_OPS)).collect();
    build(ch, shape, ops)
}
pub fn build(ch: &mut Choices, shape: usize, ops: Vec<usize>) -> BuiltinProgram {
    let texts: Vec<String> = ops.iter().map(|k| op(ch, *k)).collect();
    let bound = [3u32, 5, 9][ch.below(3)];
    let mut s = String::from(HEADER);
    let body = |ind: &str| -> String { texts.iter().map(|t| format!("{ind}{{\n        {t}\n{ind}}}\n")).collect::<Vec<_>>().join("") };
    match shape {
        // while loop
        0 => s.push_str(&format!(
            "fn run(n: u8, seed: felt252) -> felt252 {{\n    let mut acc = seed;\n    let mut i: felt252 = 0;\n    let n: felt252 = (n % {bound}).into();\n    while i != n {{\n{}        i += 1;\n    }}\n    acc\n}}\n",
            body("        ")
        )),
        // recursion
        1 => s.push_str(&format!(
            "fn rec(i: felt252, acc: felt252) -> felt252 {{\n    if i == 0 {{\n        return acc;\n    }}\n    let mut acc = acc;\n{}    rec(i - 1, acc)\n}}\nfn run(n: u8, seed: felt252) -> felt252 {{\n    rec((n % {bound}).into(), seed)\n}}\n",
            body("    ")
        )),
        // loop with the operations in one arm of an `if` (the other arm is cheap)
        2 => s.push_str(&format!(
            "fn run(n: u8, seed: felt252) -> felt252 {{\n    let mut acc = seed;\n    let mut i: felt252 = 0;\n    let n: felt252 = (n % {bound}).into();\n    while i != n {{\n        let w0_: u256 = acc.into();\n        if w0_.low % 2 == 0 {{\n{}        }} else {{\n            acc += 1;\n        }}\n        i += 1;\n    }}\n    acc\n}}\n",
            body("            ")
        )),
        // loop with different operations in the two arms
        3 => {
            let half = texts.len().div_ceil(2);
            let a: String = texts[..half].iter().map(|t| format!("            {{\n        {t}\n            }}\n")).collect();
            let b: String = texts[half..].iter().map(|t| format!("            {{\n        {t}\n            }}\n")).collect();
            s.push_str(&format!(
                "fn run(n: u8, seed: felt252) -> felt252 {{\n    let mut acc = seed;\n    let mut i: felt252 = 0;\n    let n: felt252 = (n % {bound}).into();\n    loop {{\n        if i == n {{\n            break;\n        }}\n        let w0_: u256 = (acc + i).into();\n        if w0_.low % 3 == 1 {{\n{a}        }} else {{\n{b}            acc += 2;\n        }}\n        i += 1;\n    }}\n    acc\n}}\n"
            ));
        }
        // loop with an early exit after the operations
        4 => s.push_str(&format!(
            "fn run(n: u8, seed: felt252) -> felt252 {{\n    let mut acc = seed;\n    let mut i: felt252 = 0;\n    let n: felt252 = (n % {bound}).into();\n    while i != n {{\n{}        let w1_: u256 = acc.into();\n        if w1_.low % 5 == 0 {{\n            break;\n        }}\n        i += 1;\n    }}\n    acc + i\n}}\n",
            body("        ")
        )),
        // helper function called from a loop (not inlined), plus the same operations once outside
        _ => s.push_str(&format!(
            "#[inline(never)]\nfn step(i: felt252, acc: felt252) -> felt252 {{\n    let mut acc = acc;\n{}    acc\n}}\nfn run(n: u8, seed: felt252) -> felt252 {{\n    let mut acc = step(100, seed);\n    let mut i: felt252 = 0;\n    let n: felt252 = (n % {bound}).into();\n    while i != n {{\n        acc = step(i, acc);\n        i += 1;\n    }}\n    acc\n}}\n",
            body("    ")
        )),
    }
    BuiltinProgram { source: s, ops, shape }
}
