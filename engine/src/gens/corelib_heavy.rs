//! Corelib-heavy dependents for C20 (each function leans on a different corelib facility).

pub const HEADER: &str = r#"use core::dict::{Felt252Dict, Felt252DictTrait, Felt252DictEntryTrait};
use core::num::traits::{Sqrt, WideMul, OverflowingAdd, OverflowingMul, WrappingSub, CheckedAdd, SaturatingSub, Bounded, Zero, Pow};
use core::ec::{EcPointTrait, EcStateTrait};
use core::hash::{HashStateTrait, HashStateExTrait};
use core::poseidon::PoseidonTrait;
use core::pedersen::PedersenTrait;
use core::nullable::{NullableTrait, match_nullable, FromNullableResult};
use core::box::BoxTrait;
"#;

pub const FUNCS: &[&str] = &[
    r#"fn k_iter_sum(n: u32) -> u32 {
    array![1_u32, 2, n].into_iter().sum()
}
"#,
    r#"fn k_iter_product(n: u64) -> u64 {
    array![1_u64, 2, n].into_iter().product()
}
"#,
    r#"fn k_iter_count(n: u8) -> usize {
    array![n, 2, 3, 4].into_iter().count()
}
"#,
    r#"fn k_iter_map_fold(n: u32) -> u32 {
    array![1_u32, 2, 3].into_iter().map(|x| x * n).fold(0, |acc, x| acc + x)
}
"#,
    r#"fn k_iter_zip_enum(n: u16) -> u16 {
    let mut t = 0_u16;
    for (i, (a, b)) in array![n, 2, 3].into_iter().zip(array![4_u16, 5, 6]).enumerate() {
        t += a * b + i.try_into().unwrap();
    }
    t
}
"#,
    r#"fn k_iter_filter_any(n: u32) -> bool {
    array![1_u32, n, 7].into_iter().filter(|x| *x > 2).any(|x| x == 7)
}
"#,
    r#"fn k_iter_chain_take(n: u32) -> u32 {
    let mut t = 0;
    for x in array![n, 2].into_iter().chain(array![3_u32, 4]).take(3) {
        t += x;
    }
    t
}
"#,
    r#"fn k_range_loop(n: u32) -> u32 {
    let mut t = 0;
    for i in 0..n {
        t += i;
    }
    t
}
"#,
    r#"fn k_bytearray(n: u32) -> ByteArray {
    let mut s: ByteArray = "abc";
    s.append_word('de', 2);
    s.append_byte(0x41);
    format!("{}-{}-{:?}", s, n, n + 1)
}
"#,
    r#"fn k_bytearray_len(n: u8) -> usize {
    let s: ByteArray = "hello world, this is a long string over 31 bytes!";
    s.len() + s.at(n.into()).unwrap_or(0).into()
}
"#,
    r#"fn k_option(n: u32) -> u32 {
    let o: Option<u32> = if n > 3 {
        Option::Some(n)
    } else {
        Option::None
    };
    o.map(|x| x + 1).unwrap_or_default() + o.unwrap_or(9) + if o.is_some() { 1 } else { 0 }
}
"#,
    r#"fn k_result(n: u32) -> u32 {
    let r: Result<u32, felt252> = if n > 3 {
        Result::Ok(n)
    } else {
        Result::Err('small')
    };
    match r.map(|x| x * 2) {
        Result::Ok(v) => v,
        Result::Err(_) => 0,
    }
}
"#,
    r#"fn k_dict(n: felt252) -> felt252 {
    let mut d: Felt252Dict<u64> = Default::default();
    d.insert(n, 5);
    d.insert(n + 1, 6);
    let (e, v) = d.entry(n);
    d = e.finalize(v + 1);
    d.get(n).into() + d.get(7).into()
}
"#,
    r#"fn k_span(n: u32) -> u32 {
    let a = array![n, 2, 3, 4, 5];
    let s = a.span();
    let sl = s.slice(1, 3);
    *sl.at(0) + *s.get(4).unwrap().unbox() + sl.len()
}
"#,
    r#"fn k_array_pop(n: u32) -> u32 {
    let mut a = array![n, 2, 3];
    let x = a.pop_front().unwrap();
    a.append(x);
    let mut sp = a.span();
    let y = *sp.pop_back().unwrap();
    x + y + a.len()
}
"#,
    r#"fn k_int_traits(a: u32, b: u32) -> u32 {
    let (s, _) = a.overflowing_add(b);
    let (m, _) = a.overflowing_mul(b);
    let w = a.wrapping_sub(b);
    let c = a.checked_add(b).unwrap_or(1);
    let t = a.saturating_sub(b);
    s ^ m ^ w ^ c ^ t ^ Bounded::<u32>::MAX
}
"#,
    r#"fn k_wide_mul(a: u64, b: u64) -> u128 {
    a.wide_mul(b)
}
"#,
    r#"fn k_sqrt(a: u128) -> u64 {
    a.sqrt()
}
"#,
    r#"fn k_pow(a: u32) -> u32 {
    (a % 5).pow(3)
}
"#,
    r#"fn k_u256(a: u256, b: u256) -> u256 {
    if b.is_zero() {
        a
    } else {
        a / b + a % b + (a & b) + (a | 1)
    }
}
"#,
    r#"fn k_u256_overflow(a: u256, b: u256) -> bool {
    let (_, o) = a.overflowing_add(b);
    o
}
"#,
    r#"fn k_signed(a: i32, b: i32) -> i32 {
    if b == 0 {
        -a
    } else {
        a / b + a % b
    }
}
"#,
    r#"fn k_felt_conv(a: felt252) -> u64 {
    let x: Option<u64> = a.try_into();
    x.unwrap_or(3)
}
"#,
    r#"fn k_poseidon(a: felt252) -> felt252 {
    PoseidonTrait::new().update(a).update_with(7_u32).finalize()
}
"#,
    r#"fn k_pedersen(a: felt252) -> felt252 {
    PedersenTrait::new(a).update(3).finalize()
}
"#,
    r#"fn k_ec(x: felt252) -> felt252 {
    match EcPointTrait::new_nz_from_x(x) {
        Option::Some(p) => {
            let mut s = EcStateTrait::init();
            s.add_mul(3, p);
            match s.finalize_nz() {
                Option::Some(q) => q.x(),
                Option::None => 0,
            }
        },
        Option::None => 1,
    }
}
"#,
    r#"fn k_keccak(a: u64) -> u256 {
    core::keccak::keccak_u256s_le_inputs(array![a.into(), 1].span())
}
"#,
    r#"fn k_sha256(a: u32) -> u32 {
    let [x, _, _, _, _, _, _, _] = core::sha256::compute_sha256_u32_array(array![a, 2], 0, 0);
    x
}
"#,
    r#"fn k_serde(a: u32, b: u64) -> felt252 {
    let mut out: Array<felt252> = array![];
    (a, b, array![a]).serialize(ref out);
    let mut sp = out.span();
    let back: (u32, u64, Array<u32>) = Serde::deserialize(ref sp).unwrap();
    let (x, _, _) = back;
    x.into() + out.len().into()
}
"#,
    r#"fn k_box_nullable(a: u32) -> u32 {
    let b = BoxTrait::new(a);
    let n: Nullable<u32> = NullableTrait::new(a + 1);
    b.unbox() + n.deref()
}
"#,
    r#"fn k_bytes31(a: u128) -> felt252 {
    let b: bytes31 = a.into();
    b.into()
}
"#,
    r#"fn k_panic(a: u32) -> u32 {
    assert!(a != 77, "seventy-seven {}", a);
    a
}
"#,
    r#"fn k_bool(a: bool, b: bool) -> bool {
    (a & b) | (a ^ b) | !a
}
"#,
    r#"fn k_cmp(a: u64, b: u64) -> u64 {
    core::cmp::max(a, b) - core::cmp::min(a, b)
}
"#,
    r#"fn k_clone_partial_eq(a: u32) -> bool {
    let x = array![a, 2];
    let y = x.clone();
    x == y
}
"#,
    r#"fn k_while_let(a: u32) -> u32 {
    let mut arr = array![a, 2, 3];
    let mut t = 0;
    while let Option::Some(v) = arr.pop_front() {
        t += v;
    }
    t
}
"#,
    r#"fn k_fixed_array(a: u32) -> u32 {
    let f = [a, 2, 3];
    let [x, y, z] = f;
    let s = f.span();
    x + y + z + s.len()
}
"#,
    r#"fn k_div_rem(a: u128, b: u128) -> u128 {
    match b.try_into() {
        Option::Some(nz) => {
            let (q, r) = DivRem::div_rem(a, nz);
            q + r
        },
        Option::None => 0,
    }
}
"#,
    r#"fn k_felt_div(a: felt252, b: felt252) -> felt252 {
    match b.try_into() {
        Option::Some(nz) => core::felt252_div(a, nz),
        Option::None => 0,
    }
}
"#,
    // Containers over non-copyable elements (added after seeded change C15-r3: a libfunc signature that
    // is only wrong for non-duplicatable element types).
    r#"fn n_span_multi_pop_front(a: Array<Array<felt252>>) -> usize {
    let mut s = a.span();
    match s.multi_pop_front::<2>() {
        Option::Some(b) => {
            let arr: @[Array<felt252>; 2] = b.as_snapshot().unbox();
            arr.span().len() + s.len()
        },
        Option::None => 0,
    }
}
"#,
    r#"fn n_span_multi_pop_back(a: Array<ByteArray>) -> usize {
    let mut s = a.span();
    match s.multi_pop_back::<3>() {
        Option::Some(b) => {
            let arr: @[ByteArray; 3] = b.as_snapshot().unbox();
            let sp = arr.span();
            sp.at(0).len() + sp.at(2).len() + s.len()
        },
        Option::None => 1,
    }
}
"#,
    r#"fn n_span_pop_front(a: Array<Array<u8>>) -> usize {
    let mut s = a.span();
    let mut t = 0;
    while let Option::Some(x) = s.pop_front() {
        t += x.len();
    }
    t
}
"#,
    r#"fn n_span_get(a: Array<Array<felt252>>, i: usize) -> usize {
    match a.span().get(i) {
        Option::Some(b) => b.unbox().len(),
        Option::None => 99,
    }
}
"#,
    r#"fn n_array_of_arrays(x: felt252) -> usize {
    let mut outer: Array<Array<felt252>> = array![];
    outer.append(array![x, 1]);
    outer.append(array![x]);
    let first = outer.pop_front().unwrap();
    let mut first = first;
    first.append(3);
    first.len() + outer.len()
}
"#,
    r#"fn n_option_array(x: felt252, some: bool) -> usize {
    let o: Option<Array<felt252>> = if some { Option::Some(array![x, x]) } else { Option::None };
    match o {
        Option::Some(mut a) => { a.append(1); a.len() },
        Option::None => 0,
    }
}
"#,
    r#"fn n_box_array(x: felt252) -> usize {
    let b = BoxTrait::new(array![x, 2, 3]);
    let mut a = b.unbox();
    a.append(4);
    a.len()
}
"#,
    r#"fn n_nullable_array(x: felt252, some: bool) -> usize {
    let n: Nullable<Array<felt252>> = if some { NullableTrait::new(array![x]) } else { Default::default() };
    match match_nullable(n) {
        FromNullableResult::Null => 0,
        FromNullableResult::NotNull(b) => b.unbox().len() + 1,
    }
}
"#,
    r#"fn n_dict_nullable_span(x: felt252) -> usize {
    let mut d: Felt252Dict<Nullable<Span<felt252>>> = Default::default();
    d.insert(1, NullableTrait::new(array![x, 2].span()));
    let v = d.get(1);
    match match_nullable(v) {
        FromNullableResult::Null => 0,
        FromNullableResult::NotNull(b) => b.unbox().len(),
    }
}
"#,
    r#"fn n_span_slice(a: Array<Array<felt252>>) -> usize {
    let s = a.span();
    if s.len() < 2 {
        return 0;
    }
    let t = s.slice(1, s.len() - 1);
    t.at(0).len()
}
"#,
    r#"fn n_tuple_snapshot(x: felt252) -> usize {
    let pair = (array![x], array![x, x]);
    let (a, b) = @pair;
    let r = a.len() + b.len();
    let (mut c, _d) = pair;
    c.append(1);
    r + c.len()
}
"#,
    r#"fn n_span_multi_pop_tuple(a: Array<(u8, Array<felt252>)>) -> usize {
    let mut s = a.span();
    match s.multi_pop_front::<1>() {
        Option::Some(b) => {
            let arr: @[(u8, Array<felt252>); 1] = b.as_snapshot().unbox();
            arr.span().len()
        },
        Option::None => 0,
    }
}
"#,
    r#"fn n_bytearray_array(x: u8) -> usize {
    let mut names: Array<ByteArray> = array![];
    names.append(format!("n{}", x));
    names.append("abc");
    let mut t = 0;
    for n in names.span() {
        t += n.len();
    }
    t
}
"#,
    // Items of every feature kind (deprecated with and without the allowing attribute, unstable module,
    // unstable trait): added after seeded change C20-r3 (the cache decoded `Deprecated` as `Internal`).
    r#"fn f_deprecated_item(a: u128, b: u128) -> u128 {
    core::integer::u128_wrapping_add(a, b)
}
"#,
    r#"fn f_deprecated_item_allowed(a: u128, b: u128) -> u128 {
    core::integer::u128_wrapping_sub(a, b)
}
"#,
    r#"fn f_unstable_module(a: u8) -> u16 {
    core::internal::bounded_int::upcast(a)
}
"#,
    r#"fn f_unstable_trait(a: @ByteArray) -> usize {
    core::byte_array::ByteSpanTrait::len(core::byte_array::ToByteSpanTrait::span(a))
}
"#,
    r#"fn f_deprecated_allowed_by_lint(a: u64, b: u64) -> u128 {
    core::integer::u64_wide_mul(a, b)
}
"#,
];
