pub mod textmut;
pub mod layout;
pub mod prog;
pub mod sierra_args;
pub mod rare;
pub mod constexpr;
pub mod sierramut;
pub mod own;
