pub mod textmut;
pub mod layout;
