pub mod textmut;
