pub mod textmut;
pub mod layout;
pub mod prog;
