//! Text generators for the front-end properties (C09, C10, C11 layout mutants, C13 edits).
//! Everything is driven by a choice sequence; the "rough lexer" here is my own (independent of the
//! repo's lexer) and only needs to cut texts into plausible tokens for mutation purposes.

use crate::core::choices::Choices;

#[derive(Clone, Copy, PartialEq, Eq, Debug)]
pub enum TokKind {
    Ws,
    Comment,
    Ident,
    Number,
    Str,
    Punct,
    Other,
}

#[derive(Clone, Debug)]
pub struct Tok {
    pub kind: TokKind,
    pub start: usize,
    pub end: usize,
}

const PUNCT3: [&str; 1] = ["..="];
const PUNCT2: [&str; 23] = [
    "::", "->", "=>", "==", "!=", "<=", ">=", "&&", "||", "+=", "-=", "*=", "/=", "%=", "..", "<<",
    ">>", "&=", "|=", "^=", "#[", "#!", "//",
];

/// Rough tokenizer: never fails, covers every byte exactly once.
pub fn rough_lex(s: &str) -> Vec<Tok> {
    let b = s.as_bytes();
    let mut out = vec![];
    let mut i = 0;
    while i < b.len() {
        let c = b[i];
        let start = i;
        let kind;
        if c.is_ascii_whitespace() {
            while i < b.len() && b[i].is_ascii_whitespace() {
                i += 1;
            }
            kind = TokKind::Ws;
        } else if c == b'/' && i + 1 < b.len() && b[i + 1] == b'/' {
            while i < b.len() && b[i] != b'\n' {
                i += 1;
            }
            kind = TokKind::Comment;
        } else if c.is_ascii_alphabetic() || c == b'_' {
            while i < b.len() && (b[i].is_ascii_alphanumeric() || b[i] == b'_') {
                i += 1;
            }
            kind = TokKind::Ident;
        } else if c.is_ascii_digit() {
            while i < b.len() && (b[i].is_ascii_alphanumeric() || b[i] == b'_') {
                i += 1;
            }
            kind = TokKind::Number;
        } else if c == b'"' || c == b'\'' {
            i += 1;
            while i < b.len() && b[i] != c && b[i] != b'\n' {
                if b[i] == b'\\' && i + 1 < b.len() {
                    i += 1;
                }
                i += 1;
            }
            if i < b.len() && b[i] == c {
                i += 1;
            }
            // Optional suffix.
            while i < b.len() && (b[i].is_ascii_alphanumeric() || b[i] == b'_') {
                i += 1;
            }
            kind = TokKind::Str;
        } else if c < 0x80 {
            let rest = &s[i..];
            if PUNCT3.iter().any(|p| rest.starts_with(p)) {
                i += 3;
            } else if PUNCT2.iter().any(|p| rest.starts_with(p)) {
                i += 2;
            } else {
                i += 1;
            }
            kind = TokKind::Punct;
        } else {
            // One full UTF-8 scalar.
            i += 1;
            while i < b.len() && (b[i] & 0xC0) == 0x80 {
                i += 1;
            }
            kind = TokKind::Other;
        }
        // Keep boundaries on char boundaries.
        while i < b.len() && !s.is_char_boundary(i) {
            i += 1;
        }
        out.push(Tok { kind, start, end: i });
    }
    out
}

/// Dictionary of every terminal spelling plus stress literals.
pub const DICT: &[&str] = &[
    "as", "break", "const", "continue", "else", "enum", "extern", "false", "fn", "for", "if",
    "impl", "implicits", "let", "loop", "macro", "match", "mod", "mut", "nopanic", "of", "pub",
    "ref", "return", "struct", "trait", "true", "type", "use", "while", "in", "super", "crate",
    "self", "Self", "where", "dyn", "static", "unsafe", "&", "&&", "->", "@", "~", ":", "::", ",",
    "/", "/=", ".", "..", "..=", "=", "==", ">=", ">", "#", "{", "[", "<=", "(", "<", "=>", "-",
    "-=", "%", "%=", "*", "*=", "!=", "!", "|", "||", "+", "+=", "?", "}", "]", ")", ";", "_",
    "^", "$", "&=", "|=", "^=", "<<", ">>", "x", "a", "b", "foo", "T", "felt252", "u8", "u128",
    "u256", "i8", "bool", "Array", "Option", "Some", "None", "Result", "Ok", "Err", "core",
    "array", "println", "assert", "panic", "format", "write", "print", "consteval_int",
    "selector", "array!", "println!", "assert!", "format!", "panic!", "write!", "0", "1", "2",
    "0x0", "0xff", "0b101", "0o17", "1_u8", "255_u8", "256_u8", "-1", "-128_i8",
    "340282366920938463463374607431768211455", "340282366920938463463374607431768211456",
    "3618502788666131213697322783095070105623107215331596699973092056135872020481",
    "99999999999999999999999999999999999999999999999999999999999999999999999999999999999",
    "0x", "0b", "0o", "1_", "1_u", "1_u7", "1__u8", "1e5", "1.5", "1.", ".5", "'a'", "''", "'ab'",
    "'abcdefghijklmnopqrstuvwxyz12345'", "'abcdefghijklmnopqrstuvwxyz123456'", "'\\n'", "'\\x41'",
    "'\\x4'", "'\\u{41}'", "'\\'", "'", "\"\"", "\"abc\"", "\"a\\\"b\"", "\"\\x\"", "\"\\u{110000}\"",
    "\"\\u{}\"", "\"unterminated", "'unterminated", "\"{}\"", "\"{:?}\"", "\"{x}\"", "\"{\"", "\"}\"",
    "\"{{}}\"", "\"{0}\"", "\"{:x}\"", "\"{a:?}{}\"", "#[derive(Drop)]", "#[derive(", "#[inline]",
    "#[cfg(test)]", "#[test]", "#[available_gas(", "#[should_panic(expected:", "#[starknet::contract]",
    "#[storage]", "#[external(v0)]", "#[abi(embed_v0)]", "#[generate_trait]", "#[event]",
    "#[derive(starknet::Event)]", "#[starknet::interface]", "#[feature(\"x\")]", "#[doc(hidden)]",
    "#[phantom]", "#[must_use]", "#[flat]", "#[key]", "#[substorage(v0)]", "#[executable]",
    "#![feature(", "//", "///", "//!", "// c\n", "/// d\n", "//! m\n", "\n", " ", "\t", "\r\n", "\r",
    "\u{00a0}", "\u{feff}", "é", "λ", "中", "\u{1F600}", "\0", "\u{7f}", "\\", "`", "$x", "$(", ")*",
    "$x:expr", "$($x:ident),*", "impl<T>", "<T, +Drop<T>>", "<T, -Copy<T>>", "<const N: usize>",
    "[u8; 3]", "[1; 3]", "(a,)", "()", "@a", "*a", "&a", "!a", "-a", "a?", "a.b", "a.0", "a[0]",
    "a::<T>", "a::b", "|x| x", "|| {}", "|a, b: u8| -> u8 { a }", "..a", "a..b", "a..=b",
    "Some(x)", "A { a, .. }", "A { a: 1 }", "_ => {}", "x if y => z,", "if let Some(x) = y {",
    "while let Some(x) = y {", "let Some(x) = y else { return; };", "let (a, b) = c;",
    "let A { a } = c;", "for i in 0..10_u32 {", "loop { break; }", "return;", "break 1;",
    "continue;", "match x {", "fn f() {", "fn f<T>(a: T) -> T {", "struct A {", "enum E {",
    "trait T {", "impl I of T {", "mod m {", "mod m;", "use a::b;", "use a::{b, c};", "use a::*;",
    "use a::b as c;", "const C: u8 = 1;", "type T = u8;", "impl X = Y;", "extern fn f() nopanic;",
    "extern type T;", "pub(crate)", "pub(super)", "pub(in", "macro m {", "($x:expr) => {",
];

#[derive(Clone, Debug)]
pub struct TextCase {
    /// Path of the corpus file the case started from ("" for soups).
    pub origin: String,
    pub mutations: Vec<String>,
    pub text: String,
}

/// Picks a window of a corpus text: whole file, or a contiguous range of lines.
pub fn pick_window(ch: &mut Choices, text: &str, max_bytes: usize) -> String {
    let lines: Vec<&str> = text.split_inclusive('\n').collect();
    let whole = ch.chance(1, 4);
    if whole && text.len() <= max_bytes {
        return text.to_string();
    }
    if lines.is_empty() {
        return String::new();
    }
    let n = lines.len();
    let len = 1 + ch.below(n.min(120));
    let start = ch.below(n - len + 1);
    let mut out = String::new();
    for l in &lines[start..start + len] {
        if out.len() + l.len() > max_bytes {
            break;
        }
        out.push_str(l);
    }
    out
}

fn char_floor(s: &str, mut i: usize) -> usize {
    i = i.min(s.len());
    while !s.is_char_boundary(i) {
        i -= 1;
    }
    i
}

const STRESS_CHARS: &[&str] = &[
    "\0", "\u{7f}", "\u{80}", "é", "\u{feff}", "\u{2028}", "\u{1F600}", "\"", "'", "\\", "/", "{",
    "}", "(", ")", "[", "]", "<", ">", "#", "!", "$", "`", "\r", "\n", "\t", " ", ";", ",", ":", "0",
    "_", ".", "=", "|", "&", "-", "*", "?", "@", "~", "%", "^", "+",
];

/// One byte-level mutation (kept valid UTF-8 by operating on char boundaries).
pub fn mutate_bytes(ch: &mut Choices, s: &mut String, log: &mut Vec<String>) {
    let kind = ch.below(6);
    let pos = char_floor(s, ch.below(s.len() + 1));
    match kind {
        0 => {
            // delete a short run
            let end = char_floor(s, pos + 1 + ch.below(8));
            let end = end.max(pos);
            if end > pos {
                s.replace_range(pos..end, "");
            }
            log.push(format!("del@{pos}"));
        }
        1 => {
            let c = *ch.pick(STRESS_CHARS);
            s.insert_str(pos, c);
            log.push(format!("ins@{pos}:{c:?}"));
        }
        2 => {
            // replace one char
            if pos < s.len() {
                let end = pos + s[pos..].chars().next().map(|c| c.len_utf8()).unwrap_or(0);
                let c = *ch.pick(STRESS_CHARS);
                s.replace_range(pos..end, c);
                log.push(format!("repl@{pos}:{c:?}"));
            }
        }
        3 => {
            // truncate
            s.truncate(pos);
            log.push(format!("trunc@{pos}"));
        }
        4 => {
            // duplicate a run
            let end = char_floor(s, pos + 1 + ch.below(40));
            if end > pos {
                let run = s[pos..end].to_string();
                s.insert_str(pos, &run);
                log.push(format!("dup@{pos}+{}", end - pos));
            }
        }
        _ => {
            // splice from elsewhere in the same text
            let from = char_floor(s, ch.below(s.len() + 1));
            let to = char_floor(s, from + 1 + ch.below(60));
            if to > from {
                let run = s[from..to].to_string();
                s.insert_str(pos, &run);
                log.push(format!("splice {from}..{to}@{pos}"));
            }
        }
    }
}

/// One token-level mutation on the rough token stream.
pub fn mutate_tokens(ch: &mut Choices, s: &mut String, log: &mut Vec<String>) {
    let toks = rough_lex(s);
    let sig: Vec<usize> =
        (0..toks.len()).filter(|i| !matches!(toks[*i].kind, TokKind::Ws)).collect();
    if sig.is_empty() {
        s.push_str(*ch.pick(DICT));
        return;
    }
    let ti = sig[ch.below(sig.len())];
    let t = toks[ti].clone();
    match ch.below(7) {
        0 => {
            s.replace_range(t.start..t.end, "");
            log.push(format!("tokdel@{}", t.start));
        }
        1 => {
            let d = s[t.start..t.end].to_string();
            s.insert_str(t.end, &format!(" {d}"));
            log.push(format!("tokdup@{}", t.start));
        }
        2 => {
            let tj = sig[ch.below(sig.len())];
            let u = toks[tj].clone();
            if u.end <= t.start || t.end <= u.start {
                let (a, b) = if t.start < u.start { (t, u) } else { (u, t) };
                let sa = s[a.start..a.end].to_string();
                let sb = s[b.start..b.end].to_string();
                s.replace_range(b.start..b.end, &sa);
                s.replace_range(a.start..a.end, &sb);
                log.push(format!("tokswap@{}/{}", a.start, b.start));
            }
        }
        3 => {
            let d = *ch.pick(DICT);
            s.replace_range(t.start..t.end, d);
            log.push(format!("tokrepl@{}:{d:?}", t.start));
        }
        4 => {
            let d = *ch.pick(DICT);
            s.insert_str(t.start, &format!("{d} "));
            log.push(format!("tokins@{}:{d:?}", t.start));
        }
        5 => {
            s.truncate(t.start);
            log.push(format!("toktrunc@{}", t.start));
        }
        _ => {
            // Same-kind replacement from elsewhere in the text (keeps it plausible).
            let same: Vec<usize> =
                sig.iter().copied().filter(|j| toks[*j].kind == t.kind && *j != ti).collect();
            if !same.is_empty() {
                let u = toks[same[ch.below(same.len())]].clone();
                let su = s[u.start..u.end].to_string();
                s.replace_range(t.start..t.end, &su);
                log.push(format!("toksame@{}", t.start));
            }
        }
    }
}

/// Finds balanced `{..}`/`(..)`/`[..]` groups on the rough token stream: (start, end) byte ranges.
pub fn balanced_groups(s: &str) -> Vec<(usize, usize)> {
    let toks = rough_lex(s);
    let mut stack: Vec<(u8, usize)> = vec![];
    let mut out = vec![];
    for t in &toks {
        if t.kind != TokKind::Punct || t.end - t.start != 1 {
            continue;
        }
        let c = s.as_bytes()[t.start];
        match c {
            b'{' | b'(' | b'[' => stack.push((c, t.start)),
            b'}' | b')' | b']' => {
                let open = match c {
                    b'}' => b'{',
                    b')' => b'(',
                    _ => b'[',
                };
                if let Some((o, st)) = stack.last().copied() {
                    if o == open {
                        stack.pop();
                        out.push((st, t.end));
                    }
                }
            }
            _ => {}
        }
    }
    out
}

/// Subtree-level mutation: delete / duplicate / transplant a balanced group (possibly from another
/// corpus text).
pub fn mutate_subtree(ch: &mut Choices, s: &mut String, donor: &str, log: &mut Vec<String>) {
    let groups = balanced_groups(s);
    if groups.is_empty() {
        return;
    }
    let (a, b) = groups[ch.below(groups.len())];
    match ch.below(4) {
        0 => {
            s.replace_range(a..b, "");
            log.push(format!("subdel {a}..{b}"));
        }
        1 => {
            let g = s[a..b].to_string();
            s.insert_str(b, &g);
            log.push(format!("subdup {a}..{b}"));
        }
        2 => {
            let dg = balanced_groups(donor);
            if !dg.is_empty() {
                let (c, d) = dg[ch.below(dg.len())];
                if d - c < 4000 {
                    s.replace_range(a..b, &donor[c..d]);
                    log.push(format!("subtransplant {a}..{b} <- donor {c}..{d}"));
                }
            }
        }
        _ => {
            // Drop only the closing or the opening delimiter.
            if ch.bool() {
                s.replace_range(b - 1..b, "");
                log.push(format!("dropclose@{}", b - 1));
            } else {
                s.replace_range(a..a + 1, "");
                log.push(format!("dropopen@{a}"));
            }
        }
    }
}

/// Nesting stressor up to `max_depth` levels.
pub fn depth_stress(ch: &mut Choices, max_depth: usize) -> String {
    let depth = 1 + ch.below(max_depth);
    const SHAPES: &[(&str, &str)] = &[
        ("(", ")"),
        ("[", "]"),
        ("{", "}"),
        ("-", ""),
        ("!", ""),
        ("@", ""),
        ("*", ""),
        ("&", ""),
        ("~", ""),
        ("f(", ")"),
        ("if x { ", " }"),
        ("match x { _ => ", " }"),
        ("loop { ", " }"),
        ("(1, ", ")"),
        ("[1, ", "]"),
        ("A { a: ", " }"),
        ("a + ", ""),
        ("a.b(", ")"),
        ("|x| ", ""),
        ("Some(", ")"),
        ("a::<", ">"),
        ("array![", "]"),
        ("{ let x = ", "; x }"),
        ("x[", "]"),
        ("if let Some(y) = ", " { }"),
        ("!(", ")"),
    ];
    let mixed = ch.chance(1, 3);
    let base = ch.below(SHAPES.len());
    let mut open = String::new();
    let mut close = String::new();
    for _ in 0..depth {
        let (o, c) = if mixed { SHAPES[ch.below(SHAPES.len())] } else { SHAPES[base] };
        open.push_str(o);
        close.insert_str(0, c);
    }
    let ctx = ch.below(7);
    let close_it = !ch.chance(1, 4);
    let inner = if close_it { format!("{open}1{close}") } else { format!("{open}1") };
    match ctx {
        0 => format!("fn f() {{ let x = {inner}; }}\n"),
        1 => format!("const C: u8 = {inner};\n"),
        2 => format!("fn f(a: {}) {{}}\n", type_nest(depth, close_it)),
        3 => format!("fn f() {{ match x {{ {} => 1, _ => 2 }} }}\n", pat_nest(depth, close_it)),
        4 => {
            let mut s = String::new();
            for i in 0..depth {
                s.push_str(&format!("mod m{i} {{ "));
            }
            if close_it {
                for _ in 0..depth {
                    s.push_str("} ");
                }
            }
            s
        }
        5 => format!("use {}a{};\n", "a::{".repeat(depth), if close_it { "}".repeat(depth) } else { String::new() }),
        _ => format!("#[a({})]\nfn f() {{}}\n", inner),
    }
}

fn type_nest(depth: usize, close: bool) -> String {
    let mut s = String::new();
    for _ in 0..depth {
        s.push_str("Array<");
    }
    s.push_str("u8");
    if close {
        for _ in 0..depth {
            s.push('>');
        }
    }
    s
}
fn pat_nest(depth: usize, close: bool) -> String {
    let mut s = String::new();
    for _ in 0..depth {
        s.push_str("Some(");
    }
    s.push('x');
    if close {
        for _ in 0..depth {
            s.push(')');
        }
    }
    s
}

/// A token soup from the dictionary.
pub fn token_soup(ch: &mut Choices) -> String {
    let n = 1 + ch.below(60);
    let mut s = String::new();
    for _ in 0..n {
        s.push_str(*ch.pick(DICT));
        match ch.below(8) {
            0 => {}
            1 => s.push('\n'),
            _ => s.push(' '),
        }
    }
    s
}

/// Full generator used by C09/C10: (corpus) -> TextCase.
/// Inserts a line comment whose last character is multi-byte (or a bare CR) after a structural
/// token or at a line boundary, and sometimes cuts the text right after it (comment at end of file,
/// inside an open brace / list).
pub fn mutate_comment(ch: &mut Choices, s: &mut String, log: &mut Vec<String>) {
    let toks = rough_lex(s);
    let anchors: Vec<usize> = toks
        .iter()
        .filter(|t| matches!(&s[t.start..t.end], "{" | "(" | "[" | ";" | "," | "}" | "=>" | "=" | "->") || (t.kind == TokKind::Ws && s[t.start..t.end].contains('\n')))
        .map(|t| t.end)
        .collect();
    let pos = if anchors.is_empty() { s.len() } else { anchors[ch.below(anchors.len())] };
    let c = *ch.pick(&["\n// \u{e9}", "\n// \u{4e2d}\n", " // x\u{3bb}", "\n/// \u{e9}", "\n//! \u{1F600}", "\n//\u{e9}", " // a\r", "\n// \u{e9}\r\n", "\n    // \u{e9}\u{e9}"]);
    s.insert_str(pos, c);
    if ch.chance(1, 3) {
        s.truncate(pos + c.len());
        log.push(format!("comment+cut@{pos}:{c:?}"));
    } else {
        log.push(format!("comment@{pos}:{c:?}"));
    }
}

/// Attribute with a generated argument list (arity 0..3, nested call-like arguments, named
/// arguments, strings) on a small item: the argument shapes attribute plugins have to reject.
pub fn attr_soup(ch: &mut Choices) -> String {
    const NAMES: &[&str] = &[
        "cfg", "derive", "inline", "feature", "allow", "must_use", "implicit_precedence", "generate_trait", "starknet::contract",
        "starknet::interface", "starknet::component", "storage", "event", "external", "abi", "constructor", "l1_handler", "test",
        "should_panic", "available_gas", "ignore", "doc", "flat", "key", "substorage", "phantom", "default", "executable", "cairofmt::skip",
        "embeddable", "embeddable_as", "starknet::embeddable", "per_item", "nested", "unstable", "deprecated", "internal", "rename", "serde",
        "sub_pointers", "starknet::storage_node", "starknet::store", "external_attr_validation", "expand", "hidden",
        // The remaining attribute names the crates declare (`*_ATTR` constants), added after seeded change C09-r3.
        "panic_with", "panic_with", "allow_attr", "executable_raw", "raw_output", "group", "path", "target_function", "starknet::forward_impl",
        "starknet::colliding_storage_paths", "starknet::invalid_storage_member_types", "starknet::store_no_default_variant", "starknet::sub_pointers",
    ];
    // Return types of the functions the attributes sit on: well-formed and ill-formed generic argument lists.
    const RETS: &[&str] = &[
        "", " -> u8", " -> Option<u8>", " -> Result<u8, felt252>", " -> Option<>", " -> Result<>", " -> Option<u8, u8>", " -> Result<u8>", " -> Option",
        " -> Option<Option<>>", " -> (u8,)", " -> ()", " -> Array<>", " -> [u8; 0]", " -> core::option::Option::<>", " -> Result<(), ()>", " -> !",
    ];
    const WORDS: &[&str] = &["not", "and", "or", "feature", "target", "test", "v0", "embed_v0", "per_item", "expected", "a", "b", "Drop", "Copy", "Serde", "PartialEq", "core::RangeCheck", "always", "never", "\"x\"", "\"\"", "1", "0", "-1", "'s'", "true", "_", "Self", "T", "u8"];
    fn arg(ch: &mut Choices, depth: usize) -> String {
        match ch.weighted(&[4, if depth < 3 { 4 } else { 0 }, 2, 1, 1]) {
            0 => (*ch.pick(WORDS)).to_string(),
            1 => {
                let n = ch.below(4);
                let inner: Vec<String> = (0..n).map(|_| arg(ch, depth + 1)).collect();
                format!("{}({})", ch.pick(WORDS), inner.join(", "))
            }
            2 => format!("{}: {}", ch.pick(WORDS), arg(ch, depth + 1)),
            3 => format!(":{}", ch.pick(WORDS)),
            _ => String::new(),
        }
    }
    let mut out = String::new();
    let n_items = 1 + ch.below(3);
    for k in 0..n_items {
        let n_attrs = 1 + ch.below(3);
        for _ in 0..n_attrs {
            let name = *ch.pick(NAMES);
            let shape = ch.below(6);
            let n = ch.below(4);
            let args: Vec<String> = (0..n).map(|_| arg(ch, 0)).collect();
            let bang = if ch.chance(1, 12) { "!" } else { "" };
            // Well-formed arguments for the attributes that validate them, so that the item behind
            // the attribute is reached by the plugin.
            let canonical = match name {
                "panic_with" => Some("('msg', pw)"),
                "derive" => Some("(Drop, Copy, Serde, PartialEq, Debug, Default, Hash, Clone, Destruct, PanicDestruct)"),
                "inline" => Some("(always)"),
                "cfg" => Some("(test)"),
                "feature" => Some("(\"x\")"),
                "should_panic" => Some("(expected: 'a')"),
                "available_gas" => Some("(100)"),
                "implicit_precedence" => Some("(core::RangeCheck)"),
                "embeddable_as" => Some("(X)"),
                "doc" => Some("(hidden)"),
                "deprecated" => Some("(feature: \"x\", note: \"n\")"),
                "unstable" | "internal" => Some("(feature: \"x\")"),
                "allow" => Some("(unused_variables)"),
                _ => None,
            };
            if let (Some(c), true) = (canonical, shape >= 4) {
                out.push_str(&format!("#{bang}[{name}{c}]\n"));
                continue;
            }
            match shape {
                0 => out.push_str(&format!("#{bang}[{name}]\n")),
                1 => out.push_str(&format!("#{bang}[{name}()]\n")),
                _ => out.push_str(&format!("#{bang}[{name}({})]\n", args.join(", "))),
            }
        }
        let pick = ch.below(12);
        if pick >= 9 {
            let ret = *ch.pick(RETS);
            let name = ["f", "try_bar", "g"][ch.below(3)];
            out.push_str(&match pick {
                9 => format!("extern fn {name}(a: felt252){ret} nopanic;\n"),
                10 => format!("fn {name}(a: felt252){ret} {{ loop {{}} }}\n"),
                _ => format!("trait T{k} {{ fn {name}(a: felt252){ret}; }}\n"),
            });
            continue;
        }
        out.push_str(match pick {
            0 => "fn f() {}\n",
            1 => "struct S { #[key] a: felt252, b: u8 }\n",
            2 => "enum E { A, #[default] B: u8 }\n",
            3 => "mod m { #[cfg(not())] fn g() {} }\n",
            4 => "impl I of T { #[inline()] fn h(self: @u8) {} }\n",
            5 => "trait T { #[must_use()] fn h(self: @u8); }\n",
            6 => "use core::array;\n",
            7 => "const C: u8 = 1;\n",
            _ => "mod c { #[storage] struct Storage {} }\n",
        });
        if k + 1 < n_items && ch.chance(1, 4) {
            out.push_str("#[cfg(and(not(), or()))]\n");
        }
    }
    out
}

pub fn gen_text(ch: &mut Choices, corpus: &[(String, String)], max_bytes: usize) -> TextCase {
    let mode = ch.weighted(&[12, 2, 2, 1]);
    match mode {
        1 => {
            let text = token_soup(ch);
            TextCase { origin: String::new(), mutations: vec!["soup".into()], text }
        }
        3 => {
            let text = attr_soup(ch);
            TextCase { origin: String::new(), mutations: vec!["attributes".into()], text }
        }
        2 => {
            let text = depth_stress(ch, 200);
            TextCase { origin: String::new(), mutations: vec!["depth".into()], text }
        }
        _ => {
            let fi = ch.below(corpus.len());
            let (path, content) = &corpus[fi];
            let mut text = pick_window(ch, content, max_bytes);
            let mut log = vec![];
            let n = 1 + ch.below(4);
            for _ in 0..n {
                match ch.weighted(&[6, 10, 4, 1]) {
                    0 => mutate_bytes(ch, &mut text, &mut log),
                    1 => mutate_tokens(ch, &mut text, &mut log),
                    3 => mutate_comment(ch, &mut text, &mut log),
                    _ => {
                        let di = ch.below(corpus.len());
                        mutate_subtree(ch, &mut text, &corpus[di].1, &mut log)
                    }
                }
                if text.len() > max_bytes {
                    let e = char_floor(&text, max_bytes);
                    text.truncate(e);
                }
            }
            TextCase { origin: path.clone(), mutations: log, text }
        }
    }
}
