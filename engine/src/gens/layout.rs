//! Layout-preserving mutations for C11/C13: rewrite whitespace, inject comments, drop optional
//! trailing commas. The token sequence is preserved by construction and verified by re-lexing.

use crate::core::choices::Choices;

const WS: &[&str] = &[" ", "\n", "\n\n", "  ", "\t", "\n    ", " \n", "\n\n\n", "        ", "\r\n"];
const WORDS: &[&str] = &[
    "note", "TODO(x):", "the", "value", "is", "checked", "here", "a_very_long_identifier_like_word_in_a_comment",
    "https://example.com/a/b/c?d=e", "1.", "-", "*", "```", "é", "{", "}", "//", "x == y",
];

fn glue_risk(a: &str, b: &str) -> bool {
    let la = a.chars().last().unwrap_or(' ');
    let fb = b.chars().next().unwrap_or(' ');
    let idl = |c: char| c.is_ascii_alphanumeric() || c == '_' || c == '\'' || c == '"' || !c.is_ascii();
    if idl(la) && idl(fb) {
        return true;
    }
    // Punctuation that may glue into another token.
    const P: &str = "<>=!&|+-*/%^.:#~?@$";
    P.contains(la) && P.contains(fb)
}

/// `segments`: (is_code, text) covering the input in order. Returns the mutated text and a log.
pub fn mutate_layout(
    ch: &mut Choices,
    segments: &[(bool, String)],
    inject_comments: bool,
) -> (String, Vec<String>) {
    // Group into code tokens and the gaps between them.
    let mut toks: Vec<&str> = vec![];
    let mut gaps: Vec<String> = vec![String::new()];
    for (is_code, s) in segments {
        if *is_code {
            toks.push(s);
            gaps.push(String::new());
        } else {
            gaps.last_mut().unwrap().push_str(s);
        }
    }
    let mut log = vec![];
    let intensity = 1 + ch.below(6); // out of 8
    let mut out = String::new();
    for i in 0..=toks.len() {
        let gap = &gaps[i];
        let prev = if i > 0 { Some(toks[i - 1]) } else { None };
        let next = toks.get(i).copied();
        let has_comment = gap.contains("//");
        let mut new_gap = gap.clone();
        if ch.below(8) < intensity {
            match ch.below(10) {
                0..=4 if !has_comment => {
                    // Rewrite whitespace.
                    if gap.is_empty() {
                        if ch.chance(1, 4) {
                            new_gap = ch.pick(WS).to_string();
                            log.push(format!("ws+@{i}"));
                        }
                    } else {
                        new_gap = ch.pick(WS).to_string();
                        log.push(format!("ws@{i}"));
                    }
                }
                5 if !has_comment => {
                    // Remove the gap when that cannot glue tokens.
                    if let (Some(a), Some(b)) = (prev, next) {
                        if !glue_risk(a, b) {
                            new_gap = String::new();
                            log.push(format!("ws-@{i}"));
                        }
                    }
                }
                6 | 7 if inject_comments => {
                    // Inject a comment.
                    let prefix = *ch.pick(&["//", "//", "//", "///", "//!"]);
                    let nw = ch.below(14);
                    let mut c = String::from(prefix);
                    for _ in 0..nw {
                        c.push(' ');
                        c.push_str(*ch.pick(WORDS));
                    }
                    let lead = if ch.bool() { " " } else { "\n" };
                    new_gap = format!("{gap}{lead}{c}\n");
                    log.push(format!("comment@{i}"));
                }
                _ => {
                    // Long-line stress: collapse a newline gap to a single space.
                    if !has_comment && gap.contains('\n') {
                        new_gap = " ".into();
                        log.push(format!("join@{i}"));
                    }
                }
            }
        }
        // Never glue.
        if new_gap.is_empty() {
            if let (Some(a), Some(b)) = (prev, next) {
                if glue_risk(a, b) && !gap.is_empty() {
                    new_gap = " ".into();
                }
            }
        }
        out.push_str(&new_gap);
        if let Some(t) = next {
            // Optional trailing comma removal: `,` directly before a closer (not in `( X ,)`;
            // the oracle's normalisation decides equality, re-lexing decides validity).
            if t == "," && ch.chance(1, 6) {
                if let Some(n2) = toks.get(i + 1) {
                    if matches!(*n2, "]" | "}") {
                        log.push(format!("comma-@{i}"));
                        continue;
                    }
                }
            }
            out.push_str(t);
        }
    }
    (out, log)
}
