//! Reference evaluator of the program IR over BigInt: an independent statement of the documented
//! source semantics (checked arithmetic with the corelib panic strings, left-to-right evaluation,
//! short-circuit logic, Serde layout of the result).

use std::collections::HashMap;

use num_bigint::BigInt;
use num_integer::Integer;
use num_traits::{One, Signed, Zero};

use crate::gens::prog::*;

#[derive(Clone, Debug, PartialEq)]
pub enum Val {
    Int(BigInt),
    Tup(Vec<Val>),
    Enum(usize, Option<Box<Val>>),
    Opt(Option<Box<Val>>),
}

pub enum Flow {
    Panic(Vec<BigInt>),
    Return(Val),
    /// The evaluator's own fuel ran out (not a program behaviour).
    OutOfFuel,
}

pub type R<T> = Result<T, Flow>;

pub fn short_string(s: &str) -> BigInt {
    let mut v = BigInt::zero();
    for b in s.bytes() {
        v = (v << 8) + BigInt::from(b);
    }
    v
}

fn panic_str<T>(s: &str) -> R<T> {
    Err(Flow::Panic(vec![short_string(s)]))
}

pub struct Interp<'a> {
    p: &'a Program,
    fuel: u64,
}

#[derive(Default)]
struct Frame {
    vars: Vec<(String, Val)>,
    arrays: HashMap<String, Vec<Val>>,
    spans: HashMap<String, Vec<Val>>,
    dicts: HashMap<String, HashMap<BigInt, BigInt>>,
}

impl Frame {
    fn get(&self, n: &str) -> Val {
        self.vars.iter().rev().find(|(k, _)| k == n).map(|(_, v)| v.clone()).unwrap_or_else(|| panic!("unbound variable {n}"))
    }
    fn set(&mut self, n: &str, v: Val) {
        let slot = self.vars.iter_mut().rev().find(|(k, _)| k == n).unwrap_or_else(|| panic!("unbound variable {n}"));
        slot.1 = v;
    }
}

fn int(v: &Val) -> &BigInt {
    match v {
        Val::Int(i) => i,
        _ => panic!("expected scalar"),
    }
}

fn tname(t: &Ty) -> String {
    match t {
        Ty::U(b) => format!("u{b}"),
        Ty::I(b) => format!("i{b}"),
        Ty::U256 => "u256".into(),
        _ => "felt252".into(),
    }
}

pub fn arith(op: BinOp, t: &Ty, a: &BigInt, b: &BigInt) -> R<BigInt> {
    let p = prime();
    if *t == Ty::Felt {
        let r = match op {
            BinOp::Add => a + b,
            BinOp::Sub => a - b,
            BinOp::Mul => a * b,
            _ => unreachable!("felt op"),
        };
        return Ok(r.mod_floor(&p));
    }
    let (min, max) = (t.min(), t.max());
    let n = tname(t);
    match op {
        BinOp::Add | BinOp::Sub | BinOp::Mul => {
            let (r, opn) = match op {
                BinOp::Add => (a + b, "add"),
                BinOp::Sub => (a - b, "sub"),
                _ => (a * b, "mul"),
            };
            if r > max {
                return panic_str(&format!("{n}_{opn} Overflow"));
            }
            if r < min {
                return if t.is_signed() && op != BinOp::Mul {
                    panic_str(&format!("{n}_{opn} Underflow"))
                } else {
                    panic_str(&format!("{n}_{opn} Overflow"))
                };
            }
            Ok(r)
        }
        BinOp::Div | BinOp::Rem => {
            if b.is_zero() {
                return panic_str("Division by 0");
            }
            if t.is_signed() && *a == min && *b == BigInt::from(-1) {
                return panic_str("attempt to divide with overflow");
            }
            // Truncated division; remainder takes the sign of the dividend.
            let q = a.abs() / b.abs();
            let q = if a.is_negative() != b.is_negative() { -q } else { q };
            let r = a - &q * b;
            Ok(if op == BinOp::Div { q } else { r })
        }
        BinOp::And => Ok(bitop(a, b, |x, y| x & y)),
        BinOp::Or => Ok(bitop(a, b, |x, y| x | y)),
        BinOp::Xor => Ok(bitop(a, b, |x, y| x ^ y)),
    }
}

fn bitop(a: &BigInt, b: &BigInt, f: impl Fn(&num_bigint::BigUint, &num_bigint::BigUint) -> num_bigint::BigUint) -> BigInt {
    let x = a.to_biguint().expect("unsigned");
    let y = b.to_biguint().expect("unsigned");
    BigInt::from(f(&x, &y))
}

/// Numeric conversion: Ok(Some(v)) if representable.
pub fn convert(from: &Ty, to: &Ty, v: &BigInt) -> Option<BigInt> {
    let p = prime();
    // Mathematical value of the source.
    let math = match from {
        Ty::Felt => {
            if to.is_signed() && *v > (&p >> 1) { v - &p } else { v.clone() }
        }
        _ => v.clone(),
    };
    match to {
        Ty::Felt => Some(math.mod_floor(&p)).filter(|_| *from != Ty::U256 || math < p),
        _ => {
            if math >= to.min() && math <= to.max() {
                Some(math)
            } else {
                None
            }
        }
    }
}

impl<'a> Interp<'a> {
    pub fn new(p: &'a Program) -> Self {
        Interp { p, fuel: 200_000 }
    }

    fn tick(&mut self) -> R<()> {
        if self.fuel == 0 {
            return Err(Flow::OutOfFuel);
        }
        self.fuel -= 1;
        Ok(())
    }

    fn block(&mut self, fr: &mut Frame, b: &Block) -> R<Val> {
        let mark = fr.vars.len();
        let r = (|| {
            for s in &b.stmts {
                self.stmt(fr, s)?;
            }
            self.expr(fr, &b.tail)
        })();
        fr.vars.truncate(mark);
        r
    }

    fn stmts(&mut self, fr: &mut Frame, ss: &[Stmt]) -> R<()> {
        let mark = fr.vars.len();
        let r = (|| {
            for s in ss {
                self.stmt(fr, s)?;
            }
            Ok(())
        })();
        fr.vars.truncate(mark);
        r
    }

    fn stmt(&mut self, fr: &mut Frame, s: &Stmt) -> R<()> {
        self.tick()?;
        match s {
            Stmt::Let(n, _, _, e) => {
                let v = self.expr(fr, e)?;
                fr.vars.push((n.clone(), v));
            }
            Stmt::Assign(n, e) => {
                let v = self.expr(fr, e)?;
                fr.set(n, v);
            }
            Stmt::OpAssign(n, op, t, e) => {
                let rhs = self.expr(fr, e)?;
                let cur = fr.get(n);
                let r = arith(*op, t, int(&cur), int(&rhs))?;
                fr.set(n, Val::Int(r));
            }
            Stmt::IfS(c, t, f) => {
                let c = self.expr(fr, c)?;
                if !int(&c).is_zero() {
                    self.stmts(fr, t)?;
                } else {
                    self.stmts(fr, f)?;
                }
            }
            Stmt::While(cn, lim, c, body) => {
                fr.vars.push((cn.clone(), Val::Int(BigInt::zero())));
                loop {
                    self.tick()?;
                    let i = int(&fr.get(cn)).clone();
                    if i >= BigInt::from(*lim) {
                        break;
                    }
                    let cv = self.expr(fr, c)?;
                    if int(&cv).is_zero() {
                        break;
                    }
                    self.stmts(fr, body)?;
                    fr.set(cn, Val::Int(i + 1));
                }
                // The counter stays in scope (declared before the loop in the enclosing block).
            }
            Stmt::ForRange(v, _, lo, hi, body) => {
                let lo = int(&self.expr(fr, lo)?).clone();
                let hi = int(&self.expr(fr, hi)?).clone();
                let mut i = lo;
                while i < hi {
                    self.tick()?;
                    let mark = fr.vars.len();
                    fr.vars.push((v.clone(), Val::Int(i.clone())));
                    let r = self.stmts(fr, body);
                    fr.vars.truncate(mark);
                    r?;
                    i += 1;
                }
            }
            Stmt::ForSpan(v, src, is_array, body) => {
                let items = if *is_array { fr.arrays[src].clone() } else { fr.spans[src].clone() };
                for it in items {
                    self.tick()?;
                    let mark = fr.vars.len();
                    fr.vars.push((v.clone(), it));
                    let r = self.stmts(fr, body);
                    fr.vars.truncate(mark);
                    r?;
                }
            }
            Stmt::Assert(c, code) => {
                let c = self.expr(fr, c)?;
                if int(&c).is_zero() {
                    return Err(Flow::Panic(vec![BigInt::from(*code)]));
                }
            }
            Stmt::ArrNew(n, _, es) => {
                let mut items = vec![];
                for e in es {
                    items.push(self.expr(fr, e)?);
                }
                fr.arrays.insert(n.clone(), items);
            }
            Stmt::ArrAppend(n, e) => {
                let v = self.expr(fr, e)?;
                fr.arrays.get_mut(n).unwrap().push(v);
            }
            Stmt::ArrPop(n, a, _) => {
                let arr = fr.arrays.get_mut(a).unwrap();
                let v = if arr.is_empty() { Val::Opt(None) } else { Val::Opt(Some(Box::new(arr.remove(0)))) };
                fr.vars.push((n.clone(), v));
            }
            Stmt::DictNew(n, _) => {
                fr.dicts.insert(n.clone(), HashMap::new());
            }
            Stmt::DictInsert(d, k, v) => {
                let k = int(&self.expr(fr, k)?).clone();
                let v = int(&self.expr(fr, v)?).clone();
                fr.dicts.get_mut(d).unwrap().insert(k, v);
            }
            Stmt::ReturnIf(c, v) => {
                let c = self.expr(fr, c)?;
                if !int(&c).is_zero() {
                    let v = self.expr(fr, v)?;
                    return Err(Flow::Return(v));
                }
            }
            Stmt::Expr(e) => {
                self.expr(fr, e)?;
            }
        }
        Ok(())
    }

    fn expr(&mut self, fr: &mut Frame, e: &Expr) -> R<Val> {
        self.tick()?;
        Ok(match e {
            Expr::Lit(_, v) => Val::Int(v.clone()),
            Expr::Var(n) => {
                if let Some(i) = n.strip_prefix('C').and_then(|s| s.parse::<usize>().ok()) {
                    if fr.vars.iter().all(|(k, _)| k != n) {
                        return Ok(Val::Int(self.p.consts[i].1.clone()));
                    }
                }
                fr.get(n)
            }
            Expr::Bin(op, t, a, b) => {
                let x = self.expr(fr, a)?;
                let y = self.expr(fr, b)?;
                Val::Int(arith(*op, t, int(&x), int(&y))?)
            }
            Expr::Neg(t, a) => {
                let x = self.expr(fr, a)?;
                let v = -int(&x);
                if v > t.max() {
                    return panic_str(&format!("{}_neg Underflow", tname(t)));
                }
                Val::Int(v)
            }
            Expr::BitNot(t, a) => {
                let x = self.expr(fr, a)?;
                Val::Int(t.max() - int(&x))
            }
            Expr::Cmp(op, t, a, b) => {
                let x = self.expr(fr, a)?;
                let y = self.expr(fr, b)?;
                let r = match op {
                    CmpOp::Eq => x == y,
                    CmpOp::Ne => x != y,
                    _ => {
                        let _ = t;
                        let (x, y) = (int(&x), int(&y));
                        match op {
                            CmpOp::Lt => x < y,
                            CmpOp::Le => x <= y,
                            CmpOp::Gt => x > y,
                            _ => x >= y,
                        }
                    }
                };
                Val::Int(BigInt::from(r as u8))
            }
            Expr::AndAnd(a, b) => {
                let x = self.expr(fr, a)?;
                if int(&x).is_zero() { x } else { self.expr(fr, b)? }
            }
            Expr::OrOr(a, b) => {
                let x = self.expr(fr, a)?;
                if !int(&x).is_zero() { x } else { self.expr(fr, b)? }
            }
            Expr::Not(a) => {
                let x = self.expr(fr, a)?;
                Val::Int(BigInt::one() - int(&x))
            }
            Expr::Into(from, to, a) => {
                let x = self.expr(fr, a)?;
                Val::Int(convert(from, to, int(&x)).expect("Into must be infallible"))
            }
            Expr::TryIntoUnwrap(from, to, a) => {
                let x = self.expr(fr, a)?;
                match convert(from, to, int(&x)) {
                    Some(v) => Val::Int(v),
                    None => return panic_str("Option::unwrap failed."),
                }
            }
            Expr::TryInto(from, to, a) => {
                let x = self.expr(fr, a)?;
                Val::Opt(convert(from, to, int(&x)).map(|v| Box::new(Val::Int(v))))
            }
            Expr::Tuple(es) => {
                let mut vs = vec![];
                for x in es {
                    vs.push(self.expr(fr, x)?);
                }
                Val::Tup(vs)
            }
            Expr::StructLit(s, es) => {
                // Evaluated in the written order, stored in declaration order.
                let mut vs: Vec<Option<Val>> = es.iter().map(|_| None).collect();
                for i in crate::gens::prog::struct_lit_order(*s, es.len()) {
                    vs[i] = Some(self.expr(fr, &es[i])?);
                }
                Val::Tup(vs.into_iter().map(|v| v.unwrap()).collect())
            }
            Expr::Permute(a, _, picks) => match self.expr(fr, a)? {
                Val::Tup(vs) => Val::Tup(picks.iter().map(|k| vs[*k].clone()).collect()),
                _ => panic!("permutation of non-tuple"),
            },
            Expr::TupleField(a, i, _) | Expr::Field(a, _, i) => match self.expr(fr, a)? {
                Val::Tup(mut vs) => vs.swap_remove(*i),
                _ => panic!("projection of non-tuple"),
            },
            Expr::EnumLit(_, v, payload) => {
                let pv = match payload {
                    Some(x) => Some(Box::new(self.expr(fr, x)?)),
                    None => None,
                };
                Val::Enum(*v, pv)
            }
            Expr::Some_(a) => Val::Opt(Some(Box::new(self.expr(fr, a)?))),
            Expr::None_(_) => Val::Opt(None),
            Expr::Unwrap(a) => match self.expr(fr, a)? {
                Val::Opt(Some(v)) => *v,
                Val::Opt(None) => return panic_str("Option::unwrap failed."),
                _ => panic!("unwrap of non-option"),
            },
            Expr::UnwrapOr(a, d) => {
                // Arguments are evaluated before the call: both, left to right.
                let x = self.expr(fr, a)?;
                let dv = self.expr(fr, d)?;
                match x {
                    Val::Opt(Some(v)) => *v,
                    Val::Opt(None) => dv,
                    _ => panic!("unwrap_or of non-option"),
                }
            }
            Expr::IsSome(a) => match self.expr(fr, a)? {
                Val::Opt(o) => Val::Int(BigInt::from(o.is_some() as u8)),
                _ => panic!("is_some of non-option"),
            },
            Expr::If(c, t, f) => {
                let cv = self.expr(fr, c)?;
                if !int(&cv).is_zero() { self.block(fr, t)? } else { self.block(fr, f)? }
            }
            Expr::MatchEnum(_, s, arms) => match self.expr(fr, s)? {
                Val::Enum(v, payload) => {
                    let (bind, b) = &arms[v];
                    let mark = fr.vars.len();
                    if let (Some(n), Some(pv)) = (bind, payload) {
                        fr.vars.push((n.clone(), *pv));
                    }
                    let r = self.block(fr, b);
                    fr.vars.truncate(mark);
                    r?
                }
                _ => panic!("match on non-enum"),
            },
            Expr::MatchOpt(s, n, some, none) => match self.expr(fr, s)? {
                Val::Opt(Some(v)) => {
                    let mark = fr.vars.len();
                    fr.vars.push((n.clone(), *v));
                    let r = self.block(fr, some);
                    fr.vars.truncate(mark);
                    r?
                }
                Val::Opt(None) => self.block(fr, none)?,
                _ => panic!("match on non-option"),
            },
            Expr::MatchNum(_, s, arms, dflt) => {
                let v = self.expr(fr, s)?;
                let v = int(&v);
                let mut hit = None;
                for (i, _) in arms.iter().enumerate() {
                    if *v == BigInt::from(i) {
                        hit = Some(i);
                    }
                }
                match hit {
                    Some(i) => self.block(fr, &arms[i])?,
                    None => self.block(fr, dflt)?,
                }
            }
            Expr::MatchBool(s, t, f) => {
                let cv = self.expr(fr, s)?;
                if !int(&cv).is_zero() { self.block(fr, t)? } else { self.block(fr, f)? }
            }
            Expr::Block(b) => self.block(fr, b)?,
            Expr::Call(f, args) => self.call(fr, *f, args)?,
            Expr::Loop(l) => {
                let mark = fr.vars.len();
                fr.vars.push((l.counter.clone(), Val::Int(BigInt::zero())));
                let r = (|| loop {
                    self.tick()?;
                    let i = int(&fr.get(&l.counter)).clone();
                    let stop = if i >= BigInt::from(l.limit) {
                        true
                    } else {
                        let cv = self.expr(fr, &l.cond)?;
                        !int(&cv).is_zero()
                    };
                    if stop {
                        return self.expr(fr, &l.result);
                    }
                    self.stmts(fr, &l.body)?;
                    fr.set(&l.counter, Val::Int(i + 1));
                })();
                fr.vars.truncate(mark);
                r?
            }
            Expr::ArrLen(a) => Val::Int(BigInt::from(fr.arrays[a].len())),
            Expr::SpanLen(a) => Val::Int(BigInt::from(fr.spans[a].len())),
            Expr::ArrAt(a, i) | Expr::SpanAt(a, i) => {
                let iv = self.expr(fr, i)?;
                let items = if matches!(e, Expr::ArrAt(..)) { &fr.arrays[a] } else { &fr.spans[a] };
                let idx = int(&iv);
                match idx.to_string().parse::<usize>().ok().and_then(|k| items.get(k)) {
                    Some(v) => v.clone(),
                    None => return panic_str("Index out of bounds"),
                }
            }
            Expr::ArrGet(a, i) => {
                let iv = self.expr(fr, i)?;
                let idx = int(&iv);
                Val::Opt(idx.to_string().parse::<usize>().ok().and_then(|k| fr.arrays[a].get(k)).map(|v| Box::new(v.clone())))
            }
            Expr::DictGet(d, k) => {
                let kv = self.expr(fr, k)?;
                Val::Int(fr.dicts[d].get(int(&kv)).cloned().unwrap_or_else(BigInt::zero))
            }
        })
    }

    fn call(&mut self, fr: &mut Frame, fi: usize, args: &[Arg]) -> R<Val> {
        let f = &self.p.funcs[fi];
        let mut callee = Frame::default();
        let mut refs: Vec<(String, String)> = vec![]; // (caller var, callee param)
        for (a, p) in args.iter().zip(f.params.iter()) {
            match (a, p) {
                (Arg::Val(e), Param::Val(n, _)) => {
                    let v = self.expr(fr, e)?;
                    callee.vars.push((n.clone(), v));
                }
                (Arg::Ref(v), Param::Ref(n, _)) => {
                    callee.vars.push((n.clone(), fr.get(v)));
                    refs.push((v.clone(), n.clone()));
                }
                (Arg::Span(a), Param::Span(n, _)) => {
                    callee.spans.insert(n.clone(), fr.arrays[a].clone());
                }
                (Arg::SpanPass(a), Param::Span(n, _)) => {
                    callee.spans.insert(n.clone(), fr.spans[a].clone());
                }
                _ => panic!("argument/parameter kind mismatch"),
            }
        }
        let r = match self.block_fn(&mut callee, &f.body) {
            Ok(v) => v,
            Err(Flow::Return(v)) => v,
            Err(e) => return Err(e),
        };
        for (caller_var, param) in refs {
            let v = callee.vars.iter().find(|(k, _)| *k == param).map(|(_, v)| v.clone()).unwrap();
            fr.set(&caller_var, v);
        }
        Ok(r)
    }

    /// Function body: like a block, but parameters (first entries) stay for ref write-back.
    fn block_fn(&mut self, fr: &mut Frame, b: &Block) -> R<Val> {
        let mark = fr.vars.len();
        let r = (|| {
            for s in &b.stmts {
                self.stmt(fr, s)?;
            }
            self.expr(fr, &b.tail)
        })();
        fr.vars.truncate(mark);
        r
    }

    /// Evaluates one expression with the given variable bindings (C07).
    pub fn eval_with(&mut self, vars: &[(String, Val)], e: &Expr, ty: &Ty) -> Outcome {
        let mut fr = Frame::default();
        fr.vars = vars.to_vec();
        match self.expr(&mut fr, e) {
            Ok(v) | Err(Flow::Return(v)) => {
                let mut out = vec![];
                serialize(self.p, ty, &v, &mut out);
                Outcome::Success(out)
            }
            Err(Flow::Panic(d)) => Outcome::Panic(d),
            Err(Flow::OutOfFuel) => Outcome::Unknown,
        }
    }

    /// Runs the entry function on scalar arguments.
    pub fn run_entry(&mut self, args: &[BigInt]) -> Outcome {
        let f = &self.p.funcs[self.p.entry];
        let mut fr = Frame::default();
        for (p, v) in f.params.iter().zip(args.iter()) {
            if let Param::Val(n, _) = p {
                fr.vars.push((n.clone(), Val::Int(v.clone())));
            }
        }
        let ret = f.ret.clone();
        match self.block_fn(&mut fr, &f.body) {
            Ok(v) | Err(Flow::Return(v)) => {
                let mut out = vec![];
                serialize(self.p, &ret, &v, &mut out);
                Outcome::Success(out)
            }
            Err(Flow::Panic(d)) => Outcome::Panic(d),
            Err(Flow::OutOfFuel) => Outcome::Unknown,
        }
    }
}

#[derive(Clone, Debug, PartialEq)]
pub enum Outcome {
    Success(Vec<BigInt>),
    Panic(Vec<BigInt>),
    Unknown,
}

/// Serde layout (documented ABI): integers one felt (negative as P - |x|), bool 0/1, u256 (low,
/// high), tuples and structs field by field, enums variant index then payload, Option Some=0/None=1.
pub fn serialize(p: &Program, t: &Ty, v: &Val, out: &mut Vec<BigInt>) {
    let prime = prime();
    match (t, v) {
        (Ty::U256, Val::Int(i)) => {
            let mask = (BigInt::one() << 128) - 1;
            out.push(i & &mask);
            out.push(i >> 128);
        }
        (Ty::Felt | Ty::Bool | Ty::U(_) | Ty::I(_), Val::Int(i)) => out.push(i.mod_floor(&prime)),
        (Ty::Tuple(ts), Val::Tup(vs)) => {
            for (t, v) in ts.iter().zip(vs) {
                serialize(p, t, v, out);
            }
        }
        (Ty::Struct(s), Val::Tup(vs)) => {
            for (t, v) in p.structs[*s].iter().zip(vs) {
                serialize(p, t, v, out);
            }
        }
        (Ty::Enum(en), Val::Enum(var, payload)) => {
            out.push(BigInt::from(*var));
            if let (Some(t), Some(pv)) = (&p.enums[*en][*var], payload) {
                serialize(p, t, pv, out);
            }
        }
        (Ty::Opt(inner), Val::Opt(o)) => match o {
            Some(x) => {
                out.push(BigInt::zero());
                serialize(p, inner, x, out);
            }
            None => out.push(BigInt::one()),
        },
        _ => panic!("type/value mismatch in serialize: {t:?} {v:?}"),
    }
}
