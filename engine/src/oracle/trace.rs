//! Trace oracles for C04 (gas covers the trace) and C17 (static ap change == run-time movement,
//! statement ranges tile the code, every executed pc is an instruction boundary).

use std::collections::HashMap;

use cairo_lang_casm::instructions::InstructionBody;
use cairo_lang_sierra::extensions::gas::CostTokenType;
use cairo_lang_sierra::program::Function;
use cairo_vm::types::builtin_name::BuiltinName;

use crate::core::exec::{Compiled, Exec};

pub struct GasReport {
    pub steps: u64,
    pub cost: u64,
    pub charged: u64,
    pub slack: i64,
}

fn price(b: &BuiltinName) -> u64 {
    match b {
        BuiltinName::range_check => 70,
        BuiltinName::range_check96 => 56,
        BuiltinName::pedersen => cairo_lang_runner::token_gas_cost(CostTokenType::Pedersen) as u64,
        BuiltinName::poseidon => cairo_lang_runner::token_gas_cost(CostTokenType::Poseidon) as u64,
        BuiltinName::bitwise => cairo_lang_runner::token_gas_cost(CostTokenType::Bitwise) as u64,
        BuiltinName::ec_op => cairo_lang_runner::token_gas_cost(CostTokenType::EcOp) as u64,
        BuiltinName::add_mod => cairo_lang_runner::token_gas_cost(CostTokenType::AddMod) as u64,
        BuiltinName::mul_mod => cairo_lang_runner::token_gas_cost(CostTokenType::MulMod) as u64,
        _ => 0,
    }
}

/// `100*steps + sum price(b)*uses(b) <= (g - gas_left) + 100`. `g` is the available gas that was
/// passed to the run (entry cost included). None if the run has no gas counter.
pub fn check_gas(exec: &Exec, g: usize) -> Option<Result<GasReport, (GasReport, String)>> {
    let left = exec.gas_counter.as_ref()?;
    let left: u64 = left.to_bigint().try_into().ok()?;
    // Steps of the program itself: trace entries outside the entry-code header.
    let steps = exec.trace.iter().filter(|e| e.pc > exec.header_end).count() as u64;
    let mut cost = 100 * steps;
    let mut parts = vec![format!("100*{steps} steps")];
    for (b, n) in &exec.resources.builtin_instance_counter {
        let p = price(b);
        if p > 0 && *n > 0 {
            cost += p * (*n as u64);
            parts.push(format!("{p}*{n} {}", b.to_str()));
        }
    }
    let charged = (g as u64).saturating_sub(left);
    let rep = GasReport { steps, cost, charged, slack: charged as i64 + 100 - cost as i64 };
    if cost <= charged + 100 {
        Some(Ok(rep))
    } else {
        let msg = format!(
            "trace cost {} = {} exceeds the gas charged {} (= {} given - {} left) + 100",
            cost,
            parts.join(" + "),
            charged,
            g,
            left
        );
        Some(Err((rep, msg)))
    }
}

pub struct Layout {
    /// offset -> instruction index
    pub at: HashMap<usize, usize>,
    pub code_size: usize,
}

/// Static part of C17: statement ranges tile the code and start on instruction boundaries.
pub fn check_layout(c: &Compiled) -> Result<Layout, String> {
    let prog = c.builder.casm_program();
    let mut at = HashMap::new();
    let mut off = 0;
    for (i, ins) in prog.instructions.iter().enumerate() {
        at.insert(off, i);
        // The length of an instruction is the length of its encoding (not `op_size()`, which is
        // what the recorded ranges were computed from).
        let words = ins.assemble().encode().len();
        if words != ins.body.op_size() {
            return Err(format!("instruction {i} `{ins}` encodes to {words} words but op_size() says {}", ins.body.op_size()));
        }
        off += words;
    }
    let code_size = off;
    let infos = &prog.debug_info.sierra_statement_info;
    let mut prev_end = 0;
    for (i, s) in infos.iter().enumerate() {
        if s.start_offset != prev_end {
            return Err(format!("statement {i} starts at {} but the previous one ends at {prev_end}", s.start_offset));
        }
        if s.end_offset < s.start_offset {
            return Err(format!("statement {i} has end {} < start {}", s.end_offset, s.start_offset));
        }
        if s.start_offset != code_size && !at.contains_key(&s.start_offset) {
            return Err(format!("statement {i} starts at {} which is not an instruction boundary", s.start_offset));
        }
        if s.start_offset < code_size && at[&s.start_offset] != s.instruction_idx {
            return Err(format!("statement {i}: instruction_idx {} but offset {} is instruction {}", s.instruction_idx, s.start_offset, at[&s.start_offset]));
        }
        prev_end = s.end_offset;
    }
    if prev_end != code_size {
        return Err(format!("statement ranges end at {prev_end} but the code has {code_size} words"));
    }
    Ok(Layout { at, code_size })
}

#[derive(Default)]
pub struct ApReport {
    pub frames_checked: u64,
    pub max_depth: usize,
    pub functions_seen: usize,
}

/// Dynamic part of C17.
pub fn check_ap(c: &Compiled, layout: &Layout, exec: &Exec, _func: &Function) -> Result<ApReport, String> {
    let prog = c.builder.casm_program();
    let infos = &prog.debug_info.sierra_statement_info;
    let meta = c.builder.metadata();
    // Entry offset -> (function name, known ap change).
    let mut entries: HashMap<usize, (String, Option<usize>)> = HashMap::new();
    for f in &c.builder.sierra_program().funcs {
        let off = infos[f.entry_point.0].start_offset;
        let k = meta.ap_change_info.function_ap_change.get(&f.id).copied();
        entries.insert(off, (f.id.to_string(), k));
    }
    let base = exec.header_end + 1;
    let mut stack: Vec<(usize, usize)> = vec![]; // (target offset, ap at entry)
    let mut rep = ApReport::default();
    let mut seen = std::collections::HashSet::new();
    let n = exec.trace.len();
    for i in 0..n {
        let e = &exec.trace[i];
        if e.pc < base {
            continue;
        }
        let off = e.pc - base;
        let is_ret;
        let mut is_call = false;
        if off >= layout.code_size {
            // Const segments / footer: a bare `ret`.
            is_ret = true;
        } else {
            let Some(idx) = layout.at.get(&off) else {
                return Err(format!("executed pc offset {off} is not an instruction boundary"));
            };
            // Exactly one statement range contains it (ranges tile, so: binary search + check).
            let si = infos.partition_point(|s| s.end_offset <= off);
            if si >= infos.len() || !(infos[si].start_offset <= off && off < infos[si].end_offset) {
                return Err(format!("executed pc offset {off} lies in no statement range"));
            }
            match &prog.instructions[*idx].body {
                InstructionBody::Call(_) => {
                    is_call = true;
                    is_ret = false;
                }
                InstructionBody::Ret(_) => is_ret = true,
                _ => is_ret = false,
            }
        }
        if is_call {
            if let Some(next) = exec.trace.get(i + 1) {
                if next.pc >= base {
                    stack.push((next.pc - base, next.ap));
                    rep.max_depth = rep.max_depth.max(stack.len());
                }
            }
        } else if is_ret {
            if let Some((target, ap_entry)) = stack.pop() {
                if let Some((name, Some(k))) = entries.get(&target) {
                    seen.insert(target);
                    rep.frames_checked += 1;
                    let moved = e.ap as i64 - ap_entry as i64;
                    if moved != *k as i64 {
                        return Err(format!(
                            "function {name}: declared ap change {k} but this call moved ap by {moved} (depth {})",
                            stack.len() + 1
                        ));
                    }
                }
            }
        }
    }
    rep.functions_seen = seen.len();
    Ok(rep)
}
