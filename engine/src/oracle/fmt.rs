//! C11 oracles: token/comment preservation of the formatter, written from the grammar (not from the
//! formatter's own `should_skip_terminal`).

use cairo_lang_parser::utils::SimpleParserDatabase;
use cairo_lang_syntax::node::SyntaxNode;
use cairo_lang_syntax::node::green::GreenNodeDetails;
use cairo_lang_syntax::node::kind::SyntaxKind;
use salsa::Database;

#[derive(Default, Clone, Debug)]
pub struct Lexed {
    /// Code tokens in order (text only), everything.
    pub toks: Vec<String>,
    /// Code tokens outside `use` items and body-less `mod x;` items.
    pub toks_no_use_mod: Vec<String>,
    /// Expanded use leaves: "<attrs> <vis> path[ as alias]".
    pub use_leaves: Vec<String>,
    /// Body-less module declarations: "<attrs> <vis> mod name".
    pub mod_decls: Vec<String>,
    /// Comments in order: (prefix, words).
    pub comment_words: Vec<(String, String)>,
    /// Segments for layout mutation: (is_code, text) covering the input.
    pub segments: Vec<(bool, String)>,
}

/// Parses; Err(diagnostics) if the text has parser diagnostics.
pub fn lex(db: &SimpleParserDatabase, text: &str) -> Result<Lexed, String> {
    let (root, diags) = db.parse_virtual_with_diagnostics(text);
    if !diags.get_all().is_empty() {
        return Err(diags.format(db));
    }
    let mut out = Lexed::default();
    let dbd: &dyn Database = db;
    walk(dbd, root, false, &mut out);
    // Expand `use` items and `mod x;` items from their own token lists.
    collect_items(dbd, root, &mut out);
    Ok(out)
}

fn comment_prefix(kind: SyntaxKind) -> Option<&'static str> {
    match kind {
        SyntaxKind::TokenSingleLineComment => Some("//"),
        SyntaxKind::TokenSingleLineDocComment => Some("///"),
        SyntaxKind::TokenSingleLineInnerComment => Some("//!"),
        _ => None,
    }
}

fn is_use_or_mod_decl(db: &dyn Database, node: SyntaxNode<'_>) -> bool {
    match node.kind(db) {
        SyntaxKind::ItemUse => true,
        SyntaxKind::ItemModule => {
            // Body-less iff the last child is a TerminalSemicolon.
            node.get_children(db).last().map(|c| c.kind(db)) == Some(SyntaxKind::TerminalSemicolon)
        }
        _ => false,
    }
}

fn walk<'a>(db: &'a dyn Database, node: SyntaxNode<'a>, in_use_mod: bool, out: &mut Lexed) {
    let in_use_mod = in_use_mod || is_use_or_mod_decl(db, node);
    let green = node.green_node(db);
    match &green.details {
        GreenNodeDetails::Token(t) => {
            let s = t.long(db).to_string();
            let kind = node.kind(db);
            match kind {
                SyntaxKind::TokenWhitespace | SyntaxKind::TokenNewline => {
                    out.segments.push((false, s));
                }
                k if comment_prefix(k).is_some() => {
                    // The comment marker is the whole leading run of slashes (plus `!` of an inner
                    // comment): the formatter repeats it on every line when it re-wraps words.
                    let mut plen = s.len() - s.trim_start_matches('/').len();
                    if s[plen..].starts_with('!') && plen == 2 {
                        plen += 1;
                    }
                    let prefix = &s[..plen];
                    let body = &s[plen..];
                    for w in body.split_whitespace() {
                        out.comment_words.push((prefix.to_string(), w.to_string()));
                    }
                    if body.split_whitespace().next().is_none() {
                        // An empty comment line still is a comment.
                        out.comment_words.push((prefix.to_string(), String::new()));
                    }
                    out.segments.push((false, s));
                }
                _ => {
                    if !s.is_empty() {
                        // A `::` before the generic arguments of the last segment of a path in
                        // *type* position is optional (N3); in expression position it is code.
                        let s = if kind == SyntaxKind::TokenColonColon && turbofish_in_type_position(db, node) {
                            "::?".to_string()
                        } else {
                            s
                        };
                        out.toks.push(s.clone());
                        if !in_use_mod {
                            out.toks_no_use_mod.push(s.clone());
                        }
                        out.segments.push((true, s));
                    }
                }
            }
        }
        GreenNodeDetails::Node { .. } => {
            for c in node.get_children(db) {
                walk(db, *c, in_use_mod, out);
            }
        }
    }
}

/// My own (grammar-based) classification, independent of the formatter's list: climb from the
/// path through tuple / fixed-size-array / unary / parenthesised wrappers; the first other
/// ancestor decides.
fn turbofish_in_type_position<'a>(db: &'a dyn Database, token: SyntaxNode<'a>) -> bool {
    let Some(terminal) = token.parent(db) else { return false };
    let Some(seg) = terminal.parent(db) else { return false };
    if seg.kind(db) != SyntaxKind::PathSegmentWithGenericArgs {
        return false;
    }
    let Some(inner) = seg.parent(db) else { return false };
    // Only the last segment.
    if inner.get_children(db).last() != Some(&seg) {
        return false;
    }
    let Some(mut cur) = inner.parent(db) else { return false }; // ExprPath
    loop {
        let Some(parent) = cur.parent(db) else { return false };
        match parent.kind(db) {
            SyntaxKind::ExprList
            | SyntaxKind::ExprListParenthesized
            | SyntaxKind::ExprFixedSizeArray
            | SyntaxKind::ExprUnary
            | SyntaxKind::ExprParenthesized => cur = parent,
            SyntaxKind::TypeClause
            | SyntaxKind::ReturnTypeClause
            | SyntaxKind::GenericArgUnnamed
            | SyntaxKind::GenericArgNamed
            | SyntaxKind::GenericParamImplAnonymous
            | SyntaxKind::GenericParamImplNamed
            | SyntaxKind::ItemImpl
            | SyntaxKind::ItemTypeAlias
            | SyntaxKind::ImplicitsList => return true,
            _ => return false,
        }
    }
}

fn code_tokens<'a>(db: &'a dyn Database, node: SyntaxNode<'a>, out: &mut Vec<String>) {
    let green = node.green_node(db);
    match &green.details {
        GreenNodeDetails::Token(t) => {
            let kind = node.kind(db);
            let trivia = matches!(kind, SyntaxKind::TokenWhitespace | SyntaxKind::TokenNewline)
                || comment_prefix(kind).is_some();
            let s = t.long(db);
            if !trivia && !s.is_empty() {
                out.push(s.to_string());
            }
        }
        GreenNodeDetails::Node { .. } => {
            for c in node.get_children(db) {
                code_tokens(db, *c, out);
            }
        }
    }
}

fn collect_items<'a>(db: &'a dyn Database, node: SyntaxNode<'a>, out: &mut Lexed) {
    if is_use_or_mod_decl(db, node) {
        let mut toks = vec![];
        code_tokens(db, node, &mut toks);
        // Enclosing module path (so that items of different modules are not mixed).
        let scope = node
            .ancestors(db)
            .filter(|a| a.kind(db) == SyntaxKind::ItemModule)
            .map(|a| {
                let mut t = vec![];
                code_tokens(db, a, &mut t);
                let p = t.iter().position(|x| x == "mod").unwrap_or(0);
                t.get(p + 1).cloned().unwrap_or_default()
            })
            .collect::<Vec<_>>()
            .join("/");
        if node.kind(db) == SyntaxKind::ItemUse {
            if let Some(p) = toks.iter().position(|t| t == "use") {
                let head = normalize(&toks[..p]).join(" ");
                let body: Vec<&str> =
                    toks[p + 1..].iter().map(|s| s.as_str()).filter(|s| *s != ";").collect();
                let mut leaves = vec![];
                let mut i = 0;
                expand_use(&body, &mut i, String::new(), &mut leaves);
                for l in leaves {
                    // `a::self` imports `a`.
                    let l = match l.strip_suffix("::self") {
                        Some(p) if !p.is_empty() => p.to_string(),
                        _ => l,
                    };
                    if l.is_empty() {
                        continue;
                    }
                    out.use_leaves.push(format!("[{scope}] {head} use {l}"));
                }
            }
        } else {
            let toks = normalize(&toks);
            let body: Vec<&str> =
                toks.iter().map(|s| s.as_str()).filter(|s| *s != ";").collect();
            out.mod_decls.push(format!("[{scope}] {}", body.join(" ")));
        }
        return;
    }
    if let GreenNodeDetails::Node { .. } = &node.green_node(db).details {
        for c in node.get_children(db) {
            collect_items(db, *c, out);
        }
    }
}

/// use_tree := '$'? seg ('::' seg)* ( '::' '{' list '}' | '::' '*' )? ('as' ident)? | '{' list '}' | '*'
fn expand_use(t: &[&str], i: &mut usize, prefix: String, out: &mut Vec<String>) {
    let mut path = prefix;
    loop {
        if *i >= t.len() {
            out.push(path);
            return;
        }
        match t[*i] {
            "{" => {
                *i += 1;
                loop {
                    if *i >= t.len() {
                        return;
                    }
                    if t[*i] == "}" {
                        *i += 1;
                        break;
                    }
                    if t[*i] == "," {
                        *i += 1;
                        continue;
                    }
                    expand_use(t, i, path.clone(), out);
                }
                return;
            }
            "*" => {
                *i += 1;
                out.push(format!("{path}*"));
                return;
            }
            "," | "}" => {
                out.push(path);
                return;
            }
            "as" => {
                *i += 1;
                let alias = t.get(*i).copied().unwrap_or("");
                *i += 1;
                out.push(format!("{path} as {alias}"));
                return;
            }
            "::" => {
                *i += 1;
                path.push_str("::");
            }
            seg => {
                *i += 1;
                path.push_str(seg);
            }
        }
    }
}

/// Normalisation of syntactically optional, meaning-free separators, applied identically to both
/// sides before comparing token sequences (DESIGN C11):
///  N1/N1': a `,` directly before a closing `)` `]` `}` `>` or `|` is dropped, unless it closes a
///          one-element tuple `( X , )` in tuple position (where it carries meaning);
///  N2: a `;` directly after `}` is dropped, unless the next token could continue the block
///      expression (`|`, `||`, `&`, `&&`, `-`, `*`, `[`), where the `;` separates two statements;
///  N3: a `::` before the generic arguments of the last path segment in type position (emitted as
///      `::?` by the lexing walk) is dropped; in expression position it is kept.
pub fn normalize(toks: &[String]) -> Vec<String> {
    let n = toks.len();
    // Matching open paren index for each `)`, and count of top-level commas inside.
    let mut open_of = vec![usize::MAX; n];
    let mut commas_in = vec![0usize; n];
    let mut stack: Vec<(usize, usize)> = vec![]; // (index of opener, commas at this level)
    for (i, t) in toks.iter().enumerate() {
        match t.as_str() {
            "(" | "[" | "{" => stack.push((i, 0)),
            ")" | "]" | "}" => {
                if let Some((j, c)) = stack.pop() {
                    open_of[i] = j;
                    commas_in[i] = c;
                }
            }
            "," => {
                if let Some(top) = stack.last_mut() {
                    top.1 += 1;
                }
            }
            _ => {}
        }
    }
    let is_ident_like = |s: &str| {
        let c = s.chars().next().unwrap_or(' ');
        (c.is_ascii_alphabetic() || c == '_') && !is_keyword(s)
    };
    let mut out = Vec::with_capacity(n);
    for i in 0..n {
        let t = toks[i].as_str();
        let next = toks.get(i + 1).map(|s| s.as_str());
        match t {
            "," => {
                match next {
                    Some(")") => {
                        let close = i + 1;
                        let open = open_of[close];
                        let one_elem_tuple = open != usize::MAX
                            && toks[open] == "("
                            && commas_in[close] == 1
                            && open + 1 < i
                            && {
                                let prev = if open == 0 { None } else { Some(toks[open - 1].as_str()) };
                                !matches!(prev, Some(p) if is_ident_like(p) || p == "!" || p == ">" || p == ")" || p == "]" || p == "implicits")
                            };
                        if one_elem_tuple {
                            out.push(t.to_string());
                        }
                    }
                    Some("]") | Some("}") | Some(">") | Some("|") => {}
                    _ => out.push(t.to_string()),
                }
            }
            ";" => {
                // Not meaning-free when the next token could continue the block expression as a
                // binary operator / index (`if c {} ; |x| x` vs `if c {} | x | x`).
                let continues = matches!(next, Some("|") | Some("||") | Some("&") | Some("&&") | Some("-") | Some("*") | Some("["));
                if i > 0 && toks[i - 1] == "}" && !continues {
                    // dropped
                } else {
                    out.push(t.to_string());
                }
            }
            "::?" => {}
            _ => out.push(t.to_string()),
        }
    }
    out
}

fn is_keyword(s: &str) -> bool {
    matches!(
        s,
        "as" | "break" | "const" | "continue" | "else" | "enum" | "extern" | "false" | "fn"
            | "for" | "if" | "impl" | "implicits" | "let" | "loop" | "macro" | "match" | "mod"
            | "mut" | "nopanic" | "of" | "pub" | "ref" | "return" | "struct" | "trait" | "true"
            | "type" | "use" | "while" | "in"
    )
}

pub fn first_diff(a: &[String], b: &[String]) -> Option<(usize, String, String)> {
    let n = a.len().min(b.len());
    for i in 0..n {
        if a[i] != b[i] {
            return Some((i, ctx(a, i), ctx(b, i)));
        }
    }
    if a.len() != b.len() {
        return Some((n, ctx(a, n), ctx(b, n)));
    }
    None
}

fn ctx(a: &[String], i: usize) -> String {
    let lo = i.saturating_sub(4);
    let hi = (i + 4).min(a.len());
    a[lo..hi].join(" ")
}

fn norm_word(w: &str) -> String {
    let c = w.chars().next().unwrap_or(' ');
    if (c.is_ascii_alphabetic() || c == '_') && !is_keyword(w) {
        "x".into()
    } else if c.is_ascii_digit() {
        "0".into()
    } else if c == '"' || c == '\'' {
        "s".into()
    } else {
        w.to_string()
    }
}

/// Signature of the difference between two lines: the changed middle part with one rough token
/// of context on each side, identifiers/numbers/strings abstracted.
pub fn line_diff_sig(a: &str, b: &str) -> String {
    use crate::gens::textmut::rough_lex;
    // One recognisable root cause: a comment pulled up behind code and re-spaced by the next pass.
    let squeeze = |l: &str| -> Option<String> {
        let i = l.find("//")?;
        Some(format!("{}{}", l[..i].trim_end(), &l[i..]))
    };
    if let (Some(x), Some(y)) = (squeeze(a.trim()), squeeze(b.trim())) {
        if x == y {
            return "spaces-before-pulled-up-comment".into();
        }
    }
    let a = a.trim();
    let b = b.trim();
    let ab = a.as_bytes();
    let bb = b.as_bytes();
    let mut p = 0;
    while p < ab.len() && p < bb.len() && ab[p] == bb[p] {
        p += 1;
    }
    while !a.is_char_boundary(p) {
        p -= 1;
    }
    let mut q = 0;
    while q < ab.len() - p && q < bb.len() - p && ab[ab.len() - 1 - q] == bb[bb.len() - 1 - q] {
        q += 1;
    }
    while !a.is_char_boundary(a.len() - q) || !b.is_char_boundary(b.len() - q) {
        q -= 1;
    }
    let abstracted = |s: &str| -> String {
        rough_lex(s).iter().map(|t| {
            let w = &s[t.start..t.end];
            if w.trim().is_empty() { " ".to_string() } else if w.starts_with("//") { "//…".to_string() } else { norm_word(w) }
        }).collect::<String>()
    };
    let pre = &a[..p];
    let post = &a[a.len() - q..];
    let left = rough_lex(pre).iter().rev().find(|t| !pre[t.start..t.end].trim().is_empty()).map(|t| abstracted(&pre[t.start..t.end])).unwrap_or_else(|| "^".into());
    let right = rough_lex(post).iter().find(|t| !post[t.start..t.end].trim().is_empty()).map(|t| abstracted(&post[t.start..t.end])).unwrap_or_else(|| "$".into());
    let ma = abstracted(&a[p..a.len() - q]);
    let mb = abstracted(&b[p..b.len() - q]);
    let cut = |s: String| if s.len() > 24 { let mut e = 24; while !s.is_char_boundary(e) { e -= 1; } format!("{}…", &s[..e]) } else { s };
    format!("[{left}]-{:?}+{:?}[{right}]", cut(ma), cut(mb))
}

pub fn token_diff_sig(a: &[String], b: &[String], i: usize) -> String {
    let w = |v: &[String]| -> String {
        let lo = i.saturating_sub(1);
        let hi = (i + 2).min(v.len());
        v.get(lo..hi).unwrap_or(&[]).iter().map(|t| norm_word(t)).collect::<Vec<_>>().join(" ")
    };
    format!("[{}]->[{}]", w(a), w(b))
}

/// True iff the text has a comment in the interior of a statement or bracketed list: a comment
/// whose preceding code token is not `;`, `{`, `}` (or the start of the file).
pub fn has_interior_comment(l: &Lexed) -> bool {
    let mut prev_code: Option<&str> = None;
    let mut depth = 0i32; // nesting in ( ) and [ ]
    // A comment right after `}` is interior iff the construct goes on after it (`{ 1 } // c` then `;`,
    // `,`, `.`, an operator): decided when the next code token is seen.
    let mut comment_after_close = false;
    for (is_code, s) in &l.segments {
        if *is_code {
            if comment_after_close && matches!(s.as_str(), ";" | "," | "." | ")" | "]" | "=>" | "=" | "+" | "-" | "*" | "/" | "?" | "else") {
                return true;
            }
            comment_after_close = false;
            match s.as_str() {
                "(" | "[" => depth += 1,
                ")" | "]" => depth -= 1,
                _ => {}
            }
            prev_code = Some(s.as_str());
        } else if s.starts_with("//") {
            if depth > 0 || !matches!(prev_code, None | Some(";") | Some("{") | Some("}")) {
                return true;
            }
            if prev_code == Some("}") {
                comment_after_close = true;
            }
        }
    }
    false
}

/// True iff two formatter outputs differ only in lines that are blank, comments, or part of
/// `use` / `mod x;` items (judged on the token level: all other code tokens are equal, and the use
/// leaves and module declarations are equal as multisets).
pub fn differ_only_in_use_sections(a: &Lexed, b: &Lexed) -> bool {
    let mut ua = a.use_leaves.clone();
    let mut ub = b.use_leaves.clone();
    ua.sort();
    ua.dedup();
    ub.sort();
    ub.dedup();
    let mut ma = a.mod_decls.clone();
    let mut mb = b.mod_decls.clone();
    ma.sort();
    mb.sort();
    normalize(&a.toks_no_use_mod) == normalize(&b.toks_no_use_mod) && ua == ub && ma == mb
}

/// True iff some `/` code token is followed (ignoring whitespace) by a comment.
pub fn slash_before_comment(l: &Lexed) -> bool {
    let mut after_slash = false;
    for (is_code, s) in &l.segments {
        if *is_code {
            after_slash = s == "/";
        } else if s.starts_with("//") {
            if after_slash {
                return true;
            }
        }
    }
    false
}
