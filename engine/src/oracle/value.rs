//! Pointer-aware normalisation of run results for metamorphic comparisons (C05, C03): values are
//! decoded by the function's Sierra return types; arrays/boxes are compared by content, enum
//! padding is ignored, anything else pointer-valued is opaque.

use cairo_lang_runner::RunResultValue;
use cairo_lang_sierra::ids::ConcreteTypeId;
use cairo_lang_sierra::program::{Function, GenericArg};
use num_bigint::BigInt;
use starknet_types_core::felt::Felt as Felt252;

use crate::core::exec::{Compiled, Exec};

#[derive(Clone, Debug, PartialEq)]
pub enum Item {
    F(BigInt),
    Variant(usize),
    Seq(Vec<Item>),
    Opaque,
    Null,
}

#[derive(Clone, Debug, PartialEq)]
pub enum Norm {
    Success(Vec<Item>),
    Panic(Vec<BigInt>),
    Undecodable,
}

fn mem(e: &Exec, i: usize) -> Option<BigInt> {
    e.memory.get(i).and_then(|c| c.as_ref()).map(|f| f.to_bigint())
}

fn decode(c: &Compiled, e: &Exec, ty: &ConcreteTypeId, cells: &[BigInt], depth: u32, out: &mut Vec<Item>) -> Option<()> {
    if depth > 8 {
        out.push(Item::Opaque);
        return Some(());
    }
    let long = c.builder.type_long_id(ty);
    let name = long.generic_id.0.as_str();
    let size = c.builder.type_size(ty) as usize;
    if cells.len() != size {
        return None;
    }
    match name {
        "Struct" => {
            let mut at = 0;
            for a in long.generic_args.iter().skip(1) {
                let GenericArg::Type(t) = a else { return None };
                let s = c.builder.type_size(t) as usize;
                decode(c, e, t, &cells[at..at + s], depth + 1, out)?;
                at += s;
            }
            Some(())
        }
        "Enum" => {
            let variants: Vec<&ConcreteTypeId> = long.generic_args.iter().skip(1).filter_map(|a| if let GenericArg::Type(t) = a { Some(t) } else { None }).collect();
            let n = variants.len();
            if n == 0 || size == 0 {
                return Some(());
            }
            let sel: usize = cells[0].clone().try_into().ok()?;
            let idx = if n <= 2 { sel } else { n.checked_sub((sel + 1) / 2)? };
            if idx >= n {
                return None;
            }
            out.push(Item::Variant(idx));
            let vs = c.builder.type_size(variants[idx]) as usize;
            decode(c, e, variants[idx], &cells[size - vs..], depth + 1, out)
        }
        "Array" => {
            let GenericArg::Type(t) = long.generic_args.first()? else { return None };
            let s: usize = cells[0].clone().try_into().ok()?;
            let en: usize = cells[1].clone().try_into().ok()?;
            let es = c.builder.type_size(t) as usize;
            if en < s || es == 0 && en != s {
                return None;
            }
            let mut items = vec![];
            if es > 0 {
                let mut at = s;
                while at + es <= en {
                    let cs: Option<Vec<BigInt>> = (at..at + es).map(|i| mem(e, i)).collect();
                    decode(c, e, t, &cs?, depth + 1, &mut items)?;
                    at += es;
                }
            }
            out.push(Item::Seq(items));
            Some(())
        }
        "Snapshot" | "NonZero" => {
            let GenericArg::Type(t) = long.generic_args.first()? else { return None };
            decode(c, e, t, cells, depth, out)
        }
        "Box" | "Nullable" => {
            let GenericArg::Type(t) = long.generic_args.first()? else { return None };
            let p: usize = match cells[0].clone().try_into() {
                Ok(p) => p,
                Err(_) => {
                    out.push(Item::Opaque);
                    return Some(());
                }
            };
            if p == 0 && name == "Nullable" {
                out.push(Item::Null);
                return Some(());
            }
            let es = c.builder.type_size(t) as usize;
            let cs: Option<Vec<BigInt>> = (p..p + es).map(|i| mem(e, i)).collect();
            match cs {
                Some(cs) => {
                    let mut inner = vec![];
                    decode(c, e, t, &cs, depth + 1, &mut inner)?;
                    out.push(Item::Seq(inner));
                }
                None => out.push(Item::Opaque),
            }
            Some(())
        }
        "felt252" | "u8" | "u16" | "u32" | "u64" | "u128" | "i8" | "i16" | "i32" | "i64" | "i128" | "bytes31"
        | "BoundedInt" | "ContractAddress" | "ClassHash" | "StorageAddress" | "StorageBaseAddress" | "Const" => {
            for x in cells {
                out.push(Item::F(x.clone()));
            }
            Some(())
        }
        _ => {
            // Dictionaries, entries, builtins, EC states, circuits, uninitialised, ...: opaque.
            out.push(Item::Opaque);
            Some(())
        }
    }
}

pub fn normalize(c: &Compiled, f: &Function, e: &Exec) -> Norm {
    match &e.value {
        RunResultValue::Panic(d) => Norm::Panic(d.iter().map(|x| x.to_bigint()).collect()),
        RunResultValue::Success(vals) => {
            // The user-visible return types (builtins and gas are implicit).
            let user: Vec<&ConcreteTypeId> = f
                .signature
                .ret_types
                .iter()
                .filter(|t| c.builder.is_user_arg_type(&c.builder.type_long_id(t).generic_id))
                .collect();
            let Some(ty) = user.last() else { return Norm::Success(vec![]) };
            // PanicResult<(T,)>: the runner already unwrapped to the inner value.
            let long = c.builder.type_long_id(ty);
            let mut target: ConcreteTypeId = (*ty).clone();
            if long.generic_id.0 == "Enum" {
                if let Some(GenericArg::UserType(ut)) = long.generic_args.first() {
                    if ut.debug_name.as_ref().map(|n| n.starts_with("core::panics::PanicResult::")).unwrap_or(false) {
                        if let Some(GenericArg::Type(inner)) = long.generic_args.get(1) {
                            target = inner.clone();
                        }
                    }
                }
            }
            let cells: Vec<BigInt> = vals.iter().map(|x: &Felt252| x.to_bigint()).collect();
            let mut out = vec![];
            match decode(c, e, &target, &cells, 0, &mut out) {
                Some(()) => Norm::Success(out),
                None => Norm::Undecodable,
            }
        }
    }
}

pub fn is_out_of_gas(n: &Norm) -> bool {
    matches!(n, Norm::Panic(d) if d.first() == Some(&crate::oracle::eval::short_string("Out of gas")))
}

/// Functions whose reachable libfuncs include gas introspection legitimately depend on gas.
pub fn uses_gas_introspection(c: &Compiled) -> bool {
    c.builder.sierra_program().libfunc_declarations.iter().any(|d| {
        let n = d.long_id.generic_id.0.as_str();
        n == "get_available_gas" || n == "get_unspent_gas" || n.starts_with("gas_reserve") || n.starts_with("coupon") || n == "get_builtin_costs"
    })
}
