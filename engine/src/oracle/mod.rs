pub mod lossless;
pub mod fmt;
