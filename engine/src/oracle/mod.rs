pub mod lossless;
pub mod fmt;
pub mod eval;
pub mod trace;
pub mod value;
pub mod sierra_check;
