pub mod lossless;
