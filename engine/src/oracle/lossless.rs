//! C10 oracle: the four clauses of losslessness, checked on the red/green tree.

use cairo_lang_filesystem::span::{TextOffset, TextWidth};
use cairo_lang_parser::utils::SimpleParserDatabase;
use cairo_lang_syntax::node::SyntaxNode;
use cairo_lang_syntax::node::green::GreenNodeDetails;
use cairo_lang_syntax::node::kind::SyntaxKind;
use salsa::Database;

#[derive(Default, Debug, Clone)]
pub struct TreeInfo {
    pub nodes: usize,
    pub leaves: usize,
    pub parser_diags: usize,
    pub has_missing: bool,
    pub has_skipped: bool,
    pub max_depth: usize,
}

pub struct LossFail {
    pub sig: String,
    pub what: String,
}

fn fail(clause: &str, kind: SyntaxKind, detail: String) -> LossFail {
    LossFail { sig: format!("{clause}@{kind:?}"), what: detail }
}

/// Parses `text` and checks all clauses. Panics propagate (the caller decides what they mean).
///
/// Signatures name the root-cause class as narrowly as the tree allows: for text that is missing
/// from the tree, the spelling class of the first missing token; for reordered text, the kinds of
/// the two leaves that are out of order.
pub fn check_lossless(db: &SimpleParserDatabase, text: &str) -> Result<TreeInfo, LossFail> {
    let (root, diags) = db.parse_virtual_with_diagnostics(text);
    let mut info = TreeInfo { parser_diags: diags.get_all().len(), ..Default::default() };
    let dbd: &dyn Database = db;
    // Clause 1 first (it gives the most specific description): concatenated leaves == input.
    let mut leaves: Vec<(SyntaxKind, SyntaxKind, String)> = vec![];
    collect_leaves(dbd, root, SyntaxKind::SyntaxFile, &mut leaves);
    let concat: String = leaves.iter().map(|l| l.2.as_str()).collect();
    if concat != text {
        return Err(describe_diff(text, &concat, &leaves));
    }
    // Clause 3: root spans the whole file.
    let span = root.span(dbd);
    if span.start.as_u32() != 0 || span.end.as_u32() as usize != text.len() {
        return Err(LossFail {
            sig: "root-span".into(),
            what: format!(
                "root span is [{}, {}) but the file has {} bytes",
                span.start.as_u32(),
                span.end.as_u32(),
                text.len()
            ),
        });
    }
    // Clauses 2, 4 (and 1 again, with positions): preorder walk.
    let mut concat = String::with_capacity(text.len());
    walk(dbd, text, root, 0, &mut concat, &mut info)?;
    if concat != text {
        return Err(fail("leaves-concat", root.kind(dbd), "walk concat differs".into()));
    }
    Ok(info)
}

fn collect_leaves<'a>(
    db: &'a dyn Database,
    node: SyntaxNode<'a>,
    parent: SyntaxKind,
    out: &mut Vec<(SyntaxKind, SyntaxKind, String)>,
) {
    let green = node.green_node(db);
    match &green.details {
        GreenNodeDetails::Token(t) => out.push((node.kind(db), parent, t.long(db).to_string())),
        GreenNodeDetails::Node { .. } => {
            for c in node.get_children(db) {
                collect_leaves(db, *c, node.kind(db), out);
            }
        }
    }
}

fn spelling_class(tok: &str) -> String {
    let c = tok.chars().next().unwrap_or(' ');
    if c.is_ascii_alphabetic() || c == '_' {
        const KW: &[&str] = &[
            "as", "break", "const", "continue", "else", "enum", "extern", "false", "fn", "for",
            "if", "impl", "implicits", "let", "loop", "macro", "match", "mod", "mut", "nopanic",
            "of", "pub", "ref", "return", "struct", "trait", "true", "type", "use", "while", "_",
        ];
        if KW.contains(&tok) { tok.to_string() } else { "<ident>".into() }
    } else if c.is_ascii_digit() {
        "<number>".into()
    } else if c == '"' || c == '\'' {
        "<string>".into()
    } else if c.is_whitespace() {
        "<whitespace>".into()
    } else if tok.starts_with("//") {
        "<comment>".into()
    } else if c.is_ascii() {
        tok.to_string()
    } else {
        "<non-ascii>".into()
    }
}

fn describe_diff(text: &str, concat: &str, leaves: &[(SyntaxKind, SyntaxKind, String)]) -> LossFail {
    use crate::core::driver::truncate;
    use crate::gens::textmut::rough_lex;
    let p = concat
        .bytes()
        .zip(text.bytes())
        .position(|(a, b)| a != b)
        .unwrap_or(concat.len().min(text.len()));
    // The leaf covering byte p of the concatenation (if any).
    let mut at = 0;
    let mut leaf_idx = None;
    for (i, l) in leaves.iter().enumerate() {
        if p < at + l.2.len() {
            leaf_idx = Some(i);
            break;
        }
        at += l.2.len();
    }
    let mut a: Vec<u8> = text.bytes().collect();
    let mut b: Vec<u8> = concat.bytes().collect();
    a.sort_unstable();
    b.sort_unstable();
    let ctx = format!(
        "input around byte {p}: {:?}; tree text there: {:?}",
        truncate(&text[floor(text, p.saturating_sub(20))..floor(text, (p + 20).min(text.len()))], 80),
        truncate(&concat[floor(concat, p.saturating_sub(20))..floor(concat, (p + 20).min(concat.len()))], 80)
    );
    if a == b {
        let (k1, k2) = match leaf_idx {
            Some(i) => (
                format!("{:?}", leaves[i].0),
                leaves.get(i + 1).map(|l| format!("{:?}in{:?}", l.0, l.1)).unwrap_or("<end>".into()),
            ),
            None => ("<end>".into(), "<end>".into()),
        };
        return LossFail {
            sig: format!("reordered:{k1}-before-{k2}"),
            what: format!("the tree contains the bytes of the input in a different order; {ctx}"),
        };
    }
    if concat.len() < text.len() {
        // Which input token is missing? Lex the input roughly and take the token covering p.
        let toks = rough_lex(text);
        let tok = toks.iter().find(|t| t.start <= p && p < t.end);
        let class = tok.map(|t| spelling_class(&text[t.start..t.end])).unwrap_or("<eof>".into());
        let after = leaf_idx
            .and_then(|i| i.checked_sub(1))
            .or(if leaf_idx.is_none() { leaves.len().checked_sub(1) } else { None })
            .map(|i| format!("{:?}", leaves[i].1))
            .unwrap_or("<start>".into());
        return LossFail {
            sig: format!("dropped:{class}"),
            what: format!(
                "text is missing from the tree ({} of {} bytes present), first missing token class {class:?} after a leaf of {after}; {ctx}",
                concat.len(),
                text.len()
            ),
        };
    }
    let kind = leaf_idx.map(|i| format!("{:?}", leaves[i].0)).unwrap_or("<end>".into());
    LossFail {
        sig: format!("altered:{kind}"),
        what: format!(
            "the tree text differs from the input ({} vs {} bytes); {ctx}",
            concat.len(),
            text.len()
        ),
    }
}

fn floor(s: &str, mut i: usize) -> usize {
    while !s.is_char_boundary(i) {
        i -= 1;
    }
    i
}

fn walk<'a>(
    db: &'a dyn Database,
    text: &str,
    node: SyntaxNode<'a>,
    depth: usize,
    concat: &mut String,
    info: &mut TreeInfo,
) -> Result<(), LossFail> {
    info.nodes += 1;
    info.max_depth = info.max_depth.max(depth);
    let kind = node.kind(db);
    if kind.is_missing() {
        info.has_missing = true;
    }
    if kind == SyntaxKind::TokenSkipped || kind == SyntaxKind::TriviumSkippedNode {
        info.has_skipped = true;
    }
    let offset: TextOffset = node.offset(db);
    let width: TextWidth = node.width(db);
    let start = offset.as_u32() as usize;
    let end = start + width.as_u32() as usize;
    if end > text.len() || !text.is_char_boundary(start) || !text.is_char_boundary(end) {
        return Err(fail("span-out-of-file", kind, format!("node span [{start},{end}) not inside the {}-byte file on char boundaries", text.len())));
    }
    // Clause 4: text(n) == t[span(n)] (get_text reads the file content through the db).
    let got = node.get_text(db);
    if got != &text[start..end] {
        return Err(fail("get-text", kind, format!("get_text of node at [{start},{end}) differs from the input slice")));
    }
    let green = node.green_node(db);
    match &green.details {
        GreenNodeDetails::Token(t) => {
            info.leaves += 1;
            let s = t.long(db);
            if s.len() != end - start {
                return Err(fail("token-width", kind, format!("token text has {} bytes, width says {}", s.len(), end - start)));
            }
            if s.as_str() != &text[start..end] {
                return Err(fail("token-text", kind, format!("token text {:?} differs from input slice {:?} at [{start},{end})", s, &text[start..end])));
            }
            if concat.len() != start {
                return Err(fail("leaf-order", kind, format!("leaf starts at {start} but {} bytes were emitted before it (dropped, duplicated or reordered text)", concat.len())));
            }
            concat.push_str(s);
        }
        GreenNodeDetails::Node { .. } => {
            let children = node.get_children(db);
            let mut at = start;
            for c in children {
                let co = c.offset(db).as_u32() as usize;
                if co != at {
                    return Err(fail("child-offset", kind, format!("child {:?} of node at {start} starts at {co}, expected {at}", c.kind(db))));
                }
                at += c.width(db).as_u32() as usize;
            }
            if at != end {
                return Err(fail("width-sum", kind, format!("children of node [{start},{end}) end at {at}")));
            }
            for c in children {
                walk(db, text, *c, depth + 1, concat, info)?;
            }
        }
    }
    Ok(())
}
