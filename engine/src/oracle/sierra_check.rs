//! C15 oracle: an independent typing / linearity checker for Sierra programs — a worklist data
//! flow over `Program` and the libfunc signatures. It does not use the CASM compiler's
//! annotations machinery; dup/drop legality comes from an own table of type properties.

use std::collections::{BTreeMap, HashMap, VecDeque};

use cairo_lang_sierra::extensions::ConcreteLibfunc;
use cairo_lang_sierra::extensions::core::{CoreLibfunc, CoreType};
use cairo_lang_sierra::ids::{ConcreteTypeId, VarId};
use cairo_lang_sierra::program::{BranchTarget, Function, GenericArg, Program, Statement, StatementIdx};
use cairo_lang_sierra::program_registry::ProgramRegistry;

pub type Registry = ProgramRegistry<CoreType, CoreLibfunc>;

#[derive(Debug, Clone)]
pub struct CheckError {
    pub rule: &'static str,
    pub detail: String,
}

fn err(rule: &'static str, detail: String) -> CheckError {
    CheckError { rule, detail }
}

type State = BTreeMap<u64, ConcreteTypeId>;

/// Own table of type properties for resource types. None = unknown (treated permissively).
struct Props<'a> {
    program: &'a Program,
    memo: HashMap<u64, (Option<bool>, Option<bool>)>, // (droppable, duplicatable)
}

const NEVER_DROP_NEVER_DUP: &[&str] = &[
    "RangeCheck", "RangeCheck96", "Bitwise", "Pedersen", "Poseidon", "EcOp", "SegmentArena", "GasBuiltin", "System", "AddMod",
    "MulMod", "Felt252Dict", "Felt252DictEntry", "U128MulGuarantee", "U96Guarantee",
];

impl Props<'_> {
    fn of(&mut self, ty: &ConcreteTypeId, depth: u32) -> (Option<bool>, Option<bool>) {
        if let Some(r) = self.memo.get(&ty.id) {
            return *r;
        }
        if depth > 12 {
            return (None, None);
        }
        let Some(decl) = self.program.type_declarations.iter().find(|d| d.id == *ty) else { return (None, None) };
        let name = decl.long_id.generic_id.0.as_str();
        let args = &decl.long_id.generic_args;
        let type_args: Vec<ConcreteTypeId> = args.iter().filter_map(|a| if let GenericArg::Type(t) = a { Some(t.clone()) } else { None }).collect();
        let r = if NEVER_DROP_NEVER_DUP.contains(&name) {
            (Some(false), Some(false))
        } else {
            match name {
                "Array" => {
                    let inner = type_args.first().map(|t| self.of(t, depth + 1)).unwrap_or((None, None));
                    (inner.0, Some(false))
                }
                "Struct" | "Enum" => {
                    let mut d = Some(true);
                    let mut c = Some(true);
                    for t in &type_args {
                        let (td, tc) = self.of(t, depth + 1);
                        d = match (d, td) {
                            (_, Some(false)) => Some(false),
                            (Some(true), Some(true)) => Some(true),
                            (Some(false), _) => Some(false),
                            _ => None,
                        };
                        c = match (c, tc) {
                            (_, Some(false)) => Some(false),
                            (Some(true), Some(true)) => Some(true),
                            (Some(false), _) => Some(false),
                            _ => None,
                        };
                    }
                    (d, c)
                }
                "Snapshot" => (Some(true), Some(true)),
                "NonZero" | "Box" | "Nullable" | "Span" => type_args.first().map(|t| self.of(t, depth + 1)).unwrap_or((None, None)),
                "Uninitialized" => (Some(true), Some(false)),
                "SquashedFelt252Dict" => (Some(true), Some(false)),
                "felt252" | "u8" | "u16" | "u32" | "u64" | "u128" | "i8" | "i16" | "i32" | "i64" | "i128" | "bytes31" | "BoundedInt" | "Const"
                | "ContractAddress" | "ClassHash" | "StorageAddress" | "StorageBaseAddress" | "EcPoint" | "EcState" | "BuiltinCosts" | "IntRange" => {
                    (Some(true), Some(true))
                }
                _ => (None, None),
            }
        };
        self.memo.insert(ty.id, r);
        r
    }
}

pub struct CheckStats {
    pub statements_visited: usize,
    pub merges: usize,
}

/// Checks every function of the program. Ok(stats) or the first rule violation.
pub fn check_program(program: &Program, registry: &Registry) -> Result<CheckStats, CheckError> {
    let mut stats = CheckStats { statements_visited: 0, merges: 0 };
    let mut props = Props { program, memo: HashMap::new() };
    // States are global per statement: every statement belongs to the code reached from some
    // function entry; two functions reaching the same statement must agree as well.
    let mut states: HashMap<usize, (State, usize)> = HashMap::new(); // statement -> (state, owner function index)
    for (fi, f) in program.funcs.iter().enumerate() {
        check_function(program, registry, f, fi, &mut states, &mut props, &mut stats)?;
    }
    Ok(stats)
}

fn check_function(
    program: &Program,
    registry: &Registry,
    f: &Function,
    fi: usize,
    states: &mut HashMap<usize, (State, usize)>,
    props: &mut Props<'_>,
    stats: &mut CheckStats,
) -> Result<(), CheckError> {
    let mut init: State = BTreeMap::new();
    if f.params.len() != f.signature.param_types.len() {
        return Err(err("signature", format!("function {} has {} params but {} param types", f.id, f.params.len(), f.signature.param_types.len())));
    }
    for (p, t) in f.params.iter().zip(&f.signature.param_types) {
        if p.ty != *t {
            return Err(err("signature", format!("function {}: param type differs from signature", f.id)));
        }
        if init.insert(p.id.id, p.ty.clone()).is_some() {
            return Err(err("param-overwrite", format!("function {}: parameter variable {} appears twice", f.id, p.id)));
        }
    }
    let mut work: VecDeque<usize> = VecDeque::new();
    merge(states, f.entry_point.0, init, fi, stats, "function entry")?;
    work.push_back(f.entry_point.0);
    let mut visited: std::collections::HashSet<usize> = Default::default();
    while let Some(idx) = work.pop_front() {
        if !visited.insert(idx) {
            continue;
        }
        stats.statements_visited += 1;
        let Some(stmt) = program.statements.get(idx) else {
            return Err(err("fall-off", format!("control reaches statement {idx} beyond the end of the program")));
        };
        let (state, owner) = states.get(&idx).cloned().unwrap();
        if owner != fi {
            // Reached from another function's entry before: states were compared in merge().
        }
        match stmt {
            Statement::Return(vars) => {
                let mut st = state.clone();
                if vars.len() != f.signature.ret_types.len() {
                    return Err(err("return-arity", format!("statement {idx}: returns {} values, function {} declares {}", vars.len(), f.id, f.signature.ret_types.len())));
                }
                for (v, t) in vars.iter().zip(&f.signature.ret_types) {
                    match st.remove(&v.id) {
                        Some(ty) if ty == *t => {}
                        Some(ty) => return Err(err("return-type", format!("statement {idx}: returned variable {v} has type {ty}, declared {t}"))),
                        None => return Err(err("return-missing-var", format!("statement {idx}: returned variable {v} is not live (or used twice)"))),
                    }
                }
                if !st.is_empty() {
                    return Err(err("dangling-at-return", format!("statement {idx}: variables {:?} are still live at return", st.keys().collect::<Vec<_>>())));
                }
            }
            Statement::Invocation(inv) => {
                let Ok(libfunc) = registry.get_libfunc(&inv.libfunc_id) else {
                    return Err(err("unknown-libfunc", format!("statement {idx}: libfunc {} is not declared", inv.libfunc_id)));
                };
                let params = libfunc.param_signatures();
                if params.len() != inv.args.len() {
                    return Err(err("arg-arity", format!("statement {idx}: {} takes {} arguments, {} given", inv.libfunc_id, params.len(), inv.args.len())));
                }
                let mut st = state.clone();
                for (a, p) in inv.args.iter().zip(params) {
                    match st.remove(&a.id) {
                        Some(ty) if ty == p.ty => {}
                        Some(ty) => return Err(err("arg-type", format!("statement {idx}: argument {a} of {} has type {ty}, expected {}", inv.libfunc_id, p.ty))),
                        None => return Err(err("arg-missing-var", format!("statement {idx}: argument {a} of {} is not live (moved, never defined, or used twice)", inv.libfunc_id))),
                    }
                }
                // dup / drop legality from the own table.
                let decl = program.libfunc_declarations.iter().find(|d| d.id == inv.libfunc_id);
                if let Some(decl) = decl {
                    let g = decl.long_id.generic_id.0.as_str();
                    if g == "drop" || g == "dup" {
                        if let Some(GenericArg::Type(t)) = decl.long_id.generic_args.first() {
                            let (droppable, dupable) = props.of(t, 0);
                            if g == "drop" && droppable == Some(false) {
                                return Err(err("drop-of-non-droppable", format!("statement {idx}: drop of type {t}")));
                            }
                            if g == "dup" && dupable == Some(false) {
                                return Err(err("dup-of-non-duplicatable", format!("statement {idx}: dup of type {t}")));
                            }
                        }
                    }
                }
                let sigs = libfunc.branch_signatures();
                if sigs.len() != inv.branches.len() {
                    return Err(err("branch-arity", format!("statement {idx}: {} has {} branches, {} given", inv.libfunc_id, sigs.len(), inv.branches.len())));
                }
                let multi = inv.branches.len() > 1;
                for (b, sig) in inv.branches.iter().zip(sigs) {
                    if b.results.len() != sig.vars.len() {
                        return Err(err("result-arity", format!("statement {idx}: branch returns {} values, {} bound", sig.vars.len(), b.results.len())));
                    }
                    let mut bs = st.clone();
                    for (r, info) in b.results.iter().zip(&sig.vars) {
                        if bs.insert(r.id, info.ty.clone()).is_some() {
                            return Err(err("result-overwrites-live-var", format!("statement {idx}: result {r} overwrites a live variable")));
                        }
                    }
                    let target = StatementIdx(idx).next(b.target).0;
                    let _: BranchTarget = b.target;
                    if multi {
                        // Every branch of a multi-branch invocation lands on an alignment point.
                        let ok = match program.statements.get(target) {
                            Some(Statement::Invocation(t)) => program
                                .libfunc_declarations
                                .iter()
                                .find(|d| d.id == t.libfunc_id)
                                .map(|d| d.long_id.generic_id.0 == "branch_align")
                                .unwrap_or(false),
                            _ => false,
                        };
                        if !ok {
                            return Err(err("branch-not-aligned", format!("statement {idx}: a branch of {} lands on statement {target} which is not branch_align", inv.libfunc_id)));
                        }
                    }
                    merge(states, target, bs, fi, stats, "branch target")?;
                    work.push_back(target);
                }
            }
        }
    }
    let _: Option<VarId> = None;
    Ok(())
}

fn merge(
    states: &mut HashMap<usize, (State, usize)>,
    target: usize,
    st: State,
    fi: usize,
    stats: &mut CheckStats,
    what: &str,
) -> Result<(), CheckError> {
    match states.get(&target) {
        None => {
            states.insert(target, (st, fi));
            Ok(())
        }
        Some((old, _)) => {
            stats.merges += 1;
            if *old != st {
                let only_old: Vec<_> = old.keys().filter(|k| !st.contains_key(k)).collect();
                let only_new: Vec<_> = st.keys().filter(|k| !old.contains_key(k)).collect();
                let ty_diff: Vec<_> = old.iter().filter(|(k, t)| st.get(k).map(|x| x != *t).unwrap_or(false)).map(|(k, _)| k).collect();
                Err(err(
                    "merge-mismatch",
                    format!("paths reaching statement {target} ({what}) disagree on the live variables: only on one path {only_old:?} / {only_new:?}, type differs for {ty_diff:?}"),
                ))
            } else {
                Ok(())
            }
        }
    }
}
