//! C08 — error-free programs always compile; ownership violations are always rejected.

use cairo_lang_compiler::db::RootDatabase;
use cairo_lang_sierra::program::Program;
use cairo_lang_sierra_generator::db::SierraGenGroup;
use cairo_lang_sierra_generator::replace_ids::replace_sierra_ids_in_program;
use serde_json::{Value, json};

use crate::core::cairo::{self, Plugins};
use crate::core::choices::{Choices, hash_str};
use crate::core::driver::{Agg, CaseCtx, Prop, Tier, Verdict, WorkerCtx, truncate};
use crate::core::exec::FrontCfg;
use crate::core::panics;
use crate::core::sierra::{self, Stage};
use crate::gens::own;
use crate::gens::textmut::{TokKind, rough_lex};
use crate::oracle::sierra_check;
use crate::props::execs;

pub struct C08;

/// Names of the `extern fn` / `extern type` items of the core library (scanned from /repo).
fn corelib_externs() -> &'static std::collections::HashSet<String> {
    static CELL: std::sync::OnceLock<std::collections::HashSet<String>> = std::sync::OnceLock::new();
    CELL.get_or_init(|| {
        let mut out = std::collections::HashSet::new();
        for (_, text) in crate::core::corpus::cairo_corpus(usize::MAX) {
            for kw in ["extern fn ", "extern const fn ", "extern type "] {
                for (i, _) in text.match_indices(kw) {
                    let rest = &text[i + kw.len()..];
                    let name: String = rest.chars().take_while(|c| c.is_ascii_alphanumeric() || *c == '_').collect();
                    if !name.is_empty() {
                        out.insert(name);
                    }
                }
            }
        }
        out
    })
}

/// True iff the source names a corelib extern item directly (as the e2e libfunc snippets do).
pub fn names_corelib_extern(source: &str) -> bool {
    let ex = corelib_externs();
    rough_lex(source).iter().any(|t| t.kind == TokKind::Ident && ex.contains(&source[t.start..t.end]))
}

pub enum Front {
    Rejected(String),
    Program(Program),
}

/// Diagnostics, then Sierra generation. Err = violation (signature, description).
pub fn front(db: &RootDatabase, name: &str, source: &str, settings: &str) -> Result<Front, (String, String)> {
    let input = cairo::virtual_crate_input(name, source, settings, None);
    // Diagnostics first, on their own: a salsa dependency-cycle panic raised while the diagnostics
    // of self-referential (garbled) items are computed is the root-cause family C09 lists as known
    // (queries without cycle recovery); it gets that family's signature here as well. The same
    // panic during Sierra generation of an error-free program keeps the generic signature.
    let (diags, err) = match panics::catch(|| cairo::has_errors(db, &input)) {
        Ok(x) => x,
        Err(p) if p.msg.starts_with("dependency graph cycle when querying ") => {
            return Err(("salsa-cycle:diagnostics-of-self-referential-items".to_string(), format!("computing the diagnostics panicked at {}: {}", p.loc, truncate(&p.msg, 300))));
        }
        Err(p) => return Err((format!("panic@{}", p.loc), format!("the compiler panicked at {} while computing diagnostics: {}", p.loc, truncate(&p.msg, 300)))),
    };
    let r = panics::catch(|| {
        if err {
            return Ok(Front::Rejected(diags.clone()));
        }
        let id = cairo::crate_id(db, &input);
        match db.get_sierra_program(vec![id]) {
            Ok(p) => Ok(Front::Program(replace_sierra_ids_in_program(db, &p.program))),
            Err(_) => {
                // Root-cause class: a call through a name that a local variable shadows is
                // reported as a warning only (E2184) although the call expression is dropped.
                if diags.contains("warning[E2184]") {
                    Err(("error-free-but-no-sierra:call-of-function-shadowed-by-local(E2184)".to_string(), format!("diagnostics are error-free (only warnings) but get_sierra_program fails; warnings:\n{}", truncate(&diags, 400))))
                } else {
                    Err(("error-free-but-no-sierra".to_string(), format!("diagnostics are error-free but get_sierra_program fails; warnings:\n{}", truncate(&diags, 400))))
                }
            }
        }
    });
    match r {
        Ok(x) => x,
        // A panic while only diagnostics were computed is C09's business as well, but C08 states
        // "without an internal compiler error or panic", so it is reported here too.
        Err(p) => {
            // Specialisation failures of a corelib extern that the source names directly (the
            // e2e libfunc snippets call externs directly; a type-name mutant then asks for an
            // unsupported instantiation) are one root-cause class.
            if let Some(name) = specialization_subject(&p.msg) {
                // (The failing libfunc may be one the named extern is implemented with, e.g.
                // `downcast` asking for `upcast`: naming any corelib extern directly is the class.)
                let named = rough_lex(source).iter().any(|t| t.kind == TokKind::Ident && source[t.start..t.end] == name) || names_corelib_extern(source);
                if named {
                    return Err(("specialization-panic:direct-use-of-corelib-extern".to_string(), format!("the source names the corelib extern `{name}` directly with unsupported generic arguments; no diagnostic, panic at {}: {}", p.loc, truncate(&p.msg, 300))));
                }
            }
            Err((format!("panic@{}", p.loc), format!("the compiler panicked at {}: {}", p.loc, truncate(&p.msg, 300))))
        }
    }
}

/// `Failed to specialize: \`name<..>\`` / `Got failure while specializing type \`name<..>\``.
fn specialization_subject(msg: &str) -> Option<String> {
    if !(msg.contains("Failed to specialize") || msg.contains("failure while specializing")) {
        return None;
    }
    let start = msg.find('`')? + 1;
    let rest = &msg[start..];
    let end = rest.find(|c: char| !(c.is_ascii_alphanumeric() || c == '_'))?;
    if end == 0 { None } else { Some(rest[..end].to_string()) }
}

/// Back end: registry (validation), own checker, metadata (both solvers for small programs), CASM.
pub fn back(p: &Program) -> Result<(), (String, String)> {
    let r = match sierra::pipeline(p, false) {
        Ok(r) => r,
        Err((pr, stage)) => return Err((format!("panic@{}", pr.loc), format!("{stage} panicked at {} on the compiler's own output: {}", pr.loc, truncate(&pr.msg, 300)))),
    };
    let bad = |name: &str, s: &Stage| -> Option<(String, String)> {
        match s {
            Stage::Accepted => None,
            Stage::RegistryErr(e) => Some(("error-free-but-sierra-invalid".into(), format!("ProgramRegistry rejects the generated Sierra: {e}"))),
            Stage::MetadataErr(e) => Some((format!("error-free-but-metadata-fails:{name}"), format!("metadata computation ({name}) fails on the generated Sierra: {e}"))),
            Stage::CompileErr(e) => Some((format!("error-free-but-casm-fails:{name}"), format!("Sierra -> CASM ({name}) fails on the generated Sierra: {e}"))),
        }
    };
    if let Some(x) = bad("linear, gas", &r.with_gas) {
        return Err(x);
    }
    if let Some(x) = bad("ap change only", &r.no_gas) {
        return Err(x);
    }
    if let Some(n) = &r.nonlinear {
        if let Some(x) = bad("non-linear", n) {
            return Err(x);
        }
    }
    if let Some(info) = &r.info {
        match panics::catch(|| sierra_check::check_program(p, &info.registry)) {
            Ok(Ok(_)) => {}
            Ok(Err(e)) => return Err((format!("generated-sierra-ill-formed:{}", e.rule), format!("the independent checker rejects the compiler's own Sierra: {} — {}", e.rule, e.detail))),
            Err(pr) => return Err((format!("checker-panic@{}", pr.loc), pr.msg)),
        }
    }
    Ok(())
}

const OPS: &[&str] = &["+", "-", "*", "/", "%", "==", "!=", "<", "<=", ">", ">=", "&", "|", "^", "&&", "||"];
const TYPES: &[&str] = &["u8", "u16", "u32", "u64", "u128", "u256", "i8", "i16", "i32", "i64", "i128", "felt252", "bool", "usize"];
const NUMS: &[&str] = &["0", "1", "2", "3", "7", "255", "256", "65535", "0xffffffff", "0x7f", "128", "1000000007"];

/// Acceptance-friendly token mutation: replacements that keep the token kind, line duplication,
/// deletion and swap. Returns a description, or None if nothing changed.
pub fn mutate(ch: &mut Choices, s: &mut String) -> Option<String> {
    let before = s.clone();
    let toks = rough_lex(s);
    let idx = |k: TokKind| -> Vec<usize> { (0..toks.len()).filter(|i| toks[*i].kind == k).collect() };
    let what = match ch.below(8) {
        0 => {
            let ids = idx(TokKind::Ident);
            if ids.len() < 2 {
                return None;
            }
            let a = toks[ids[ch.below(ids.len())]].clone();
            let b = toks[ids[ch.below(ids.len())]].clone();
            let sb = s[b.start..b.end].to_string();
            s.replace_range(a.start..a.end, &sb);
            format!("identifier@{} := {sb}", a.start)
        }
        1 => {
            let ps: Vec<usize> = idx(TokKind::Punct).into_iter().filter(|i| OPS.contains(&&s[toks[*i].start..toks[*i].end])).collect();
            if ps.is_empty() {
                return None;
            }
            let a = toks[ps[ch.below(ps.len())]].clone();
            let o = *ch.pick(OPS);
            s.replace_range(a.start..a.end, o);
            format!("operator@{} := {o}", a.start)
        }
        2 => {
            let ns = idx(TokKind::Number);
            if ns.is_empty() {
                return None;
            }
            let a = toks[ns[ch.below(ns.len())]].clone();
            let old = s[a.start..a.end].to_string();
            let suffix = old.find('_').map(|i| old[i..].to_string()).unwrap_or_default();
            let n = format!("{}{}", ch.pick(NUMS), suffix);
            s.replace_range(a.start..a.end, &n);
            format!("literal@{} := {n}", a.start)
        }
        3 => {
            let ts: Vec<usize> = idx(TokKind::Ident).into_iter().filter(|i| TYPES.contains(&&s[toks[*i].start..toks[*i].end])).collect();
            if ts.is_empty() {
                return None;
            }
            let a = toks[ts[ch.below(ts.len())]].clone();
            let t = *ch.pick(TYPES);
            s.replace_range(a.start..a.end, t);
            format!("type@{} := {t}", a.start)
        }
        k => {
            let mut lines: Vec<String> = s.lines().map(|l| l.to_string()).collect();
            let stmts: Vec<usize> = (0..lines.len()).filter(|i| lines[*i].trim_end().ends_with(';')).collect();
            if stmts.is_empty() {
                return None;
            }
            let i = stmts[ch.below(stmts.len())];
            let d = match k {
                4 | 5 => {
                    let l = lines[i].clone();
                    lines.insert(i, l);
                    format!("line {i} duplicated")
                }
                6 => {
                    lines.remove(i);
                    format!("line {i} deleted")
                }
                _ => {
                    if i + 1 < lines.len() && lines[i + 1].trim_end().ends_with(';') {
                        lines.swap(i, i + 1);
                        format!("lines {i},{} swapped", i + 1)
                    } else {
                        return None;
                    }
                }
            };
            *s = lines.join("\n") + "\n";
            d
        }
    };
    if *s == before { None } else { Some(what) }
}

fn settings_name(s: &str) -> &'static str {
    if s == cairo::SETTINGS_2023_01 { "2023_01" } else { "2024_07" }
}

fn art(kind: &str, origin: &str, source: &str, settings: &str, cfg: &FrontCfg, extra: Value) -> Value {
    json!({"kind": kind, "origin": origin, "source": source, "edition": settings_name(settings), "config": cfg.to_json(), "extra": extra})
}

/// Part A on one source: Ok(true) = error-free and compiled all the way, Ok(false) = rejected by
/// the front end.
fn part_a(db: &mut RootDatabase, name: &str, source: &str, settings: &str, cfg: &FrontCfg) -> Result<bool, (String, String)> {
    cfg.apply(db);
    let r = match front(db, name, source, settings) {
        Ok(Front::Rejected(_)) => Ok(false),
        Ok(Front::Program(p)) => back(&p).map(|_| true),
        Err(e) => Err(e),
    };
    // Root-cause class of one known finding, decided causally: a value that can only be
    // panic-destructed, created on one path before a merge and abandoned there, is accepted by the
    // borrow checker (every path ends with a panic) but its panic_destruct call is placed after the
    // merge, where the variable does not exist; with optimisations off Sierra generation panics
    // 'vN is used before it is introduced'. If the same source with `Drop` instead of
    // `PanicDestruct` compiles, that is the cause.
    if let Err((sig, what)) = &r {
        if sig == "panic@crates/cairo-lang-sierra-generator/src/lifetime.rs:119" && source.contains("derive(PanicDestruct)") {
            let twin = source.replace("derive(PanicDestruct)", "derive(Drop)");
            let name2 = format!("{name}_d");
            let ok = matches!(front(db, &name2, &twin, settings), Ok(Front::Program(p)) if back(&p).is_ok());
            if ok {
                return Err((format!("{sig}:panic-destruct-of-value-abandoned-before-a-merge"), what.clone()));
            }
        }
    }
    r
}

impl Prop for C08 {
    fn id(&self) -> &'static str {
        "C08"
    }
    fn rule(&self) -> String {
        "Part A (error-free => compiles): sources are (1) generated typed programs, (2) acceptance-friendly token \
         mutants (identifier / operator / literal / type-name replacement, statement-line duplication, deletion, \
         swap; 1-3 per case) of generated programs, e2e snippets, example files and ownership programs, kept iff \
         the diagnostics are error-free, (3) the valid twins of part B. Each goes, under a random configuration \
         (optimisations off / on x inlining strategy x skip_const_folding x numeric-match threshold), through \
         diagnostics -> get_sierra_program -> ProgramRegistryInfo::new -> my own Sierra checker (C15's oracle) -> \
         calc_metadata (the default linear solvers; ap-change only) -> compile; any error or \
         panic after error-free diagnostics is a violation. Part B (ownership violations rejected): ownership \
         programs move non-copyable droppable (struct with array, Array, pair struct) and non-droppable values \
         through lets, calls, struct construction / destructuring, partial member moves, closures, ref and \
         snapshot uses, branches (moved in one arm only; non-droppable consumed in both), loops and owned \
         parameters; the generator tracks the moved state on every path and records injection sites: a second use \
         of a moved value (by value, let, snapshot, ref, member, whole after partial move, member twice, move of \
         an outer value inside a loop) or a non-droppable value left unconsumed (consumption removed on one \
         path, or never consumed). The twin with one injection must have an error diagnostic. Non-trivial = an \
         error-free source compiled under a non-default configuration, or an injected twin judged; distinct = \
         hash(source, configuration)."
            .into()
    }
    fn assumptions(&self) -> Vec<String> {
        vec![
            "the valid twin of an ownership program must itself be error-free, otherwise the pair is skipped and counted (generator soundness is monitored by the health check, not assumed)".into(),
        ]
    }
    fn crash_type(&self) -> bool {
        true
    }
    fn worker(&self, ctx: &mut WorkerCtx) {
        let snippets = execs::load_snippets();
        let cases = ctx.tier.pick(60, 600);
        ctx.shrink_iters = 120;
        let mut db = FrontCfg::default_cfg().new_db(Plugins::Default);
        let mut n = 0u64;
        ctx.run_shards(1400, cases, |cc: &mut CaseCtx<'_>, ch: &mut Choices| {
            n += 1;
            if n % 40 == 0 {
                db = FrontCfg::default_cfg().new_db(Plugins::Default);
            }
            let cfg = if ch.chance(1, 4) { FrontCfg::default_cfg() } else { FrontCfg::generate(ch) };
            let nondefault = cfg != FrontCfg::default_cfg();
            let mode = ch.weighted(&[2, 4, 5]);
            match mode {
                0 | 1 => {
                    // Source selection: generated / snippet / ownership valid twin.
                    let (origin, mut source, settings) = match ch.weighted(&[4, 4, 2, 2]) {
                        3 => {
                            // Corelib-heavy functions (iterators, hashes, EC, dictionaries, containers
                            // over non-copyable elements): one to three of them in one crate.
                            use crate::gens::corelib_heavy as ch_;
                            let k = 1 + ch.below(3);
                            let mut picked: Vec<usize> = (0..k).map(|_| ch.below(ch_::FUNCS.len())).collect();
                            picked.sort();
                            picked.dedup();
                            let body: String = picked.iter().map(|i| ch_::FUNCS[*i]).collect();
                            ("corelib-heavy".to_string(), format!("{}{}", ch_::HEADER, body), cairo::SETTINGS_2024_07)
                        }
                        0 => {
                            let c = execs::pick_case(ch, &[], 10, 0);
                            ("generated".to_string(), c.source, cairo::SETTINGS_2024_07)
                        }
                        1 if !snippets.is_empty() => {
                            let s = &snippets[ch.below(snippets.len())];
                            (s.origin.clone(), s.code.clone(), s.settings)
                        }
                        _ => ("ownership".to_string(), own::generate(ch).valid(), cairo::SETTINGS_2024_07),
                    };
                    let mut muts = vec![];
                    if mode == 1 {
                        let k = 1 + ch.below(3);
                        for _ in 0..k {
                            if let Some(m) = mutate(ch, &mut source) {
                                muts.push(m);
                            }
                        }
                        if muts.is_empty() {
                            return Verdict::Skip("mutation changed nothing");
                        }
                    }
                    if mode == 1 && (source.contains("extern fn") || source.contains("extern type")) {
                        // Extern declarations are a trusted interface to Sierra: a mutant that
                        // changes a declared signature is not a program of the property's domain.
                        cc.stats().count("excluded:mutant_of_source_with_extern_declarations");
                        return Verdict::Skip("extern declarations");
                    }
                    let a = art("compile", &origin, &source, settings, &cfg, json!({"mutations": muts}));
                    cc.start(|| a.clone());
                    let name = format!("p{}", hash_str(&source) % 1_000_000);
                    match part_a(&mut db, &name, &source, settings, &cfg) {
                        Ok(true) => {
                            let st = cc.stats();
                            st.eval();
                            st.count(if mode == 1 { "accepted_mutants_compiled" } else { "unmutated_sources_compiled" });
                            st.count(&format!("compiled:{}", if origin == "generated" || origin == "ownership" || origin == "corelib-heavy" { origin.as_str() } else { "corpus" }));
                            if nondefault {
                                st.nontrivial(hash_str(&source) ^ hash_str(&cfg.describe()));
                            }
                            st.sample(1, || json!({"origin": origin, "mutations": muts, "config": cfg.describe(), "verdict": "error-free; Sierra valid; metadata and CASM produced"}));
                            Verdict::Pass
                        }
                        Ok(false) => {
                            cc.stats().eval();
                            cc.stats().count(if mode == 1 { "mutants_rejected_by_front_end" } else { "unmutated_sources_rejected_by_front_end" });
                            Verdict::Pass
                        }
                        Err((sig, what)) => {
                            // A *mutant* of a source that names corelib externs directly asks a libfunc
                            // for an instantiation it does not support; the front end has no per-libfunc
                            // argument validation, so the rejection comes late (one known root cause).
                            // Panics elsewhere keep their own signature.
                            if mode == 1 && !sig.starts_with("panic@") && !sig.starts_with("specialization-panic") && names_corelib_extern(&source) {
                                return Verdict::fail("late-rejection:mutant-of-source-naming-a-corelib-extern", format!("[{sig}] {what}"), a);
                            }
                            Verdict::fail(sig, what, a)
                        }
                    }
                }
                _ => {
                    let op = own::generate(ch);
                    if op.injections.is_empty() {
                        return Verdict::Skip("no injection site");
                    }
                    // Kind first (uniform over the kinds available), then a site of that kind.
                    let mut kinds: Vec<&'static str> = op.injections.iter().map(|i| i.kind).collect();
                    kinds.sort();
                    kinds.dedup();
                    let kind = *ch.pick(&kinds);
                    let of_kind: Vec<&own::Injection> = op.injections.iter().filter(|i| i.kind == kind).collect();
                    let inj = of_kind[ch.below(of_kind.len())].clone();
                    let valid = op.valid();
                    let invalid = op.invalid(&inj);
                    let a = art("ownership", "ownership", &invalid, cairo::SETTINGS_2024_07, &cfg, json!({"injection": inj.kind, "valid_twin": valid}));
                    cc.start(|| a.clone());
                    let name = format!("p{}", hash_str(&valid) % 1_000_000);
                    match part_a(&mut db, &name, &valid, cairo::SETTINGS_2024_07, &cfg) {
                        Ok(true) => {}
                        Ok(false) => {
                            cc.stats().count("valid_twin_rejected(generator)");
                            if std::env::var("VERIF_DBG").is_ok() {
                                if let Ok(Front::Rejected(d)) = front(&db, &name, &valid, cairo::SETTINGS_2024_07) {
                                    eprintln!("VALID TWIN REJECTED:\n{valid}\n{d}");
                                }
                            }
                            return Verdict::Skip("valid twin rejected");
                        }
                        Err((sig, what)) => {
                            let a = art("compile", "ownership", &valid, cairo::SETTINGS_2024_07, &cfg, json!({}));
                            return Verdict::fail(sig, what, a);
                        }
                    }
                    let name2 = format!("q{}", hash_str(&invalid) % 1_000_000);
                    match front(&db, &name2, &invalid, cairo::SETTINGS_2024_07) {
                        Ok(Front::Rejected(d)) => {
                            let st = cc.stats();
                            st.eval();
                            st.count("injected_twins_rejected");
                            st.count(&format!("injection:{}", inj.kind));
                            for f in &op.features {
                                st.count(&format!("feature:{f}"));
                            }
                            if d.contains("previously moved") {
                                st.count("diagnostic:previously-moved");
                            } else if d.contains("not dropped") {
                                st.count("diagnostic:not-dropped");
                            } else {
                                st.count("diagnostic:other-error");
                            }
                            st.nontrivial(hash_str(&invalid));
                            st.sample(1, || json!({"injection": inj.kind, "inserted": inj.text, "features": op.features, "verdict": "rejected with an error"}));
                            Verdict::Pass
                        }
                        Ok(Front::Program(_)) => Verdict::fail(
                            format!("ownership-violation-accepted:{}", inj.kind),
                            format!("the program with the injected violation ({}: {:?} at line {}) has no error diagnostic", inj.kind, inj.text, inj.at),
                            a,
                        ),
                        Err((sig, what)) => Verdict::fail(sig, what, a),
                    }
                }
            }
        });
    }
    fn replay(&self, a: &Value) -> Verdict {
        let cfg = FrontCfg::from_json(&a["config"]);
        let mut db = cfg.new_db(Plugins::Default);
        let source = a["source"].as_str().unwrap_or("");
        let settings = if a["edition"].as_str() == Some("2023_01") { cairo::SETTINGS_2023_01 } else { cairo::SETTINGS_2024_07 };
        let name = format!("p{}", hash_str(source) % 1_000_000);
        if a["kind"].as_str() == Some("ownership") {
            let valid = a["extra"]["valid_twin"].as_str().unwrap_or("");
            match part_a(&mut db, "valid", valid, settings, &cfg) {
                Ok(true) => {}
                Ok(false) => return Verdict::Skip("valid twin rejected"),
                Err((sig, what)) => return Verdict::fail(sig, what, a.clone()),
            }
            return match front(&db, &name, source, settings) {
                Ok(Front::Rejected(_)) => Verdict::Pass,
                Ok(Front::Program(_)) => Verdict::fail(
                    format!("ownership-violation-accepted:{}", a["extra"]["injection"].as_str().unwrap_or("?")),
                    "the program with the injected violation has no error diagnostic",
                    a.clone(),
                ),
                Err((sig, what)) => Verdict::fail(sig, what, a.clone()),
            };
        }
        match part_a(&mut db, &name, source, settings, &cfg) {
            Ok(_) => Verdict::Pass,
            Err((sig, what)) => {
                let mutated = a["extra"]["mutations"].as_array().map(|m| !m.is_empty()).unwrap_or(false);
                if mutated && !sig.starts_with("panic@") && !sig.starts_with("specialization-panic") && names_corelib_extern(source) {
                    return Verdict::fail("late-rejection:mutant-of-source-naming-a-corelib-extern", format!("[{sig}] {what}"), a.clone());
                }
                Verdict::fail(sig, what, a.clone())
            }
        }
    }
    fn health(&self, _tier: Tier, agg: &Agg) -> Result<(), String> {
        let rej = agg.class("valid_twin_rejected(generator)");
        let ok = agg.class("injected_twins_rejected");
        if rej * 10 > ok + rej {
            return Err(format!("{rej} of {} ownership programs were rejected before any injection: the generator's model of the ownership rules is off", ok + rej));
        }
        if agg.class("accepted_mutants_compiled") < 50 {
            return Err("fewer than 50 accepted mutants went through the back end".into());
        }
        Ok(())
    }
}
