//! C18 — Sierra programs survive every serialisation unchanged.

use cairo_lang_sierra::ProgramParser;
use cairo_lang_sierra::program::{GenericArg, Program, ProgramArtifact, VersionedProgram};
use cairo_lang_sierra_generator::canonical_id_replacer::CanonicalReplacer;
use cairo_lang_sierra_generator::db::SierraGenGroup;
use cairo_lang_sierra_generator::replace_ids::{SierraIdReplacer, replace_sierra_ids_in_program};
use cairo_lang_starknet_classes::contract_class::{ContractClass, ContractEntryPoints};
use num_traits::Signed;
use serde_json::{Value, json};

use crate::core::cairo::{self, Plugins};
use crate::core::choices::{Choices, hash_str};
use crate::core::driver::{Agg, CaseCtx, Prop, Tier, Verdict, WorkerCtx, truncate};
use crate::core::exec::FrontCfg;
use crate::core::panics;
use crate::core::sierra::{self, Stage};
use crate::props::{c01, execs};

pub struct C18;

fn canon(p: &Program) -> Program {
    CanonicalReplacer::from_program(p).apply(p)
}

/// Canonical ids for types / libfuncs / functions and, in addition, user type ids renamed by order
/// of first appearance (they are hashes of names, which the text format may re-spell).
fn iso_key(p: &Program) -> Program {
    let mut q = canon(p);
    let mut map: Vec<num_bigint::BigUint> = vec![];
    let mut fix = |args: &mut Vec<GenericArg>| {
        for a in args.iter_mut() {
            if let GenericArg::UserType(u) = a {
                let i = match map.iter().position(|x| *x == u.id) {
                    Some(i) => i,
                    None => {
                        map.push(u.id.clone());
                        map.len() - 1
                    }
                };
                u.id = num_bigint::BigUint::from(i);
                u.debug_name = None;
            }
        }
    };
    for t in q.type_declarations.iter_mut() {
        fix(&mut t.long_id.generic_args);
    }
    for l in q.libfunc_declarations.iter_mut() {
        fix(&mut l.long_id.generic_args);
    }
    q
}

fn casm_text(p: &Program) -> Option<String> {
    let r = sierra::pipeline(p, false).ok()?;
    if r.with_gas == Stage::Accepted || r.no_gas == Stage::Accepted {
        r.casm.map(|c| c.to_string())
    } else {
        None
    }
}

#[derive(Default)]
pub struct Kinds {
    pub value: bool,
    pub negative_value: bool,
    pub user_type: bool,
    pub user_func: bool,
    pub libfunc: bool,
}

pub fn kinds(p: &Program) -> Kinds {
    let mut k = Kinds::default();
    let mut see = |args: &Vec<GenericArg>| {
        for a in args {
            match a {
                GenericArg::Value(v) => {
                    k.value = true;
                    if v.is_negative() {
                        k.negative_value = true;
                    }
                }
                GenericArg::UserType(_) => k.user_type = true,
                GenericArg::UserFunc(_) => k.user_func = true,
                GenericArg::Libfunc(_) => k.libfunc = true,
                GenericArg::Type(_) => {}
            }
        }
    };
    for t in &p.type_declarations {
        see(&t.long_id.generic_args);
    }
    for l in &p.libfunc_declarations {
        see(&l.long_id.generic_args);
    }
    k
}

/// All round trips of one program. `named` = the same program with debug names (if available).
pub fn judge(p: &Program, named: Option<&Program>) -> Result<(), (String, String)> {
    // (1) text round trip, for the raw-id and the debug-name rendering.
    let mut parsed_any: Option<Program> = None;
    for (label, q) in [("ids", Some(p)), ("names", named)] {
        let Some(q) = q else { continue };
        let text = q.to_string();
        let parsed = match panics::catch(|| ProgramParser::new().parse(&text)) {
            Ok(Ok(x)) => x,
            Ok(Err(e)) => {
                let es = format!("{e:?}");
                // Locate the offending text for the description.
                let snippet = es.split("location: ").nth(1).and_then(|s| s.split(|c: char| !c.is_ascii_digit()).next()).and_then(|n| n.parse::<usize>().ok()).map(|i| truncate(&text[i.saturating_sub(60).min(text.len())..(i + 30).min(text.len())], 120)).unwrap_or_default();
                let class = es.split('{').next().unwrap_or("?").trim().to_string();
                return Err((format!("text-parse-fails:{class}"), format!("the printed program ({label}) is rejected by ProgramParser: {} near {snippet:?}", truncate(&es, 200))));
            }
            Err(pr) => return Err((format!("text-parse-panics@{}", pr.loc), format!("ProgramParser panicked on the printed program ({label}): {}", truncate(&pr.msg, 200)))),
        };
        // "Display is a fixpoint after one round": the second and third renderings are equal.
        let text2 = parsed.to_string();
        if text2 != text {
            match panics::catch(|| ProgramParser::new().parse(&text2)) {
                Ok(Ok(p2)) => {
                    let text3 = p2.to_string();
                    if text3 != text2 {
                        let (a, b) = first_diff_line(&text2, &text3);
                        return Err(("text-not-a-fixpoint-after-one-round".into(), format!("display(parse(.)) keeps changing the text ({label}):\n  round 1: {a}\n  round 2: {b}")));
                    }
                }
                _ => return Err(("text-second-parse-fails".into(), format!("the re-printed program ({label}) no longer parses"))),
            }
        }
        if iso_key(&parsed) != iso_key(q) {
            return Err(("text-roundtrip-not-isomorphic".into(), format!("the parsed program ({label}) is not the printed one up to a consistent renaming of ids: {}", describe_program_diff(&iso_key(q), &iso_key(&parsed)))));
        }
        parsed_any = Some(parsed);
    }
    // (2) felt252 serialisation (the public face: ContractClass).
    let c = canon(p);
    let class = panics::catch(|| ContractClass::new(&c, ContractEntryPoints::default(), None, Default::default()));
    let felt_rt: Option<Program>;
    match class {
        Ok(Ok(class)) => match panics::catch(|| class.extract_sierra_program(false)) {
            Ok(Ok(x)) => {
                if x.program != c {
                    return Err(("felt-roundtrip-differs".into(), describe_program_diff(&c, &x.program)));
                }
                felt_rt = Some(x.program);
            }
            Ok(Err(e)) => return Err(("felt-deserialise-fails".into(), format!("{e:?}"))),
            Err(pr) => return Err((format!("felt-deserialise-panics@{}", pr.loc), pr.msg)),
        },
        Ok(Err(e)) => return Err(("felt-serialise-fails".into(), format!("{e:?}"))),
        Err(pr) => return Err((format!("felt-serialise-panics@{}", pr.loc), pr.msg)),
    }
    // (2b) Debug names put back from the class's debug info (DebugInfo::extract at construction,
    // DebugInfo::populate at extraction): the populated program, printed and parsed, is still the
    // same program up to a consistent renaming, and compiles to the same CASM (checked in (4)).
    let mut populated: Option<Program> = None;
    let has_names = |q: &Program| q.funcs.iter().any(|f| f.id.debug_name.is_some()) || q.type_declarations.iter().any(|d| d.id.debug_name.is_some());
    if let Some(q) = [named, Some(p)].into_iter().flatten().find(|q| has_names(q)) {
        // As in contract compilation: canonical ids (the felt form needs declarations in id order),
        // debug names kept.
        let cq = canon(q);
        let class = panics::catch(|| ContractClass::new(&cq, ContractEntryPoints::default(), None, Default::default()));
        if std::env::var("VERIF_DEBUG_C18").is_ok() {
            eprintln!("c18 2b: class ok={} user_func={} err={:?}", matches!(class, Ok(Ok(_))), kinds(q).user_func, class.as_ref().map(|r| r.as_ref().err().map(|e| format!("{e:?}"))).ok());
        }
        if let Ok(Ok(class)) = class {
            match panics::catch(|| class.extract_sierra_program(true)) {
                Ok(Ok(x)) => {
                    let text = x.program.to_string();
                    match panics::catch(|| ProgramParser::new().parse(&text)) {
                        Ok(Ok(px)) => {
                            let Ok(px_key) = panics::catch(|| iso_key(&px)) else {
                                return Err((
                                    "debug-info-populate-dangling-id".into(),
                                    "the program with debug names restored by DebugInfo::populate, printed and parsed, refers to an id that is not declared in it (some occurrence kept its number while its declaration got the name)".into(),
                                ));
                            };
                            if px_key != iso_key(q) {
                                return Err((
                                    "debug-info-populate-not-isomorphic".into(),
                                    format!("the program with debug names restored by DebugInfo::populate, printed and parsed, is not the original up to a consistent renaming of ids: {}", describe_program_diff(&iso_key(q), &px_key)),
                                ));
                            }
                            populated = Some(px);
                        }
                        Ok(Err(e)) => return Err(("debug-info-populate-text-parse-fails".into(), format!("the printed populated program is rejected by ProgramParser: {}", truncate(&format!("{e:?}"), 200)))),
                        Err(pr) => return Err((format!("text-parse-panics@{}", pr.loc), pr.msg)),
                    }
                }
                Ok(Err(e)) => return Err(("felt-deserialise-fails:with-debug-info".into(), format!("{e:?}"))),
                Err(pr) => return Err((format!("debug-info-populate-panics@{}", pr.loc), pr.msg)),
            }
        }
    }
    // (3) versioned JSON.
    for q in [Some(p), named].into_iter().flatten() {
        let v = VersionedProgram::v1(ProgramArtifact::stripped(q.clone()));
        let s1 = serde_json::to_string(&v).map_err(|e| ("json-serialise-fails".to_string(), e.to_string()))?;
        let v2: VersionedProgram = serde_json::from_str(&s1).map_err(|e| ("json-deserialise-fails".to_string(), e.to_string()))?;
        if v2 != v {
            return Err(("json-roundtrip-differs".into(), "VersionedProgram value changed by a JSON round trip".into()));
        }
        let s2 = serde_json::to_string(&v2).unwrap_or_default();
        if s1 != s2 {
            return Err(("json-not-a-fixpoint".into(), "JSON text changes on a second round".into()));
        }
        // Debug names must survive as well (identity ignores them).
        if v2.to_string() != v.to_string() {
            return Err(("json-loses-names".into(), "the printed program differs after a JSON round trip".into()));
        }
    }
    // (4) CASM equality across renderings.
    if let Some(base) = casm_text(p) {
        let mut variants: Vec<(&str, Program)> = vec![("canonical ids", c)];
        if let Some(n) = named {
            variants.push(("debug names", n.clone()));
        }
        if let Some(x) = parsed_any {
            variants.push(("parsed from text", x));
        }
        if let Some(x) = felt_rt {
            variants.push(("felt round trip", x));
        }
        if let Some(x) = populated {
            variants.push(("debug names restored from debug info, printed and parsed", x));
        }
        for (label, q) in variants {
            match casm_text(&q) {
                Some(t) if t == base => {}
                Some(t) => {
                    let (a, b) = first_diff_line(&base, &t);
                    return Err((format!("casm-differs:{label}"), format!("CASM of the program with {label} differs:\n  {a}\n  {b}")));
                }
                None => return Err((format!("casm-missing:{label}"), format!("the program with {label} no longer compiles"))),
            }
        }
    }
    Ok(())
}

fn first_diff_line(a: &str, b: &str) -> (String, String) {
    for (x, y) in a.lines().zip(b.lines()) {
        if x != y {
            return (truncate(x, 200), truncate(y, 200));
        }
    }
    (format!("<{} lines>", a.lines().count()), format!("<{} lines>", b.lines().count()))
}

fn describe_program_diff(a: &Program, b: &Program) -> String {
    if a.type_declarations != b.type_declarations {
        let i = a.type_declarations.iter().zip(&b.type_declarations).position(|(x, y)| x != y);
        return format!("type declarations differ at {i:?}: {:?} vs {:?}", i.map(|i| a.type_declarations[i].long_id.to_string()), i.map(|i| b.type_declarations[i].long_id.to_string()));
    }
    if a.libfunc_declarations != b.libfunc_declarations {
        let i = a.libfunc_declarations.iter().zip(&b.libfunc_declarations).position(|(x, y)| x != y);
        return format!("libfunc declarations differ at {i:?}: {:?} vs {:?}", i.map(|i| a.libfunc_declarations[i].long_id.to_string()), i.map(|i| b.libfunc_declarations[i].long_id.to_string()));
    }
    if a.statements != b.statements {
        return "statements differ".into();
    }
    "functions differ".into()
}

/// Raw-id and debug-name Sierra of a source (None if it does not compile).
fn compile_both(db: &cairo_lang_compiler::db::RootDatabase, name: &str, src: &str, settings: &str) -> Option<(Program, Program)> {
    let input = cairo::virtual_crate_input(name, src, settings, None);
    let (_d, err) = cairo::has_errors(db, &input);
    if err {
        return None;
    }
    let id = cairo::crate_id(db, &input);
    let p = db.get_sierra_program(vec![id]).ok()?;
    Some((p.program.clone(), replace_sierra_ids_in_program(db, &p.program)))
}

pub fn debug_file(src: &str, settings: &str) -> Result<(), (String, String)> {
    let db = FrontCfg::default_cfg().new_db(Plugins::Default);
    let Some((a, b)) = compile_both(&db, "test", src, settings) else { return Err(("does-not-compile".into(), String::new())) };
    println!("{b}");
    judge(&a, Some(&b))
}

impl Prop for C18 {
    fn id(&self) -> &'static str {
        "C18"
    }
    fn rule(&self) -> String {
        // (2b) was added after seeded change C18-r3.
        "Programs: (a) every corpus `.sierra` file and e2e `sierra_code` section that parses, (b) Sierra compiled by \
         the compiler itself from generated programs (numeric matches, consts, generic corelib code, closures, \
         specialised functions), e2e snippets and example files - each both with raw ids and with debug names. \
         Oracles per program: display -> ProgramParser -> display is a fixpoint and isomorphic (canonical ids equal); \
         ContractClass::new(canon(s)).extract_sierra_program() == canon(s); the named program extracted with its debug info populated (DebugInfo::extract / populate), printed and parsed, is isomorphic to the original; VersionedProgram JSON round trip equal \
         (value, text, printed form); CASM text equal across raw ids, debug names, canonical ids, parsed, \
         felt-round-tripped and debug-info-populated versions. Every e2e snippet and example is swept under the default configuration in every run; the sampled part adds the corpus Sierra, generated programs and drawn configurations. Non-trivial = program with a generic argument kind beyond plain types (value, \
         negative value, user type, user function, libfunc); distinct = hash of the printed program."
            .into()
    }
    fn assumptions(&self) -> Vec<String> {
        vec!["isomorphism is judged by equality after CanonicalReplacer (order-of-appearance renaming); identity of ids ignores debug names by design".into()]
    }
    fn worker(&self, ctx: &mut WorkerCtx) {
        let corpus = sierra::load_corpus(ctx.tier.pick(800, 20000));
        let snippets = execs::load_snippets();
        let cases = ctx.tier.pick(30, 300);
        ctx.shrink_iters = 100;
        // Full sweep: every e2e snippet / example, compiled under the default configuration, goes
        // through all round trips in every run (constructs that occur in a handful of snippets
        // only - coupons, circuits, closures - are then never left to the luck of sampling).
        if ctx.only.is_none() {
            let n_shards = ctx.n_shards;
            let sdb = FrontCfg::default_cfg().new_db(Plugins::Default);
            ctx.enumerate_shards(|ctx, shard| {
                for (i, s) in snippets.iter().enumerate() {
                    if i as u64 % n_shards != shard {
                        continue;
                    }
                    let Ok(Some((a, b))) = panics::catch(|| compile_both(&sdb, "test", &s.code, s.settings)) else {
                        ctx.stats.count("sweep_snippet_not_compilable_standalone");
                        continue;
                    };
                    ctx.stats.eval();
                    ctx.stats.count("sweep_snippets");
                    let k = kinds(&a);
                    if k.user_func {
                        ctx.stats.count("sweep_with_user_funcs");
                    }
                    if k.value || k.user_type || k.user_func || k.libfunc {
                        ctx.stats.nontrivial(hash_str(&b.to_string()));
                    }
                    if let Err((sig, what)) = judge(&a, Some(&b)) {
                        let f = crate::core::driver::Failure {
                            sig,
                            what,
                            artefact: json!({"origin": s.origin, "versioned_program": serde_json::to_value(VersionedProgram::v1(ProgramArtifact::stripped(b.clone()))).unwrap_or(Value::Null), "named": true}),
                        };
                        ctx.report(&f, shard);
                    }
                }
            });
        }
        let mut db = FrontCfg::default_cfg().new_db(Plugins::Default);
        let mut n = 0u64;
        ctx.run_shards(1300, cases, |cc: &mut CaseCtx<'_>, ch: &mut Choices| {
            n += 1;
            if n % 60 == 0 {
                db = FrontCfg::default_cfg().new_db(Plugins::Default);
            }
            let which = ch.weighted(&[3, 3, 2]);
            let cfg = if ch.bool() { FrontCfg::default_cfg() } else { FrontCfg::generate(ch) };
            let (origin, p, named): (String, Program, Option<Program>) = match which {
                0 if !corpus.is_empty() => {
                    let it = &corpus[ch.below(corpus.len())];
                    (it.origin.clone(), it.program.clone(), None)
                }
                1 => {
                    let case = c01::gen_case(ch, 1);
                    cfg.apply(&mut db);
                    let name = format!("g{}", hash_str(&case.source) % 1_000_000);
                    match panics::catch(|| compile_both(&db, &name, &case.source, cairo::SETTINGS_2024_07)) {
                        Ok(Some((a, b))) => ("generated".into(), a, Some(b)),
                        _ => return Verdict::Skip("generated program does not compile"),
                    }
                }
                _ => {
                    let s = &snippets[ch.below(snippets.len())];
                    cfg.apply(&mut db);
                    match panics::catch(|| compile_both(&db, "test", &s.code, s.settings)) {
                        Ok(Some((a, b))) => (s.origin.clone(), a, Some(b)),
                        _ => return Verdict::Skip("snippet does not compile standalone"),
                    }
                }
            };
            let st = cc.stats();
            st.eval();
            let k = kinds(&p);
            for (c, on) in [("with_value_args", k.value), ("with_negative_value_args", k.negative_value), ("with_user_types", k.user_type), ("with_user_funcs", k.user_func), ("with_libfunc_args", k.libfunc)] {
                if on {
                    st.count(c);
                }
            }
            st.count(match which {
                0 => "corpus_sierra",
                1 => "compiled_from_generated",
                _ => "compiled_from_snippets",
            });
            let text = named.as_ref().unwrap_or(&p).to_string();
            if k.value || k.user_type || k.user_func || k.libfunc {
                st.nontrivial(hash_str(&text));
            }
            st.sample(1, || json!({"origin": origin, "statements": p.statements.len(), "first_lines": truncate(&text, 300)}));
            match judge(&p, named.as_ref()) {
                Ok(()) => Verdict::Pass,
                Err((sig, what)) => Verdict::fail(sig, what, json!({"origin": origin, "versioned_program": serde_json::to_value(VersionedProgram::v1(ProgramArtifact::stripped(named.clone().unwrap_or(p.clone())))).unwrap_or(Value::Null), "named": named.is_some()})),
            }
        });
    }
    fn replay(&self, artefact: &Value) -> Verdict {
        // The artefact stores the program as versioned JSON (debug names included when present).
        let Ok(v) = serde_json::from_value::<VersionedProgram>(artefact["versioned_program"].clone()) else { return Verdict::Skip("bad artefact") };
        let Ok(a) = v.into_v1() else { return Verdict::Skip("bad artefact") };
        let named = a.program;
        // Raw-id version: strip debug names.
        let stripped: Program = canon(&named);
        let r = if artefact["named"].as_bool().unwrap_or(false) { judge(&stripped, Some(&named)) } else { judge(&named, None) };
        match r {
            Ok(()) => Verdict::Pass,
            Err((sig, what)) => Verdict::fail(sig, what, artefact.clone()),
        }
    }
    fn health(&self, _tier: Tier, agg: &Agg) -> Result<(), String> {
        for c in ["corpus_sierra", "compiled_from_generated", "compiled_from_snippets", "with_user_types", "with_user_funcs", "with_value_args"] {
            if agg.class(c) == 0 {
                return Err(format!("class {c} is empty"));
            }
        }
        Ok(())
    }
}
