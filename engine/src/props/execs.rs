//! Shared execution-case machinery for the trace/result properties (C02, C04, C05, C17):
//! sources of (program, function, arguments), compilation under configurations, gas sweeps.

use cairo_lang_compiler::db::RootDatabase;
use cairo_lang_runner::Arg;
use cairo_lang_sierra::program::Function;
use serde_json::{Value, json};

use crate::core::cairo::{self, Plugins};
use crate::core::choices::{Choices, hash_str};
use crate::core::corpus;
use crate::core::driver::{CaseCtx, Verdict, truncate};
use crate::core::exec::{self, CompileErr, Compiled, Exec, ExecErr, FrontCfg, MetaCfg};
use crate::core::panics;
use crate::gens::sierra_args;
use crate::oracle::eval::{Interp, Outcome};
use crate::props::c01;

pub struct Snippet {
    pub origin: String,
    pub code: String,
    pub settings: &'static str,
}

/// Cairo sources from the repo that define runnable free functions: e2e `cairo_code` sections and
/// the example files.
pub fn load_snippets() -> Vec<Snippet> {
    let mut out = vec![];
    for f in corpus::e2e_files() {
        for (i, t) in corpus::test_file_tests(&f).into_iter().enumerate() {
            if let Some(code) = t.get("cairo_code") {
                if code.trim().is_empty() || code.len() > 6000 {
                    continue;
                }
                out.push(Snippet {
                    origin: format!("{}#{i}", f.display()),
                    code: code.clone(),
                    settings: cairo::SETTINGS_2023_01,
                });
            }
        }
    }
    for (path, text) in corpus::cairo_corpus(8000) {
        if path.contains("/examples/") && !path.ends_with("lib.cairo") {
            out.push(Snippet { origin: path, code: text, settings: cairo::SETTINGS_2024_07 });
        }
    }
    out
}

pub struct Case {
    pub origin: String,
    pub source: String,
    pub settings: &'static str,
    /// Function name suffix to run; None = pick among the supported ones by `func_choice`.
    pub func: Option<String>,
    pub func_choice: usize,
    /// Arguments for generated programs (fixed), or a choice seed for Sierra-directed generation.
    pub gen_args: Option<Vec<Vec<Arg>>>,
    pub arg_seeds: Vec<Vec<u32>>,
    /// Reference outcomes (generated programs only).
    pub expected: Option<Vec<Outcome>>,
    pub generated: bool,
}

/// `pick_case` with a third source: with probability `bl_weight`/10 a builtin-loop program
/// (gens/builtin_loops.rs), run on `n_args` drawn (iteration count, seed) pairs.
pub fn pick_case_bl(ch: &mut Choices, snippets: &[Snippet], generated_weight: u32, n_args: usize, bl_weight: u32) -> Case {
    let pick_bl = ch.chance(bl_weight, 10);
    let bl_seed: Vec<u32> = (0..(24 + 3 * n_args)).map(|_| ch.next()).collect();
    if !pick_bl {
        return pick_case(ch, snippets, generated_weight, n_args);
    }
    let mut c2 = Choices::new(bl_seed);
    let p = crate::gens::builtin_loops::generate(&mut c2);
    let args: Vec<Vec<Arg>> = (0..n_args)
        .map(|k| {
            let n = if k == 0 { 8 } else { c2.below(256) };
            let seed: u128 = if c2.bool() { c2.below(16) as u128 } else { c2.u128() };
            vec![Arg::Value((n as u64).into()), Arg::Value(seed.into())]
        })
        .collect();
    let names: Vec<&str> = p.ops.iter().map(|k| crate::gens::builtin_loops::OP_NAMES[*k]).collect();
    Case {
        origin: format!("builtin-loops:{}/shape{}", names.join("+"), p.shape),
        source: p.source,
        settings: cairo::SETTINGS_2024_07,
        func: Some("::run".into()),
        func_choice: 0,
        gen_args: Some(args),
        arg_seeds: vec![],
        expected: None,
        generated: true,
    }
}

pub fn pick_case(ch: &mut Choices, snippets: &[Snippet], generated_weight: u32, n_args: usize) -> Case {
    let arg_seeds: Vec<Vec<u32>> = (0..n_args).map(|_| (0..40).map(|_| ch.next()).collect()).collect();
    if snippets.is_empty() || ch.chance(generated_weight, 10) {
        let pc = c01::gen_case(ch, n_args);
        let expected = pc.args.iter().map(|a| Interp::new(&pc.program).run_entry(a)).collect();
        let args = pc.args.iter().map(|a| c01::to_args(&pc.program, a)).collect();
        Case {
            origin: "generated".into(),
            source: pc.source,
            settings: cairo::SETTINGS_2024_07,
            func: Some("::main".into()),
            func_choice: 0,
            gen_args: Some(args),
            arg_seeds,
            expected: Some(expected),
            generated: true,
        }
    } else {
        let s = &snippets[ch.below(snippets.len())];
        Case {
            origin: s.origin.clone(),
            source: s.code.clone(),
            settings: s.settings,
            func: None,
            func_choice: ch.below(64),
            gen_args: None,
            arg_seeds,
            expected: None,
            generated: false,
        }
    }
}

pub fn compile_case(
    db: &mut RootDatabase,
    case: &Case,
    cfg: &FrontCfg,
    meta: MetaCfg,
) -> Result<Compiled, CompileErr> {
    cfg.apply(db);
    let name = if case.generated { format!("p{}", hash_str(&case.source) % 1_000_000) } else { "test".to_string() };
    let input = cairo::virtual_crate_input(&name, &case.source, case.settings, None);
    let r = panics::catch(|| {
        let program = exec::sierra_of_crate(db, &input).map_err(CompileErr::Diagnostics)?;
        exec::build(program, meta).map_err(CompileErr::Backend)
    });
    match r {
        Ok(x) => x,
        Err(p) => Err(CompileErr::Panic(p.loc, p.msg)),
    }
}

/// The function to run and its argument vectors.
pub fn resolve(case: &Case, c: &Compiled) -> Option<(Function, Vec<Vec<Arg>>)> {
    if let Some(suffix) = &case.func {
        let f = c.runner.find_function(suffix).ok()?.clone();
        return Some((f, case.gen_args.clone()?));
    }
    // Functions of the snippet crate with supported parameter types.
    let funcs: Vec<&Function> = c
        .builder
        .sierra_program()
        .funcs
        .iter()
        .filter(|f| f.id.debug_name.as_ref().map(|n| n.starts_with("test::") && !n.contains("[")).unwrap_or(false))
        .collect();
    let mut usable = vec![];
    for f in funcs {
        let mut probe = Choices::new(vec![]);
        if sierra_args::gen_args(&mut probe, &c.builder, f).is_some() {
            usable.push(f.clone());
        }
    }
    if usable.is_empty() {
        return None;
    }
    let f = usable[case.func_choice % usable.len()].clone();
    let mut args = vec![];
    for seed in &case.arg_seeds {
        let mut ch = Choices::new(seed.clone());
        args.push(sierra_args::gen_args(&mut ch, &c.builder, &f)?);
    }
    Some((f, args))
}

pub fn artefact(case: &Case, func: &Function, args: &[Arg], cfg: &FrontCfg, meta: MetaCfg, gas: Option<usize>) -> Value {
    json!({
        "origin": case.origin,
        "source": case.source,
        "edition": if case.settings == cairo::SETTINGS_2023_01 { "2023_01" } else { "2024_07" },
        "crate": if case.generated { "gen" } else { "test" },
        "function": func.id.debug_name.as_ref().map(|s| s.to_string()).unwrap_or_default(),
        "args": sierra_args::args_to_json(args),
        "config": cfg.to_json(),
        "linear_gas": meta.linear_gas,
        "linear_ap": meta.linear_ap,
        "gas": gas,
    })
}

/// Rebuilds (compiled, function, args, gas) from an artefact written by `artefact`.
pub fn from_artefact(a: &Value) -> Result<(Compiled, Function, Vec<Arg>, Option<usize>), String> {
    let cfg = FrontCfg::from_json(&a["config"]);
    let meta = MetaCfg { linear_gas: a["linear_gas"].as_bool().unwrap_or(true), linear_ap: a["linear_ap"].as_bool().unwrap_or(true) };
    let db = cfg.new_db(Plugins::Default);
    let settings = if a["edition"].as_str() == Some("2023_01") { cairo::SETTINGS_2023_01 } else { cairo::SETTINGS_2024_07 };
    let name = if a["crate"].as_str() == Some("gen") { format!("p{}", hash_str(a["source"].as_str().unwrap_or("")) % 1_000_000) } else { "test".to_string() };
    let input = cairo::virtual_crate_input(&name, a["source"].as_str().unwrap_or(""), settings, None);
    let program = exec::sierra_of_crate(&db, &input)?;
    let c = exec::build(program, meta)?;
    let fname = a["function"].as_str().unwrap_or("");
    let f = c.builder.sierra_program().funcs.iter().find(|f| f.id.debug_name.as_ref().map(|n| n.as_str() == fname).unwrap_or(false)).cloned().ok_or("function not found")?;
    let args = sierra_args::args_from_json(&a["args"]);
    let gas = a["gas"].as_u64().map(|g| g as usize);
    Ok((c, f, args, gas))
}

// 3*10^8 gas bounds a run by 3M steps: a program that loops until it is out of gas stays feasible.
pub const BIG_GAS: usize = 300_000_000;

/// Runs with a gas budget (only meaningful when the function takes the gas builtin).
pub fn run(c: &Compiled, f: &Function, args: &[Arg], gas: Option<usize>) -> Result<Exec, ExecErr> {
    exec::run(c, f, args.to_vec(), gas)
}

pub fn has_gas_builtin(c: &Compiled, f: &Function) -> bool {
    f.signature.param_types.iter().any(|t| c.builder.type_long_id(t).generic_id.0 == "GasBuiltin")
}

/// Gas budgets for a sweep: fractions of the honest consumption above the entry cost.
pub fn sweep_budgets(ch: &mut Choices, c: &Compiled, f: &Function, honest: &Exec, k: usize) -> Vec<usize> {
    let Some(required) = c.runner.initial_required_gas(f) else { return vec![] };
    let Some(left) = honest.gas_counter.as_ref() else { return vec![] };
    let left: u64 = match left.to_bigint().try_into() {
        Ok(x) => x,
        Err(_) => return vec![],
    };
    let used = (BIG_GAS as u64).saturating_sub(left).saturating_sub(required as u64);
    let mut out = vec![];
    for _ in 0..k {
        // 0 .. 1.5x of the net consumption (peak demand exceeds net consumption).
        let num = ch.below(1501) as u64;
        let extra = (used as u128 * num as u128 / 1000) as u64;
        out.push(required + extra as usize);
    }
    out
}

pub fn describe(case: &Case, func: &Function, args: &[Arg]) -> Value {
    json!({"origin": case.origin, "function": func.id.debug_name.as_ref().map(|s| s.to_string()), "args": sierra_args::args_to_json(args), "source": truncate(&case.source, 500)})
}

/// Common skeleton: compile under (cfg, meta), resolve function/args, run every argument vector
/// with BIG_GAS and `sweeps` extra budgets, and hand every execution to `judge`.
#[allow(clippy::too_many_arguments)]
pub fn drive(
    cc: &mut CaseCtx<'_>,
    ch: &mut Choices,
    db: &mut RootDatabase,
    case: &Case,
    cfg: &FrontCfg,
    meta: MetaCfg,
    sweeps: usize,
    judge: &mut dyn FnMut(&mut CaseCtx<'_>, &Compiled, &Function, &[Arg], Option<usize>, &Result<Exec, ExecErr>) -> Option<(String, String)>,
) -> Verdict {
    let compiled = match compile_case(db, case, cfg, meta) {
        Ok(c) => c,
        Err(CompileErr::Diagnostics(_)) => {
            cc.stats().count(if case.generated { "generator:rejected" } else { "snippet_not_compilable_standalone" });
            return Verdict::Skip("does not compile standalone");
        }
        Err(CompileErr::Backend(e)) => {
            if !meta.linear_gas || !meta.linear_ap {
                cc.stats().count("nonlinear_solver_failed");
                let _ = e;
                return Verdict::Skip("non-linear solver produced no metadata");
            }
            cc.stats().count("backend_error(C08)");
            return Verdict::Skip("backend error (C08's business)");
        }
        Err(CompileErr::Panic(..)) => {
            cc.stats().count("compiler_panic(C08)");
            return Verdict::Skip("compiler panic (C08's business)");
        }
    };
    let Some((func, arg_vecs)) = resolve(case, &compiled) else {
        cc.stats().count("no_runnable_function");
        return Verdict::Skip("no function with supported parameter types");
    };
    let gas_fn = has_gas_builtin(&compiled, &func);
    for args in &arg_vecs {
        let honest = run(&compiled, &func, args, Some(BIG_GAS));
        cc.stats().eval();
        if let Some((sig, what)) = judge(cc, &compiled, &func, args, Some(BIG_GAS), &honest) {
            return Verdict::fail(sig, what, artefact(case, &func, args, cfg, meta, Some(BIG_GAS)));
        }
        if let (true, Ok(h)) = (gas_fn && sweeps > 0, &honest) {
            for g in sweep_budgets(ch, &compiled, &func, h, sweeps) {
                let r = run(&compiled, &func, args, Some(g));
                if matches!(r, Err(ExecErr::NotEnoughGasToCall)) {
                    continue;
                }
                cc.stats().eval();
                cc.stats().count("gas_sweep_runs");
                if let Some((sig, what)) = judge(cc, &compiled, &func, args, Some(g), &r) {
                    return Verdict::fail(sig, what, artefact(case, &func, args, cfg, meta, Some(g)));
                }
            }
        }
    }
    Verdict::Pass
}
