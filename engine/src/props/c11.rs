//! C11 — formatting is idempotent and layout-only.

use std::collections::BTreeMap;

use cairo_lang_formatter::{
    BreakingBehaviorConfig, CollectionsBreakingBehavior, FormatterConfig, get_formatted_file,
};
use cairo_lang_parser::utils::SimpleParserDatabase;
use cairo_lang_syntax::node::kind::SyntaxKind;
use serde_json::{Value, json};

use crate::core::cairo::{self, Plugins};
use crate::core::choices::{Choices, hash_str};
use crate::core::corpus;
use crate::core::driver::{Agg, CaseCtx, Prop, Tier, Verdict, WorkerCtx, truncate};
use crate::core::panics;
use crate::gens::layout;
use crate::oracle::fmt::{self, Lexed};

pub struct C11;

#[derive(Clone, Debug)]
pub struct Cfg {
    pub tab: usize,
    pub width: usize,
    pub sort: bool,
    pub merge: bool,
    pub allow_dup: bool,
    pub tuple_lbl: bool,
    pub array_lbl: bool,
    pub macro_lbl: bool,
}

impl Cfg {
    pub fn to_json(&self) -> Value {
        json!({"tab": self.tab, "width": self.width, "sort": self.sort, "merge": self.merge,
            "allow_dup": self.allow_dup, "tuple_lbl": self.tuple_lbl, "array_lbl": self.array_lbl,
            "macro_lbl": self.macro_lbl})
    }
    pub fn from_json(v: &Value) -> Cfg {
        Cfg {
            tab: v["tab"].as_u64().unwrap_or(4) as usize,
            width: v["width"].as_u64().unwrap_or(100) as usize,
            sort: v["sort"].as_bool().unwrap_or(false),
            merge: v["merge"].as_bool().unwrap_or(false),
            allow_dup: v["allow_dup"].as_bool().unwrap_or(false),
            tuple_lbl: v["tuple_lbl"].as_bool().unwrap_or(true),
            array_lbl: v["array_lbl"].as_bool().unwrap_or(false),
            macro_lbl: v["macro_lbl"].as_bool().unwrap_or(false),
        }
    }
    pub fn formatter(&self) -> FormatterConfig {
        let b = |x: bool| -> CollectionsBreakingBehavior { x.into() };
        FormatterConfig::new(
            self.tab,
            self.width,
            self.sort,
            BreakingBehaviorConfig {
                tuple: b(self.tuple_lbl),
                fixed_array: b(self.array_lbl),
                macro_call: b(self.macro_lbl),
            },
            self.merge,
            self.allow_dup,
        )
    }
    pub fn generate(ch: &mut Choices) -> Cfg {
        // First alternative = the default configuration of the library without sort/merge.
        let sortmerge = ch.weighted(&[5, 2, 1, 2]);
        Cfg {
            tab: *ch.pick(&[4usize, 2, 8]),
            width: *ch.pick(&[100usize, 80, 120, 60, 40, 20]),
            sort: sortmerge == 1 || sortmerge == 3,
            merge: sortmerge == 2 || sortmerge == 3,
            allow_dup: ch.chance(1, 4),
            tuple_lbl: !ch.chance(1, 3),
            array_lbl: ch.chance(1, 3),
            macro_lbl: ch.chance(1, 3),
        }
    }
}

fn format(db: &SimpleParserDatabase, text: &str, cfg: &Cfg) -> String {
    let (root, _d) = db.parse_virtual_with_diagnostics(text);
    get_formatted_file(db, &root, cfg.formatter())
}

fn sorted(mut v: Vec<String>) -> Vec<String> {
    v.sort();
    v
}
fn sorted_dedup(mut v: Vec<String>) -> Vec<String> {
    v.sort();
    v.dedup();
    v
}

#[derive(Default)]
pub struct Info {
    pub changed: bool,
    pub comments: usize,
    pub tokens: usize,
}

/// Judges one (text, config). `text` must parse without diagnostics (else Skip).
pub fn judge(db: &SimpleParserDatabase, text: &str, cfg: &Cfg) -> (Verdict, Info) {
    let (mut fails, info, skip) = judge_all(db, text, cfg);
    if let Some(w) = skip {
        return (Verdict::Skip(w), info);
    }
    if fails.is_empty() { (Verdict::Pass, info) } else { (Verdict::Fail(fails.remove(0)), info) }
}

/// All oracle failures of one (text, config), in oracle order.
pub fn judge_all(
    db: &SimpleParserDatabase,
    text: &str,
    cfg: &Cfg,
) -> (Vec<crate::core::driver::Failure>, Info, Option<&'static str>) {
    let mut out = vec![];
    let (v, info) = judge_inner(db, text, cfg, &mut out);
    match v {
        Verdict::Skip(w) => (out, info, Some(w)),
        Verdict::Fail(f) => {
            out.push(f);
            (out, info, None)
        }
        Verdict::Pass => (out, info, None),
    }
}

fn judge_inner(
    db: &SimpleParserDatabase,
    text: &str,
    cfg: &Cfg,
    soft: &mut Vec<crate::core::driver::Failure>,
) -> (Verdict, Info) {
    let mut info = Info::default();
    let art = || json!({"text": text, "config": cfg.to_json()});
    let l0: Lexed = match fmt::lex(db, text) {
        Ok(l) => l,
        Err(_) => return (Verdict::Skip("input has parser diagnostics"), info),
    };
    info.tokens = l0.toks.len();
    info.comments = l0.comment_words.len();
    let f1 = match panics::catch(|| format(db, text, cfg)) {
        Ok(s) => s,
        // Formatter panics on error-free input are C09's finding class; here: not judged.
        Err(p) => {
            return (
                Verdict::fail(
                    format!("formatter-panic@{}", p.loc),
                    format!("formatter panicked on an error-free input at {}: {}", p.loc, truncate(&p.msg, 200)),
                    art(),
                ),
                info,
            );
        }
    };
    info.changed = f1 != text;
    // (1) the output parses without errors.
    let l1 = match fmt::lex(db, &f1) {
        Ok(l) => l,
        Err(d) => {
            return (
                Verdict::fail(
                    if fmt::slash_before_comment(&l0) {
                        // Same root cause as the token-level finding: `/` glued to a comment.
                        "tokens-changed:slash-glued-to-following-comment".to_string()
                    } else if l0.toks.iter().any(|t| t == "macro") && fmt::has_interior_comment(&l0) {
                        "output-does-not-parse:comment-inside-macro-rule".to_string()
                    } else {
                        format!("output-does-not-parse:{}", d.lines().next().unwrap_or("").trim())
                    },
                    format!("formatted output has parser diagnostics:\n{}\noutput:\n{}", truncate(&d, 600), truncate(&f1, 600)),
                    art(),
                ),
                info,
            );
        }
    };
    // (2) idempotence.
    let f2 = format(db, &f1, cfg);
    if f2 != f1 {
        let (a, b) = first_line_diff(&f1, &f2);
        let kind = if cfg.sort || cfg.merge { "sort/merge" } else { "plain" };
        // Root-cause classes (DESIGN C11 / known findings), most specific first.
        // Causal test for the comment-placement family: without its comments the same input is a
        // fixpoint after one pass.
        let comment_caused = l0.comment_words.len() > 0 && {
            let stripped: String = l0.segments.iter().filter(|(c, s)| *c || !s.starts_with("//")).map(|(_, s)| s.as_str()).collect();
            let g1 = format(db, &stripped, cfg);
            format(db, &g1, cfg) == g1
        };
        let class = if comment_caused || fmt::has_interior_comment(&l0) || a.contains("//") || b.contains("//") {
            "comment-inside-statement-or-list".to_string()
        } else if (cfg.sort || cfg.merge)
            && fmt::lex(db, &f2).map(|l2| fmt::differ_only_in_use_sections(&l1, &l2)).unwrap_or(false)
        {
            "use-section-regrouped".to_string()
        } else if l0.toks.iter().any(|t| t == "cairofmt")
            && f1.lines().filter(|l| !l.trim().is_empty()).eq(f2.lines().filter(|l| !l.trim().is_empty()))
        {
            "blank-line-near-cairofmt-skip-item".to_string()
        } else {
            fmt::line_diff_sig(&a, &b)
        };
        if let Verdict::Fail(f) = Verdict::fail(
            format!("not-idempotent:{kind}:{class}"),
            format!("f(f(t)) != f(t); first differing line:\n  pass1: {a:?}\n  pass2: {b:?}"),
            art(),
        ) {
            soft.push(f);
        }
    }
    // (3) code tokens.
    let plain = !cfg.sort && !cfg.merge;
    let (a, b) = if plain {
        (fmt::normalize(&l0.toks), fmt::normalize(&l1.toks))
    } else {
        (fmt::normalize(&l0.toks_no_use_mod), fmt::normalize(&l1.toks_no_use_mod))
    };
    if let Some((i, ca, cb)) = fmt::first_diff(&a, &b) {
        return (
            Verdict::fail(
                // One recognisable root cause: a `/` directly followed by a pulled-up comment
                // becomes part of the comment (`a /` + `// c` -> `a /// c`).
                if a.get(i).map(|t| t == "/").unwrap_or(false)
                    && b.get(i).map(|t| t != "/").unwrap_or(true)
                    && fmt::has_interior_comment(&l0)
                {
                    "tokens-changed:slash-glued-to-following-comment".to_string()
                } else {
                    format!("tokens-changed:{}", fmt::token_diff_sig(&a, &b, i))
                },
                format!("code tokens differ at normalised token {i}:\n  input : … {ca} …\n  output: … {cb} …"),
                art(),
            ),
            info,
        );
    }
    if !plain {
        // use leaves / mod declarations as multisets (sets when duplicates may be removed).
        let dedup = cfg.merge && !cfg.allow_dup;
        let (ua, ub) = if dedup {
            (sorted_dedup(l0.use_leaves.clone()), sorted_dedup(l1.use_leaves.clone()))
        } else {
            (sorted(l0.use_leaves.clone()), sorted(l1.use_leaves.clone()))
        };
        if ua != ub {
            let only_a: Vec<_> = ua.iter().filter(|x| !ub.contains(x)).take(3).collect();
            let only_b: Vec<_> = ub.iter().filter(|x| !ua.contains(x)).take(3).collect();
            return (
                Verdict::fail(
                    "use-leaves-changed",
                    format!("expanded use leaves differ: only in input {only_a:?}; only in output {only_b:?} ({} vs {})", ua.len(), ub.len()),
                    art(),
                ),
                info,
            );
        }
        let (ma, mb) = (sorted(l0.mod_decls.clone()), sorted(l1.mod_decls.clone()));
        if ma != mb {
            return (Verdict::fail("mod-decls-changed", format!("module declarations differ: {ma:?} vs {mb:?}"), art()), info);
        }
    }
    // (4) comments: same words with the same prefixes, in order (as a multiset when items may
    // be reordered or merged).
    if plain {
        if l0.comment_words != l1.comment_words {
            let i = l0.comment_words.iter().zip(l1.comment_words.iter()).position(|(x, y)| x != y).unwrap_or(l0.comment_words.len().min(l1.comment_words.len()));
            return (
                Verdict::fail(
                    format!("comments-changed:{}", match l1.comment_words.len().cmp(&l0.comment_words.len()) { std::cmp::Ordering::Less => "lost", std::cmp::Ordering::Greater => "gained", _ => "altered" }),
                    format!("comment words differ at word {i}: input {:?} vs output {:?} ({} vs {} words)", l0.comment_words.get(i), l1.comment_words.get(i), l0.comment_words.len(), l1.comment_words.len()),
                    art(),
                ),
                info,
            );
        }
    } else {
        let mut a = l0.comment_words.clone();
        let mut b = l1.comment_words.clone();
        a.sort();
        b.sort();
        if a != b {
            return (Verdict::fail("comments-changed:sort/merge", format!("comment word multiset differs ({} vs {} words)", a.len(), b.len()), art()), info);
        }
    }
    (Verdict::Pass, info)
}

fn first_line_diff(a: &str, b: &str) -> (String, String) {
    let mut ia = a.lines();
    let mut ib = b.lines();
    loop {
        match (ia.next(), ib.next()) {
            (Some(x), Some(y)) if x == y => continue,
            (x, y) => return (x.unwrap_or("<eof>").to_string(), y.unwrap_or("<eof>").to_string()),
        }
    }
}

/// Sierra (debug names) of a single-file crate, or None if it does not compile.
fn sierra_of(db: &cairo_lang_compiler::db::RootDatabase, name: &str, text: &str) -> Option<String> {
    use cairo_lang_sierra_generator::db::SierraGenGroup;
    use cairo_lang_sierra_generator::replace_ids::replace_sierra_ids_in_program;
    let input = cairo::virtual_crate_input(name, text, cairo::SETTINGS_2024_07, None);
    let (_s, err) = cairo::has_errors(db, &input);
    if err {
        return None;
    }
    let id = cairo::crate_id(db, &input);
    let p = db.get_sierra_program(vec![id]).ok()?;
    Some(strip_offsets(&replace_sierra_ids_in_program(db, &p.program).to_string()))
}

/// Generated function names (loops, closures) embed source offsets `[start-end]`; they are names,
/// not code, and change with layout.
fn strip_offsets(s: &str) -> String {
    let b = s.as_bytes();
    let mut out = String::with_capacity(s.len());
    let mut i = 0;
    while i < b.len() {
        if b[i] == b'[' {
            let mut j = i + 1;
            while j < b.len() && b[j].is_ascii_digit() {
                j += 1;
            }
            if j > i + 1 && j < b.len() && b[j] == b'-' {
                let mut k = j + 1;
                while k < b.len() && b[k].is_ascii_digit() {
                    k += 1;
                }
                if k > j + 1 && k < b.len() && b[k] == b']' {
                    out.push_str("[_]");
                    i = k + 1;
                    continue;
                }
            }
        }
        let ch_len = s[i..].chars().next().map(|c| c.len_utf8()).unwrap_or(1);
        out.push_str(&s[i..i + ch_len]);
        i += ch_len;
    }
    out
}

struct Base {
    origin: String,
    text: String,
    compilable: bool,
}

fn item_ranges(db: &SimpleParserDatabase, text: &str) -> Option<Vec<(usize, usize)>> {
    let (root, diags) = db.parse_virtual_with_diagnostics(text);
    if !diags.get_all().is_empty() {
        return None;
    }
    let items = root.get_children(db).first().copied()?;
    if items.kind(db) != SyntaxKind::ModuleItemList {
        return None;
    }
    Some(
        items
            .get_children(db)
            .iter()
            .map(|c| {
                let s = c.offset(db).as_u32() as usize;
                (s, s + c.width(db).as_u32() as usize)
            })
            .collect(),
    )
}

impl Prop for C11 {
    fn id(&self) -> &'static str {
        "C11"
    }
    fn rule(&self) -> String {
        "Inputs: runs of consecutive top-level items (or whole files) of every parser-error-free .cairo \
         file under /repo, then layout-mutated (whitespace rewritten, comments injected at token \
         boundaries, newlines joined, optional trailing commas dropped); only mutants that still \
         parse without diagnostics are judged. Each input is formatted under a FormatterConfig drawn \
         from tab {2,4,8} x width {20..120} x sort x merge x allow_duplicate_uses x 3 breaking \
         behaviours. Oracles: output parses; f(f(t)) == f(t); code tokens equal after the stated \
         normalisation (use/mod items as (multi)sets of expanded leaves when sort/merge is on); \
         comment words equal; for whole compilable files also Sierra(f(t)) == Sierra(t). \
         Non-trivial = the formatter changed the text (f(t) != t); distinct = hash(text, config)."
            .into()
    }
    fn assumptions(&self) -> Vec<String> {
        vec![
            "the property's 'optional trailing commas' is read as the class of meaning-free optional separators N1-N3 of DESIGN C11; the Sierra oracle checks that none of them changes generated code".into(),
            "comments are compared word by word (the formatter re-wraps long comments)".into(),
        ]
    }
    fn worker(&self, ctx: &mut WorkerCtx) {
        let pdb0 = SimpleParserDatabase::default();
        let mut bases: Vec<Base> = vec![];
        for (path, text) in corpus::cairo_corpus(96 * 1024) {
            if fmt::lex(&pdb0, &text).is_err() {
                continue;
            }
            let compilable = (path.contains("/examples/") || path.contains("/bug_samples/"))
                && !path.ends_with("lib.cairo")
                && text.len() < 6000;
            bases.push(Base { origin: path, text, compilable });
        }
        drop(pdb0);
        let cases = ctx.tier.pick(300, 4000);
        let sierra_every = ctx.tier.pick(40u64, 25);
        let mut pdb = SimpleParserDatabase::default();
        let mut rdb = cairo::new_db(Plugins::Default, None);
        let mut n = 0u32;
        let mut ns = 0u32;
        let mut compiles: std::collections::HashMap<usize, bool> = Default::default();
        ctx.minimize = Some(Box::new(|f| {
            let text = f.artefact["text"].as_str()?.to_string();
            let cfg = Cfg::from_json(&f.artefact["config"]);
            if f.sig.starts_with("sierra") {
                return None;
            }
            let sig = f.sig.clone();
            let db = SimpleParserDatabase::default();
            let min = crate::core::shrink::ddmin_text(
                &text,
                |t| judge_all(&db, t, &cfg).0.iter().any(|g| g.sig == sig),
                1500,
            );
            judge_all(&db, &min, &cfg).0.into_iter().find(|g| g.sig == sig)
        }));
        ctx.run_shards(400, cases, |cc: &mut CaseCtx<'_>, ch: &mut Choices| {
            n += 1;
            if n % 200 == 0 {
                pdb = SimpleParserDatabase::default();
            }
            let want_sierra = cc.idx % sierra_every == 0;
            let base = if want_sierra {
                let comp: Vec<usize> = (0..bases.len()).filter(|i| bases[*i].compilable).collect();
                let mut pick = comp[ch.below(comp.len())];
                // Skip (deterministically, by probing) files that do not compile standalone.
                for step in 0..comp.len() {
                    let cand = comp[(comp.iter().position(|x| *x == pick).unwrap() + step) % comp.len()];
                    let ok = *compiles.entry(cand).or_insert_with(|| {
                        panics::catch(|| sierra_of(&rdb, "x", &bases[cand].text).is_some()).unwrap_or(false)
                    });
                    if ok {
                        pick = cand;
                        break;
                    }
                }
                &bases[pick]
            } else {
                &bases[ch.below(bases.len())]
            };
            // Window: whole file (always for the Sierra oracle) or a run of items.
            let mut text = base.text.clone();
            if !want_sierra && !ch.chance(1, 4) {
                if let Some(r) = item_ranges(&pdb, &base.text) {
                    if !r.is_empty() {
                        let k = 1 + ch.below(r.len().min(12));
                        let i = ch.below(r.len() - k + 1);
                        text = base.text[r[i].0..r[i + k - 1].1].to_string();
                    }
                }
            }
            let cfg = Cfg::generate(ch);
            let mut mutations = vec![];
            // Rare syntax forms appended to the input (not for the Sierra oracle: they do not compile).
            if !want_sierra && ch.chance(1, 2) {
                let k = 1 + ch.below(3);
                for _ in 0..k {
                    let item = *ch.pick(crate::gens::rare::RARE_ITEMS);
                    if fmt::lex(&pdb, item).is_ok() {
                        if !text.ends_with('\n') {
                            text.push('\n');
                        }
                        text.push_str(item);
                        mutations.push("rare-item".to_string());
                    } else {
                        cc.stats().count("rare_item_does_not_parse");
                    }
                }
            }
            let inject_comments = ch.chance(1, 3);
            if !ch.chance(1, 5) {
                if let Ok(l) = fmt::lex(&pdb, &text) {
                    let (m, log) = layout::mutate_layout(ch, &l.segments, inject_comments);
                    if fmt::lex(&pdb, &m).is_ok() {
                        text = m;
                        mutations.extend(log);
                    } else {
                        cc.stats().count("layout_mutant_rejected_by_parser");
                    }
                }
            }
            let (fails, info, skip) = judge_all(&pdb, &text, &cfg);
            let v = if let Some(w) = skip {
                Verdict::Skip(w)
            } else {
                // Prefer a failure that is not a listed known finding.
                let pick = fails.iter().position(|f| !cc.is_known(&f.sig)).or(if fails.is_empty() { None } else { Some(0) });
                match pick {
                    Some(i) => Verdict::Fail(fails[i].clone()),
                    None => Verdict::Pass,
                }
            };
            let known_only = matches!(&v, Verdict::Fail(f) if cc.is_known(&f.sig));
            {
                let st = cc.stats();
                st.eval();
                if matches!(v, Verdict::Pass) || known_only {
                    if info.changed {
                        st.count("formatter_changed_text");
                        st.nontrivial(hash_str(&text) ^ hash_str(&cfg.to_json().to_string()));
                    }
                    if mutations.iter().any(|m| m != "rare-item") {
                        st.count("layout_mutant");
                    }
                    if mutations.iter().any(|m| m == "rare-item") {
                        st.count("with_rare_syntax_item");
                    }
                    if mutations.iter().any(|m| m.starts_with("comment")) {
                        st.count("with_injected_comment");
                    }
                    if cfg.sort || cfg.merge {
                        st.count("sort_or_merge_on");
                    }
                    if cfg.width <= 40 {
                        st.count("width_le_40");
                    }
                    if info.comments > 0 {
                        st.count("with_comments");
                    }
                    st.sample(1, || json!({"origin": base.origin, "config": cfg.to_json(), "mutations": mutations.iter().take(8).collect::<Vec<_>>(), "text": truncate(&text, 300)}));
                }
            }
            if let Verdict::Skip(w) = v {
                return Verdict::Skip(w);
            }
            let pending_known = match v {
                Verdict::Fail(mut f) => {
                    f.artefact["origin"] = json!(base.origin);
                    if !known_only {
                        return Verdict::Fail(f);
                    }
                    Some(f)
                }
                _ => None,
            };
            // (5) Sierra equality on whole compilable files.
            if want_sierra {
                ns += 1;
                if ns % 40 == 0 {
                    rdb = cairo::new_db(Plugins::Default, None);
                }
                let f1 = format(&pdb, &text, &cfg);
                let r = panics::catch(|| {
                    let a = sierra_of(&rdb, "x", &text);
                    let b = sierra_of(&rdb, "x", &f1);
                    (a, b)
                });
                match r {
                    Ok((Some(a), Some(b))) => {
                        cc.stats().count("sierra_compared");
                        if a != b {
                            return Verdict::fail(
                                "sierra-changed",
                                format!("Sierra of the formatted text differs from Sierra of the input (origin {})", base.origin),
                                json!({"text": text, "config": cfg.to_json(), "origin": base.origin, "sierra": true}),
                            );
                        }
                    }
                    Ok((Some(_), None)) => {
                        return Verdict::fail(
                            "sierra-lost",
                            format!("the input compiles but the formatted text does not (origin {})", base.origin),
                            json!({"text": text, "config": cfg.to_json(), "origin": base.origin, "sierra": true}),
                        );
                    }
                    Ok(_) => cc.stats().count("sierra_input_not_compilable"),
                    Err(_) => cc.stats().count("sierra_compile_panicked(C08)"),
                }
            }
            match pending_known {
                Some(f) => Verdict::Fail(f),
                None => Verdict::Pass,
            }
        });
    }
    fn replay(&self, artefact: &Value) -> Verdict {
        let text = artefact["text"].as_str().unwrap_or("");
        let cfg = Cfg::from_json(&artefact["config"]);
        let db = SimpleParserDatabase::default();
        let (v, _) = judge(&db, text, &cfg);
        if let Verdict::Fail(_) = v {
            return v;
        }
        if artefact["sierra"].as_bool().unwrap_or(false) {
            let rdb = cairo::new_db(Plugins::Default, None);
            let f1 = format(&db, text, &cfg);
            let a = sierra_of(&rdb, "x", text);
            let b = sierra_of(&rdb, "x", &f1);
            match (a, b) {
                (Some(a), Some(b)) if a != b => return Verdict::fail("sierra-changed", "Sierra differs", artefact.clone()),
                (Some(_), None) => return Verdict::fail("sierra-lost", "formatted text does not compile", artefact.clone()),
                _ => {}
            }
        }
        v
    }
    fn health(&self, _tier: Tier, agg: &Agg) -> Result<(), String> {
        if agg.class("formatter_changed_text") * 3 < agg.evaluations {
            return Err("the formatter changed fewer than a third of the inputs".into());
        }
        if agg.class("sierra_compared") == 0 {
            return Err("the Sierra oracle never ran".into());
        }
        Ok(())
    }
    fn extra_coverage(&self, _tier: Tier, _agg: &Agg) -> BTreeMap<String, Value> {
        BTreeMap::new()
    }
}

pub fn debug_fmt(art: &Value) {
    let text = art["text"].as_str().unwrap_or("");
    let cfg = Cfg::from_json(&art["config"]);
    let db = SimpleParserDatabase::default();
    let f1 = format(&db, text, &cfg);
    let f2 = format(&db, &f1, &cfg);
    println!("----- input\n{text}\n----- pass1\n{f1}\n----- pass2{}\n{}", if f1 == f2 { " (same)" } else { "" }, if f1 == f2 { "" } else { &f2 });
    if art["sierra"].as_bool().unwrap_or(false) {
        let rdb = cairo::new_db(Plugins::Default, None);
        let a = sierra_of(&rdb, "x", text).unwrap_or_default();
        let b = sierra_of(&rdb, "x", &f1).unwrap_or_default();
        for (x, y) in a.lines().zip(b.lines()) {
            if x != y {
                println!("SIERRA DIFF:\n  {x}\n  {y}");
                break;
            }
        }
        println!("sierra lens {} {}", a.len(), b.len());
    }
}
