//! C14 — untrusted Sierra is handled totally (accepted or rejected, never a crash).

use cairo_lang_sierra::program::Program;
use serde_json::{Value, json};

use crate::core::choices::{Choices, hash_str};
use crate::core::driver::{Agg, CaseCtx, Failure, Prop, Tier, Verdict, WorkerCtx, truncate};
use crate::core::panics;
use crate::core::sierra::{self, SierraItem, Stage};
use crate::gens::sierramut::{self, Mut};

pub struct C14;

fn stage_rank(s: &Stage) -> u8 {
    match s {
        Stage::RegistryErr(_) => 0,
        Stage::MetadataErr(_) => 1,
        Stage::CompileErr(_) => 2,
        Stage::Accepted => 3,
    }
}

/// Known-finding shape (excluded by construction once confirmed on its stored input): a cycle
/// among type declarations that goes through a circuit gate type sends the circuit parsing code
/// into unbounded recursion (stack overflow).
pub fn has_gate_cycle(p: &Program) -> bool {
    use cairo_lang_sierra::program::GenericArg;
    let n = p.type_declarations.len();
    let idx_of = |id: &cairo_lang_sierra::ids::ConcreteTypeId| p.type_declarations.iter().position(|d| d.id == *id);
    let is_gate = |i: usize| {
        let g = p.type_declarations[i].long_id.generic_id.0.as_str();
        g.ends_with("Gate") || g == "Circuit" || g == "CircuitInput"
    };
    // DFS colouring.
    let mut color = vec![0u8; n];
    fn dfs(i: usize, p: &Program, color: &mut Vec<u8>, idx_of: &dyn Fn(&cairo_lang_sierra::ids::ConcreteTypeId) -> Option<usize>, stack: &mut Vec<usize>, is_gate: &dyn Fn(usize) -> bool) -> bool {
        color[i] = 1;
        stack.push(i);
        for a in &p.type_declarations[i].long_id.generic_args {
            if let GenericArg::Type(t) = a {
                if let Some(j) = idx_of(t) {
                    if color[j] == 1 {
                        // Cycle: the part of the stack from j on.
                        let pos = stack.iter().position(|x| *x == j).unwrap_or(0);
                        if stack[pos..].iter().any(|x| is_gate(*x)) {
                            return true;
                        }
                    } else if color[j] == 0 && dfs(j, p, color, idx_of, stack, is_gate) {
                        return true;
                    }
                }
            }
        }
        stack.pop();
        color[i] = 2;
        false
    }
    for i in 0..n {
        if color[i] == 0 {
            let mut stack = vec![];
            if dfs(i, p, &mut color, &idx_of, &mut stack, &is_gate) {
                return true;
            }
        }
    }
    false
}

/// Panics are keyed by call site, except the Sierra-to-CASM assertion "Wrong ap changes for
/// <invocation>" (one site for every libfunc), which is keyed by the libfunc it names, with
/// "same-type" marked when all its generic arguments are equal (`downcast<i64, i64>`).
fn panic_signature(pr: &panics::PanicRec) -> String {
    if let Some(rest) = pr.msg.strip_prefix("Wrong ap changes for ") {
        let name: String = rest.chars().take_while(|c| c.is_ascii_alphanumeric() || *c == '_').collect();
        let args: Vec<&str> = rest
            .strip_prefix(name.as_str())
            .and_then(|r| r.strip_prefix('<'))
            .and_then(|r| r.split('>').next())
            .map(|a| a.split(',').map(|x| x.trim()).collect())
            .unwrap_or_default();
        let same = args.len() >= 2 && args.iter().all(|a| *a == args[0]);
        return format!("wrong-ap-change:{name}{}", if same { ":same-type-arguments" } else { "" });
    }
    format!("panic@{}", pr.loc)
}

pub fn artefact(item: &SierraItem, muts: &[Mut]) -> Value {
    json!({"origin": item.origin, "sierra": item.text, "mutations": muts.iter().map(sierramut::to_json).collect::<Vec<_>>()})
}

pub fn rebuild(a: &Value) -> Option<Program> {
    let mut p = sierra::parse(a["sierra"].as_str()?)?;
    for m in a["mutations"].as_array()? {
        p = sierramut::apply(&p, &sierramut::from_json(m)?);
    }
    Some(p)
}

/// Judges one mutant; Ok(deepest rank, accepted) or the failure.
pub fn judge(p: &Program, nonlinear: bool) -> Result<(u8, bool, sierra::PipeResult), (String, String)> {
    match sierra::pipeline(p, nonlinear) {
        Ok(r) => {
            let rank = stage_rank(&r.with_gas).max(stage_rank(&r.no_gas));
            let acc = r.with_gas == Stage::Accepted || r.no_gas == Stage::Accepted;
            Ok((rank, acc, r))
        }
        Err((pr, stage)) => Err((panic_signature(&pr), format!("{stage} panicked at {}: {}", pr.loc, truncate(&pr.msg, 300)))),
    }
}

fn record(ctx_stats: &mut crate::core::driver::Stats, rank: u8, acc: bool, changed: bool, r: &sierra::PipeResult, h: u64) {
    ctx_stats.eval();
    ctx_stats.count(match rank {
        0 => "rejected_by_registry",
        1 => "rejected_by_metadata",
        2 => "rejected_by_compile",
        _ => "accepted",
    });
    if rank >= 1 {
        ctx_stats.nontrivial(h);
    }
    if acc && changed {
        ctx_stats.count("accepted_and_changed");
    }
    for s in [&r.with_gas, &r.no_gas] {
        if let Stage::RegistryErr(e) | Stage::MetadataErr(e) | Stage::CompileErr(e) = s {
            ctx_stats.count(&format!("err:{}", truncate(e, 40)));
        }
    }
}

impl Prop for C14 {
    fn id(&self) -> &'static str {
        "C14"
    }
    fn crash_type(&self) -> bool {
        true
    }
    fn crash_signature(&self, artefact: &Value, why: &str) -> String {
        match rebuild(artefact) {
            Some(p) if has_gate_cycle(&p) => "crash:circuit-gate-type-cycle".to_string(),
            _ => format!("crash:{why}"),
        }
    }
    fn rule(&self) -> String {
        "Programs: every `.sierra` file and e2e `sierra_code` section of the repository that parses (<= 400 \
         statements in quick). (1) Single-point mutations enumerated per program (statement delete / duplicate / \
         swap, libfunc id swap, argument / result / return variable edits, branch retarget / delete / duplicate, \
         type and libfunc declaration edits incl. generic-argument values (+-1, negation, 0, +2^128, P, 2^300) \
         and kinds, declaration delete / duplicate / reorder, type-info flag flips, function entry point / \
         signature edits); the enumeration is complete in thorough for programs of up to 1,000 statements (larger ones: every 40th element of the cross products) and thinned (every 3rd element of the cross \
         products, programs of up to 400 statements) in quick. (1b) Libfunc instantiations: every generic libfunc of the corpus with 1-3 type arguments is declared with arguments from a pool of 28 boundary types (empty / singleton / 2^128-wide / perfect-square / full-field BoundedInt ranges, all integer types, felt252, NonZero, Array, Box; complete for arity 1-2, thinned for 3). (2) Seeded multi-point mutants (2-4 mutations). (3) Felt vectors (mutated valid \
         serialisations and random) through ContractClass::extract_sierra_program. Each program goes through \
         ProgramRegistryInfo::new, calc_metadata (linear; non-linear for small programs), \
         calc_metadata_ap_change_only and compile (gas check on and off). Violation = a panic (key = \
         file:line), a process death or CPU runaway reproduced twice. Non-trivial = the mutant passed the \
         registry stage; distinct = hash(origin, mutations)."
            .into()
    }
    fn assumptions(&self) -> Vec<String> {
        vec![
            "the Sierra text parser is not part of this property (only programs that parse are mutated); C18 covers it".into(),
            "8 MiB stacks; CPU-time rule for runaways".into(),
        ]
    }
    fn worker(&self, ctx: &mut WorkerCtx) {
        let tier = ctx.tier;
        let corpus = sierra::load_corpus(tier.pick(400, 3000));
        if corpus.is_empty() {
            ctx.inconclusive("no Sierra corpus");
            return;
        }
        let n_shards = ctx.n_shards;
        let thin = tier.pick(3usize, 1);
        // Part 1: enumeration (shard = slice of the global mutant index space).
        let shards = ctx.shards.clone();
        let announce_every = 1u64;
        let mut global: u64 = 0;
        let mut reported = std::collections::BTreeSet::new();
        for item in &corpus {
            // Thorough: complete for programs of up to 1,000 statements; the few larger ones
            // (32 of the 33 million single-point mutants, at 1,000-3,000 statements each) are thinned
            // to every 40th element of the cross products, which keeps the tier at tens of minutes.
            let thin = if tier == Tier::Thorough && item.program.statements.len() > 1000 { 40 } else { thin };
            let muts = sierramut::enumerate(&item.program, thin);
            // Baseline (unmutated) once per program on shard 0.
            for m in muts {
                let my = shards.contains(&(global % n_shards));
                let shard = global % n_shards;
                let idx = global / n_shards;
                global += 1;
                if !my || ctx.skip.contains(&(shard, idx)) {
                    continue;
                }
                if !ctx.in_only_range(shard, idx) {
                    continue;
                }
                let _ = announce_every;
                ctx.start_case(shard, idx, || artefact(item, &[m.clone()]));
                let q = sierramut::apply(&item.program, &m);
                if has_gate_cycle(&q) {
                    ctx.stats.count("excluded:circuit-gate-type-cycle(known finding)");
                    continue;
                }
                let small = q.statements.len() <= 60;
                match judge(&q, small) {
                    Ok((rank, acc, r)) => {
                        let changed = q != item.program;
                        let h = hash_str(&format!("{}{:?}", item.origin, m));
                        record(&mut ctx.stats, rank, acc, changed, &r, h);
                        ctx.stats.count(&format!("kind:{}", sierramut::kind_name(&m)));
                        ctx.stats.sample(1, || json!({"origin": item.origin, "mutation": sierramut::to_json(&m), "with_gas": format!("{:?}", r.with_gas), "no_gas": format!("{:?}", r.no_gas)}));
                    }
                    Err((sig, what)) => {
                        ctx.stats.eval();
                        if reported.insert(sig.clone()) || ctx.known.matches("C14", &sig).is_some() {
                            let f = Failure { sig, what, artefact: artefact(item, &[m.clone()]) };
                            ctx.report(&f, shard);
                        }
                    }
                }
            }
        }
        // Part 1b: libfunc instantiations. Every generic libfunc of the corpus whose generic arguments
        // are types is declared with arguments drawn from a pool of boundary types (the declaration
        // alone is specialised eagerly by the registry): empty / singleton / inverted-looking /
        // 2^128-wide BoundedInt ranges, every integer type, felt252, NonZero, Array, Box.
        {
            const POOL: &[(&str, &str)] = &[
                ("u8", "u8"), ("u16", "u16"), ("u32", "u32"), ("u64", "u64"), ("u128", "u128"), ("i8", "i8"), ("i16", "i16"), ("i32", "i32"),
                ("i64", "i64"), ("i128", "i128"), ("felt252", "felt252"), ("bytes31", "bytes31"),
                ("B00", "BoundedInt<0, 0>"), ("B01", "BoundedInt<0, 1>"), ("B11", "BoundedInt<1, 1>"), ("Bm10", "BoundedInt<-1, 0>"),
                ("Bm1m1", "BoundedInt<-1, -1>"), ("B0x", "BoundedInt<0, 340282366920938463463374607431768211455>"),
                ("B0y", "BoundedInt<0, 340282366920938463463374607431768211456>"), ("B1x", "BoundedInt<1, 340282366920938463463374607431768211455>"),
                ("Bsq", "BoundedInt<0, 340282366920938463426481119284349108225>"),
                ("Bi", "BoundedInt<-170141183460469231731687303715884105728, 170141183460469231731687303715884105727>"),
                ("Bp", "BoundedInt<0, 3618502788666131213697322783095070105623107215331596699973092056135872020480>"),
                ("NZu8", "NonZero<u8>"), ("NZB00", "NonZero<B00>"), ("NZB01", "NonZero<B01>"), ("Arr", "Array<felt252>"), ("Bx", "Box<u8>"),
            ];
            let mut generics: std::collections::BTreeSet<(String, usize)> = Default::default();
            for item in &corpus {
                for d in &item.program.libfunc_declarations {
                    let n = d.long_id.generic_args.len();
                    if (1..=3).contains(&n) && d.long_id.generic_args.iter().all(|a| matches!(a, cairo_lang_sierra::program::GenericArg::Type(_))) {
                        generics.insert((d.long_id.generic_id.0.to_string(), n));
                    }
                }
            }
            let header: String = POOL.iter().map(|(n, t)| format!("type {n} = {t};\n")).collect();
            let mut k: u64 = 0;
            for (name, arity) in &generics {
                let total = POOL.len().pow(*arity as u32);
                // Arity 3 is thinned; arities 1 and 2 are complete.
                let step = if *arity == 3 { tier.pick(97usize, 7) } else { 1 };
                for combo in (0..total).step_by(step) {
                    let shard = k % n_shards;
                    k += 1;
                    if !shards.contains(&shard) {
                        continue;
                    }
                    let mut c = combo;
                    let mut args = vec![];
                    for _ in 0..*arity {
                        args.push(POOL[c % POOL.len()].0);
                        c /= POOL.len();
                    }
                    let text = format!("{header}\nlibfunc l = {name}<{}>;\n", args.join(", "));
                    let Some(p) = sierra::parse(&text) else {
                        ctx.stats.count("instantiations_unparsable");
                        continue;
                    };
                    ctx.stats.eval();
                    match judge(&p, false) {
                        Ok((_, acc, _)) => {
                            ctx.stats.count(if acc { "instantiations_accepted" } else { "instantiations_rejected" });
                            ctx.stats.nontrivial(hash_str(&text));
                        }
                        Err((sig, what)) => {
                            if reported.insert(sig.clone()) || ctx.known.matches("C14", &sig).is_some() {
                                let f = Failure { sig, what, artefact: json!({"origin": format!("instantiation {name}<{}>", args.join(", ")), "sierra": text, "mutations": []}) };
                                ctx.report(&f, shard);
                            }
                        }
                    }
                }
            }
        }
        if ctx.only.is_some() {
            return;
        }
        // Parts 2 and 3 under proptest (multi-point mutants; felt vectors).
        let cases = tier.pick(400, 6000);
        let corpus_ref = &corpus;
        ctx.run_shards(64, cases, |cc: &mut CaseCtx<'_>, ch: &mut Choices| {
            if ch.chance(1, 2) {
                return felt_vector_case(cc, ch, corpus_ref);
            }
            let item = &corpus_ref[ch.below(corpus_ref.len())];
            let k = 2 + ch.below(3);
            let mut p = item.program.clone();
            let mut muts = vec![];
            for _ in 0..k {
                let m = sierramut::random(ch, &p);
                p = sierramut::apply(&p, &m);
                muts.push(m);
            }
            if has_gate_cycle(&p) {
                cc.stats().count("excluded:circuit-gate-type-cycle(known finding)");
                return Verdict::Skip("known finding shape");
            }
            cc.start(|| artefact(item, &muts));
            match judge(&p, p.statements.len() <= 60) {
                Ok((rank, acc, r)) => {
                    let h = hash_str(&format!("{}{:?}", item.origin, muts));
                    record(cc.stats(), rank, acc, true, &r, h);
                    cc.stats().count("multi_point_mutants");
                    Verdict::Pass
                }
                Err((sig, what)) => Verdict::fail(sig, what, artefact(item, &muts)),
            }
        });
    }
    fn replay(&self, artefact: &Value) -> Verdict {
        if artefact.get("felts").is_some() {
            return replay_felts(artefact);
        }
        let Some(p) = rebuild(artefact) else { return Verdict::Skip("origin does not parse") };
        match judge(&p, p.statements.len() <= 60) {
            Ok(_) => Verdict::Pass,
            Err((sig, what)) => Verdict::fail(sig, what, artefact.clone()),
        }
    }
    fn health(&self, _tier: Tier, agg: &Agg) -> Result<(), String> {
        for c in ["rejected_by_registry", "rejected_by_metadata", "rejected_by_compile", "accepted", "felt_vectors"] {
            if agg.class(c) == 0 {
                return Err(format!("class {c} is empty"));
            }
        }
        Ok(())
    }
}

// ---- felt vectors ---------------------------------------------------------------------------

use cairo_lang_starknet_classes::contract_class::{ContractClass, ContractEntryPoints};
use cairo_lang_utils::bigint::BigUintAsHex;
use num_bigint::BigUint;

fn class_of(felts: Vec<BigUint>) -> ContractClass {
    ContractClass {
        sierra_program: felts.into_iter().map(|value| BigUintAsHex { value }).collect(),
        sierra_program_debug_info: None,
        contract_class_version: "0.1.0".into(),
        entry_points_by_type: ContractEntryPoints::default(),
        abi: None,
    }
}

fn judge_felts(felts: Vec<BigUint>) -> Result<bool, (String, String)> {
    let class = class_of(felts);
    match panics::catch(|| class.extract_sierra_program(false)) {
        Ok(Ok(p)) => {
            // A decoded program then goes through the pipeline like any other untrusted program.
            match sierra::pipeline(&p.program, false) {
                Ok(_) => Ok(true),
                Err((pr, stage)) => Err((format!("panic@{}", pr.loc), format!("{stage} panicked on a decoded program at {}: {}", pr.loc, truncate(&pr.msg, 200)))),
            }
        }
        Ok(Err(_)) => Ok(false),
        Err(pr) => Err((format!("panic@{}", pr.loc), format!("extract_sierra_program panicked at {}: {}", pr.loc, truncate(&pr.msg, 200)))),
    }
}

fn valid_felts(item: &SierraItem) -> Option<Vec<BigUint>> {
    use cairo_lang_sierra_generator::replace_ids::SierraIdReplacer;
    let c = panics::catch(|| cairo_lang_sierra_generator::canonical_id_replacer::CanonicalReplacer::from_program(&item.program).apply(&item.program)).ok()?;
    let r = panics::catch(|| ContractClass::new(&c, ContractEntryPoints::default(), None, Default::default())).ok()?.ok()?;
    Some(r.sierra_program.into_iter().map(|x| x.value).collect())
}

/// Own implementation of the code-book compression (the crate's is private): values -> felts.
fn my_compress(values: &[BigUint]) -> Vec<BigUint> {
    let mut code: Vec<&BigUint> = vec![];
    let mut index: std::collections::HashMap<&BigUint, usize> = Default::default();
    for v in values {
        if !index.contains_key(v) {
            index.insert(v, code.len());
            code.push(v);
        }
    }
    let padded = std::cmp::max(256, code.len()).next_power_of_two();
    let mut out = vec![BigUint::from(code.len()), BigUint::from(padded - code.len())];
    out.extend(code.iter().map(|v| (*v).clone()));
    out.push(BigUint::from(values.len()));
    let wpf = words_per_felt(padded);
    for chunk in values.chunks(wpf) {
        let mut packed = BigUint::from(0u8);
        for v in chunk.iter().rev() {
            packed *= padded;
            packed += index[v];
        }
        out.push(packed);
    }
    out
}

fn words_per_felt(padded: usize) -> usize {
    let prime: BigUint = (BigUint::from(1u8) << 251) + (BigUint::from(17u8) << 192) + BigUint::from(1u8);
    let mut count = 0;
    let mut max = BigUint::from(padded);
    while max < prime {
        max *= padded;
        count += 1;
    }
    count
}

/// Own decompression of a *valid* compressed vector (None on anything unexpected).
fn my_decompress(felts: &[BigUint]) -> Option<Vec<BigUint>> {
    use num_traits::ToPrimitive;
    let code_size = felts.first()?.to_usize()?;
    let padding = felts.get(1)?.to_usize()?;
    let code = felts.get(2..2 + code_size)?;
    let n = felts.get(2 + code_size)?.to_usize()?;
    let packed = felts.get(3 + code_size..)?;
    let padded = code_size + padding;
    if padded < 256 || !padded.is_power_of_two() {
        return None;
    }
    let wpf = words_per_felt(padded);
    let mut out = vec![];
    for p in packed {
        let mut x = p.clone();
        for _ in 0..wpf {
            if out.len() == n {
                break;
            }
            let w = (&x % padded).to_usize()?;
            x /= padded;
            out.push(code.get(w)?.clone());
        }
    }
    if out.len() == n { Some(out) } else { None }
}

struct FeltOrigin {
    header: Vec<BigUint>,
    compressed: Vec<BigUint>,
    stream: Vec<BigUint>,
}

fn felt_origins(corpus: &[SierraItem]) -> &'static Vec<FeltOrigin> {
    static CELL: std::sync::OnceLock<Vec<FeltOrigin>> = std::sync::OnceLock::new();
    CELL.get_or_init(|| {
        let mut out = vec![];
        for item in corpus {
            if let Some(f) = valid_felts(item) {
                if f.len() < 8 {
                    continue;
                }
                let (header, compressed) = f.split_at(6);
                let d = my_decompress(compressed);
                if std::env::var("VERIF_DBG").is_ok() {
                    eprintln!("origin {} felts={} decomp={:?} same={:?}", item.origin, f.len(), d.as_ref().map(|x| x.len()), d.as_ref().map(|x| my_compress(x) == compressed));
                }
                if let Some(stream) = d {
                    // The own codec must reproduce the crate's bytes, or it is not used.
                    if my_compress(&stream) == compressed {
                        out.push(FeltOrigin { header: header.to_vec(), compressed: compressed.to_vec(), stream });
                    }
                }
            }
        }
        out
    })
}

fn special_value(ch: &mut Choices) -> BigUint {
    let prime: BigUint = (BigUint::from(1u8) << 251) + (BigUint::from(17u8) << 192) + BigUint::from(1u8);
    match ch.below(12) {
        0 => BigUint::from(0u8),
        1 => BigUint::from(1u8),
        2 => BigUint::from(u64::MAX),
        3 => BigUint::from(1u128 << 63),
        4 => BigUint::from(u32::MAX),
        5 => &prime - 1u8,
        6 => (BigUint::from(1u8) << 248) - 1u8,
        7 => (BigUint::from(1u8) << 251) - 1u8,
        8 => BigUint::from(u128::MAX),
        9 => BigUint::from(ch.below(300)),
        10 => BigUint::from(ch.below(20)),
        _ => BigUint::from(ch.u64()),
    }
}

fn mutate_values(ch: &mut Choices, v: &mut Vec<BigUint>, k: usize, front_bias: bool) {
    for _ in 0..k {
        if v.is_empty() {
            v.push(special_value(ch));
            continue;
        }
        // Half of the positions are drawn from the first 24 values (counts, tables, headers).
        let i = if front_bias && ch.bool() { ch.below(v.len().min(24)) } else { ch.below(v.len()) };
        match ch.below(9) {
            0 => v[i] += 1u8,
            1 => {
                if v[i] > BigUint::from(0u8) {
                    v[i] -= 1u8;
                }
            }
            2 => v.truncate(i),
            3 => {
                let x = v[i].clone();
                v.insert(i, x);
            }
            4 => {
                v.remove(i);
            }
            5 => {
                let j = ch.below(v.len());
                v.swap(i, j);
            }
            6 => {
                let x = special_value(ch);
                v.insert(i, x);
            }
            _ => v[i] = special_value(ch),
        }
    }
}

fn felt_vector_case(cc: &mut CaseCtx<'_>, ch: &mut Choices, corpus: &[SierraItem]) -> Verdict {
    let origins = felt_origins(corpus);
    let mode = if origins.is_empty() { 0 } else { ch.weighted(&[1, 3, 6, 2]) };
    let k = 1 + ch.below(4);
    let felts: Vec<BigUint> = match mode {
        0 => {
            let n = ch.below(40);
            (0..n).map(|_| if ch.bool() { BigUint::from(ch.below(20)) } else { special_value(ch) }).collect()
        }
        1 => {
            // Mutation of the compressed representation (code book header, code words, packing).
            let o = &origins[ch.below(origins.len())];
            let mut c = o.compressed.clone();
            if ch.bool() {
                // Target the packed tail and the three size fields.
                for _ in 0..k {
                    let code_size = o.compressed[0].to_u64_digits().first().copied().unwrap_or(0) as usize;
                    let targets = [0usize, 1, 2 + code_size];
                    let i = if ch.bool() { targets[ch.below(3)] } else { (3 + code_size + ch.below(c.len().saturating_sub(3 + code_size).max(1))).min(c.len() - 1) };
                    c[i] = match ch.below(4) {
                        0 => &c[i] + 1u8,
                        1 => special_value(ch),
                        2 => (BigUint::from(1u8) << (8 * (1 + ch.below(31)))) - 1u8,
                        _ => &c[i] | (BigUint::from(255u8) << (8 * ch.below(31))),
                    };
                }
            } else {
                mutate_values(ch, &mut c, k, true);
            }
            let mut f = o.header.clone();
            f.extend(c);
            f
        }
        2 => {
            // Mutation of the uncompressed value stream, then re-compression.
            let o = &origins[ch.below(origins.len())];
            let mut st = o.stream.clone();
            mutate_values(ch, &mut st, k, true);
            let mut f = o.header.clone();
            f.extend(my_compress(&st));
            f
        }
        _ => {
            // Version header / whole-vector mutation.
            let o = &origins[ch.below(origins.len())];
            let mut f = o.header.clone();
            f.extend(o.compressed.iter().cloned());
            mutate_values(ch, &mut f, k, true);
            f
        }
    };
    let art = json!({"felts": felts.iter().map(|f| f.to_string()).collect::<Vec<_>>()});
    cc.start(|| art.clone());
    match judge_felts(felts.clone()) {
        Ok(decoded) => {
            let st = cc.stats();
            st.eval();
            st.count("felt_vectors");
            st.count(["felt_vectors:random", "felt_vectors:compressed_layer_mutant", "felt_vectors:value_stream_mutant", "felt_vectors:whole_vector_mutant"][mode]);
            if decoded {
                st.count("felt_vectors_decoded_to_a_program");
            }
            st.nontrivial(hash_str(&art.to_string()));
            Verdict::Pass
        }
        Err((sig, what)) => Verdict::fail(sig, what, art),
    }
}

fn replay_felts(a: &Value) -> Verdict {
    let felts: Vec<BigUint> = a["felts"].as_array().map(|v| v.iter().filter_map(|x| x.as_str().and_then(|s| s.parse().ok())).collect()).unwrap_or_default();
    match judge_felts(felts) {
        Ok(_) => Verdict::Pass,
        Err((sig, what)) => Verdict::fail(sig, what, a.clone()),
    }
}

pub fn debug_felts() {
    let corpus = sierra::load_corpus(400);
    let mut none = 0;
    for item in &corpus {
        match panics::catch(|| ContractClass::new(&item.program, ContractEntryPoints::default(), None, Default::default())) {
            Ok(Ok(_)) => {}
            Ok(Err(e)) => {
                none += 1;
                if none < 6 {
                    eprintln!("not serialisable {}: {e}", item.origin);
                }
            }
            Err(p) => eprintln!("panic {}", p.loc),
        }
    }
    let o = felt_origins(&corpus);
    eprintln!("corpus {} not serialisable {} origins {}", corpus.len(), none, o.len());
}
