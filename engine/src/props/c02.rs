//! C02 — accepted Sierra always returns (never a VM-level failure with honest hints).

use cairo_lang_runner::RunResultValue;
use serde_json::{Value, json};

use crate::core::cairo::Plugins;
use crate::core::choices::{Choices, hash_str};
use crate::core::driver::{Agg, CaseCtx, Prop, Tier, Verdict, WorkerCtx};
use crate::core::exec::{ExecErr, FrontCfg, MetaCfg};
use crate::props::execs;

pub struct C02;

pub fn vm_sig(msg: &str) -> String {
    let s: String = msg.chars().filter(|c| !c.is_ascii_digit()).collect();
    let s = s.split_whitespace().take(8).collect::<Vec<_>>().join(" ");
    format!("vm-error:{s}")
}

impl Prop for C02 {
    fn id(&self) -> &'static str {
        "C02"
    }
    fn rule(&self) -> String {
        "Executions of (a) generated programs on boundary/small/random arguments (panic paths: overflow, \
         division by zero, failed unwrap, out-of-bounds, failed assert), (b) every free function with \
         constructible parameter types of the e2e libfunc snippets and example files on in-range arguments \
         directed by the Sierra parameter types, each under the default or a drawn front-end configuration and \
         alternating gas/ap solvers; plus gas sweeps (budgets between the entry cost and 1.5x the honest \
         consumption) for functions that take the gas builtin. Violation = the VM fails \
         (Err(CairoRunError)). Non-trivial = the run ended in a Sierra-level panic or used >= 1 builtin \
         instance; distinct = hash(source, function, arguments, gas)."
            .into()
    }
    fn assumptions(&self) -> Vec<String> {
        vec![
            "arguments are in range for their Sierra types (an out-of-range argument is a harness error, not a program behaviour)".into(),
            "NotEnoughGasToCall and argument-shape errors are harness preconditions".into(),
        ]
    }
    fn worker(&self, ctx: &mut WorkerCtx) {
        let snippets = execs::load_snippets();
        let cases = ctx.tier.pick(40, 500);
        let mut db = FrontCfg::default_cfg().new_db(Plugins::Default);
        let mut n = 0u64;
        ctx.shrink_iters = 150;
        // Third execution source: the primitive-operation crates of C06 on boundary operands
        // (full boundary sets incl. every 2^k, 2^k+-1, perfect squares): the inputs on which
        // hint-supplied witnesses are most likely to be rejected by the CASM checks.
        let prim_db = FrontCfg::default_cfg().new_db(Plugins::Default);
        let prims: Vec<crate::props::c06::TypeProgram> =
            crate::props::c06::TYPES.iter().filter_map(|t| crate::props::c06::compile_type(&prim_db, t).ok()).collect();
        let prim_bounds: Vec<Vec<num_bigint::BigInt>> = prims.iter().map(|tp| crate::props::c06::boundary_values(&tp.ty, true)).collect();
        ctx.run_shards(1300, cases, |cc: &mut CaseCtx<'_>, ch: &mut Choices| {
            n += 1;
            if !prims.is_empty() && ch.chance(1, 4) {
                let ti = ch.below(prims.len());
                let b = &prim_bounds[ti];
                for _ in 0..24 {
                    let x = b[ch.below(b.len())].clone();
                    let y = if ch.chance(1, 3) { x.clone() } else { b[ch.below(b.len())].clone() };
                    match crate::props::c06::judge_pair(&prims[ti], &x, &y) {
                        Ok(runs) => {
                            let st = cc.stats();
                            st.evals(runs as u64);
                            st.add("runs_primitive_ops", runs as u64);
                            st.nontrivial(hash_str(&format!("prim{ti}:{x}:{y}")));
                        }
                        Err((sig, what)) if sig.starts_with("vm-error") => {
                            return Verdict::fail(vm_sig(&what), format!("primitive operation on ({x}, {y}): {what}"), json!({"primitive": {"type": format!("{:?}", prims[ti].ty), "x": x.to_string(), "y": y.to_string()}}));
                        }
                        Err(_) => cc.stats().count("primitive_result_mismatch(C06)"),
                    }
                }
                return Verdict::Pass;
            }
            if n % 60 == 0 {
                db = FrontCfg::default_cfg().new_db(Plugins::Default);
            }
            let cfg = if ch.bool() { FrontCfg::default_cfg() } else { FrontCfg::generate(ch) };
            let solver_choice = ch.below(6);
            let sweep_seed: Vec<u32> = (0..40).map(|_| ch.next()).collect();
            let case = execs::pick_case_bl(ch, &snippets, 5, 6, 2);
            let meta = if case.source.len() < 2500 && solver_choice % 3 == 0 { MetaCfg { linear_gas: false, linear_ap: false } } else { MetaCfg::linear() };
            let src_hash = hash_str(&case.source);
            let mut sampled = false;
            let v = execs::drive(cc, &mut Choices::new(sweep_seed.clone()), &mut db, &case, &cfg, meta, 3, &mut |cc, _c, f, args, gas, r| {
                match r {
                    Ok(e) => {
                        let st = cc.stats();
                        let panicked = matches!(e.value, RunResultValue::Panic(_));
                        if panicked {
                            st.count("sierra_panics");
                            if let RunResultValue::Panic(d) = &e.value {
                                if d.first().map(|x| x.to_bigint() == crate::oracle::eval::short_string("Out of gas")).unwrap_or(false) {
                                    st.count("out_of_gas_panics");
                                }
                            }
                        }
                        let builtins: usize = e.resources.builtin_instance_counter.values().sum();
                        if panicked || builtins > 0 {
                            st.nontrivial(src_hash ^ hash_str(&format!("{:?}{:?}{:?}", f.id, crate::gens::sierra_args::args_to_json(args), gas)));
                        }
                        st.count(if case.generated { "runs_generated" } else { "runs_corpus" });
                        if !sampled {
                            sampled = true;
                            st.sample(1, || execs::describe(&case, f, args));
                        }
                        None
                    }
                    Err(ExecErr::Vm(m)) => Some((vm_sig(m), format!("the VM failed on an accepted program with in-range arguments: {m}"))),
                    Err(ExecErr::ArgShape(m)) => {
                        cc.stats().count("harness:arg_shape");
                        let _ = m;
                        None
                    }
                    Err(_) => None,
                }
            });
            v
        });
    }
    fn replay(&self, artefact: &Value) -> Verdict {
        if let Some(p) = artefact.get("primitive") {
            let db = FrontCfg::default_cfg().new_db(Plugins::Default);
            let Some(t) = crate::props::c06::TYPES.iter().find(|t| format!("{t:?}") == p["type"].as_str().unwrap_or("")) else { return Verdict::Skip("type") };
            let Ok(tp) = crate::props::c06::compile_type(&db, t) else { return Verdict::Skip("compile") };
            let x: num_bigint::BigInt = p["x"].as_str().unwrap_or("0").parse().unwrap_or_default();
            let y: num_bigint::BigInt = p["y"].as_str().unwrap_or("0").parse().unwrap_or_default();
            return match crate::props::c06::judge_pair(&tp, &x, &y) {
                Err((sig, what)) if sig.starts_with("vm-error") => Verdict::fail(vm_sig(&what), what, json!({})),
                _ => Verdict::Pass,
            };
        }
        match execs::from_artefact(artefact) {
            Ok((c, f, args, gas)) => match execs::run(&c, &f, &args, gas) {
                Err(ExecErr::Vm(m)) => Verdict::fail(vm_sig(&m), m, json!({})),
                _ => Verdict::Pass,
            },
            Err(_) => Verdict::Skip("artefact does not compile"),
        }
    }
    fn health(&self, _tier: Tier, agg: &Agg) -> Result<(), String> {
        if agg.class("runs_corpus") == 0 || agg.class("runs_generated") == 0 {
            return Err("one of the two execution sources produced no runs".into());
        }
        if agg.class("sierra_panics") * 50 < agg.evaluations {
            return Err("fewer than 2% of the runs exercised a panic path".into());
        }
        if agg.class("gas_sweep_runs") == 0 {
            return Err("no gas sweep ran".into());
        }
        Ok(())
    }
}
