//! C16 — assembled bytecode means exactly what the CASM instruction says.
//!
//! Every instruction shape x boundary offsets / immediates is assembled and encoded; the encoded
//! words are executed for one step by cairo-vm from generated machine states and compared with a
//! reference step written from the instruction's printed meaning.

use std::collections::BTreeMap;

use cairo_lang_casm::instructions::{
    AddApInstruction, AssertEqInstruction, CallInstruction, Instruction, InstructionBody, JnzInstruction, JumpInstruction, RetInstruction,
};
use cairo_lang_casm::operand::{BinOpOperand, CellRef, DerefOrImmediate, Operation, Register, ResOperand};
use cairo_vm::types::relocatable::{MaybeRelocatable, Relocatable};
use cairo_vm::vm::vm_core::VirtualMachine;
use num_bigint::BigInt;
use num_integer::Integer;
use num_traits::{One, ToPrimitive, Zero};
use serde_json::{Value, json};
use starknet_types_core::felt::Felt as Felt252;

use crate::core::choices::{Choices, SplitMix, derive_seed, hash_str};
use crate::core::driver::{Agg, Failure, Prop, Tier, Verdict, WorkerCtx};
use crate::core::panics;
use crate::gens::prog::prime;

pub struct C16;

#[derive(Clone, Debug, PartialEq)]
pub enum V {
    F(BigInt),
    R(isize, usize),
}

#[derive(Clone, Debug)]
pub struct State {
    pub pc: usize,
    pub ap: usize,
    pub fp: usize,
    /// Segment 1 (execution segment) cells.
    pub mem: BTreeMap<usize, V>,
    /// Extra cells in segment 2 (targets of double dereferences).
    pub mem2: BTreeMap<usize, V>,
}

fn felt(v: &BigInt) -> BigInt {
    v.mod_floor(&prime())
}

fn add(a: &V, b: &V) -> Option<V> {
    match (a, b) {
        (V::F(x), V::F(y)) => Some(V::F(felt(&(x + y)))),
        (V::R(s, o), V::F(f)) | (V::F(f), V::R(s, o)) => {
            let n = felt(&(BigInt::from(*o) + f));
            n.to_usize().map(|n| V::R(*s, n))
        }
        _ => None,
    }
}
fn mul(a: &V, b: &V) -> Option<V> {
    match (a, b) {
        (V::F(x), V::F(y)) => Some(V::F(felt(&(x * y)))),
        _ => None,
    }
}
fn sub(a: &V, b: &V) -> Option<V> {
    match (a, b) {
        (V::F(x), V::F(y)) => Some(V::F(felt(&(x - y)))),
        (V::R(s, o), V::F(f)) => {
            let n = felt(&(BigInt::from(*o) - f));
            n.to_usize().map(|n| V::R(*s, n))
        }
        (V::R(s, o), V::R(t, p)) if s == t && o >= p => Some(V::F(BigInt::from(o - p))),
        _ => None,
    }
}

impl State {
    fn addr(&self, c: &CellRef) -> Option<usize> {
        let base = match c.register {
            Register::AP => self.ap,
            Register::FP => self.fp,
        } as i64;
        let a = base + c.offset as i64;
        if a < 0 { None } else { Some(a as usize) }
    }
    fn get(&self, seg: isize, off: usize) -> Option<V> {
        match seg {
            1 => self.mem.get(&off).cloned(),
            2 => self.mem2.get(&off).cloned(),
            _ => None,
        }
    }
    fn cell(&self, c: &CellRef) -> Option<Option<V>> {
        // None = address invalid; Some(None) = unknown cell.
        self.addr(c).map(|a| self.mem.get(&a).cloned())
    }
}

#[derive(Debug, Clone, PartialEq)]
pub enum RefOutcome {
    Ok { pc: (isize, usize), ap: usize, fp: usize, writes: Vec<((isize, usize), V)> },
    Fail,
    /// The printed meaning does not determine the behaviour (not compared).
    Undefined,
}

/// Assertion `dst_cell == value` with write-once semantics.
fn assert_cell(st: &State, seg: isize, off: usize, val: &V, writes: &mut Vec<((isize, usize), V)>) -> bool {
    match st.get(seg, off) {
        Some(cur) => cur == *val,
        None => {
            if let Some((_, w)) = writes.iter().find(|(k, _)| *k == (seg, off)) {
                return w == val;
            }
            writes.push(((seg, off), val.clone()));
            true
        }
    }
}

fn imm_v(b: &cairo_lang_utils::bigint::BigIntAsHex) -> V {
    V::F(felt(&b.value))
}

/// The reference step, written from the printed meaning of the instruction.
pub fn reference(ins: &Instruction, st: &State) -> RefOutcome {
    let size = ins.body.op_size();
    let mut writes: Vec<((isize, usize), V)> = vec![];
    let next_pc = (0isize, st.pc + size);
    let inc = if ins.inc_ap { 1 } else { 0 };
    // Conventions of the encoding: forms without a semantic op0 read [fp - 1] (a real frame always
    // has it); states are generated with a well-formed frame header, so this never matters.
    match &ins.body {
        InstructionBody::AssertEq(a) => {
            let Some(dst_addr) = st.addr(&a.a) else { return RefOutcome::Fail };
            let dst = st.mem.get(&dst_addr).cloned();
            // Evaluate the right-hand side as far as it is known.
            match &a.b {
                ResOperand::Immediate(v) => {
                    let v = imm_v(v);
                    if !assert_cell(st, 1, dst_addr, &v, &mut writes) {
                        return RefOutcome::Fail;
                    }
                }
                ResOperand::Deref(c) => {
                    let Some(src_addr) = st.addr(c) else { return RefOutcome::Fail };
                    match (dst.clone(), st.mem.get(&src_addr).cloned()) {
                        (_, Some(v)) => {
                            if !assert_cell(st, 1, dst_addr, &v, &mut writes) {
                                return RefOutcome::Fail;
                            }
                        }
                        (Some(d), None) => {
                            if src_addr == dst_addr {
                                return RefOutcome::Undefined;
                            }
                            writes.push(((1, src_addr), d));
                        }
                        (None, None) => return RefOutcome::Fail,
                    }
                }
                ResOperand::DoubleDeref(c, off) => {
                    let Some(Some(base)) = st.cell(c) else { return RefOutcome::Fail };
                    let V::R(seg, o) = base else { return RefOutcome::Fail };
                    let t = o as i64 + *off as i64;
                    if t < 0 {
                        return RefOutcome::Fail;
                    }
                    let t = t as usize;
                    match (dst.clone(), st.get(seg, t)) {
                        (_, Some(v)) => {
                            if !assert_cell(st, 1, dst_addr, &v, &mut writes) {
                                return RefOutcome::Fail;
                            }
                        }
                        (Some(d), None) => {
                            if (seg, t) == (1, dst_addr) {
                                return RefOutcome::Undefined;
                            }
                            writes.push(((seg, t), d));
                        }
                        (None, None) => return RefOutcome::Fail,
                    }
                }
                ResOperand::BinOp(BinOpOperand { op, a: ca, b: cb }) => {
                    let Some(a_addr) = st.addr(ca) else { return RefOutcome::Fail };
                    let av = st.mem.get(&a_addr).cloned();
                    let (bv, b_addr) = match cb {
                        DerefOrImmediate::Immediate(v) => (Some(imm_v(v)), None),
                        DerefOrImmediate::Deref(c) => {
                            let Some(b_addr) = st.addr(c) else { return RefOutcome::Fail };
                            (st.mem.get(&b_addr).cloned(), Some(b_addr))
                        }
                    };
                    let f = |x: &V, y: &V| if *op == Operation::Add { add(x, y) } else { mul(x, y) };
                    match (av, bv, dst) {
                        (Some(x), Some(y), _) => {
                            let Some(r) = f(&x, &y) else { return RefOutcome::Undefined };
                            if !assert_cell(st, 1, dst_addr, &r, &mut writes) {
                                return RefOutcome::Fail;
                            }
                        }
                        (Some(x), None, Some(d)) | (None, Some(x), Some(d)) => {
                            // Exactly one operand unknown: it is deduced from the destination.
                            let unknown_addr = if st.mem.get(&a_addr).is_none() { a_addr } else { b_addr.unwrap() };
                            if unknown_addr == dst_addr || (Some(a_addr) == b_addr) {
                                return RefOutcome::Undefined;
                            }
                            let r = if *op == Operation::Add {
                                sub(&d, &x)
                            } else {
                                match (&d, &x) {
                                    (V::F(dv), V::F(xv)) if !xv.is_zero() => {
                                        let p = prime();
                                        Some(V::F(felt(&(dv * xv.modpow(&(&p - 2), &p)))))
                                    }
                                    _ => None,
                                }
                            };
                            match r {
                                Some(r) => writes.push(((1, unknown_addr), r)),
                                None => return RefOutcome::Undefined,
                            }
                        }
                        _ => return RefOutcome::Fail,
                    }
                }
            }
            RefOutcome::Ok { pc: next_pc, ap: st.ap + inc, fp: st.fp, writes }
        }
        InstructionBody::AddAp(a) => {
            let v = match &a.operand {
                ResOperand::Immediate(v) => Some(imm_v(v)),
                ResOperand::Deref(c) => match st.cell(c) {
                    Some(x) => x,
                    None => return RefOutcome::Fail,
                },
                ResOperand::DoubleDeref(c, off) => {
                    let Some(Some(V::R(seg, o))) = st.cell(c) else { return RefOutcome::Fail };
                    let t = o as i64 + *off as i64;
                    if t < 0 {
                        return RefOutcome::Fail;
                    }
                    st.get(seg, t as usize)
                }
                ResOperand::BinOp(BinOpOperand { op, a: ca, b: cb }) => {
                    let Some(x) = st.cell(ca) else { return RefOutcome::Fail };
                    let y = match cb {
                        DerefOrImmediate::Immediate(v) => Some(imm_v(v)),
                        DerefOrImmediate::Deref(c) => match st.cell(c) {
                            Some(y) => y,
                            None => return RefOutcome::Fail,
                        },
                    };
                    match (x, y) {
                        (Some(x), Some(y)) => {
                            let r = if *op == Operation::Add { add(&x, &y) } else { mul(&x, &y) };
                            match r {
                                Some(r) => Some(r),
                                None => return RefOutcome::Undefined,
                            }
                        }
                        _ => None,
                    }
                }
            };
            match v {
                Some(V::F(f)) => match (BigInt::from(st.ap) + &f).mod_floor(&prime()).to_usize() {
                    Some(n) => RefOutcome::Ok { pc: next_pc, ap: n, fp: st.fp, writes },
                    None => RefOutcome::Fail,
                },
                Some(V::R(..)) => RefOutcome::Fail,
                None => RefOutcome::Fail,
            }
        }
        InstructionBody::Jump(j) => {
            let v = match &j.target {
                DerefOrImmediate::Immediate(v) => Some(imm_v(v)),
                DerefOrImmediate::Deref(c) => match st.cell(c) {
                    Some(x) => x,
                    None => return RefOutcome::Fail,
                },
            };
            let Some(v) = v else { return RefOutcome::Fail };
            let pc = if j.relative {
                match v {
                    V::F(f) => match (BigInt::from(st.pc) + f).mod_floor(&prime()).to_usize() {
                        Some(n) => (0, n),
                        None => return RefOutcome::Fail,
                    },
                    V::R(..) => return RefOutcome::Fail,
                }
            } else {
                match v {
                    V::R(s, o) => (s, o),
                    V::F(_) => return RefOutcome::Fail,
                }
            };
            RefOutcome::Ok { pc, ap: st.ap + inc, fp: st.fp, writes }
        }
        InstructionBody::Jnz(j) => {
            let Some(cond) = st.cell(&j.condition) else { return RefOutcome::Fail };
            let Some(cond) = cond else { return RefOutcome::Fail };
            let off = match &j.jump_offset {
                DerefOrImmediate::Immediate(v) => Some(imm_v(v)),
                DerefOrImmediate::Deref(c) => match st.cell(c) {
                    Some(x) => x,
                    None => return RefOutcome::Fail,
                },
            };
            // The offset operand is read in both cases.
            let Some(off) = off else { return RefOutcome::Fail };
            let zero = matches!(&cond, V::F(f) if f.is_zero());
            let pc = if zero {
                next_pc
            } else {
                match off {
                    V::F(f) => match (BigInt::from(st.pc) + f).mod_floor(&prime()).to_usize() {
                        Some(n) => (0, n),
                        None => return RefOutcome::Fail,
                    },
                    V::R(..) => return RefOutcome::Fail,
                }
            };
            RefOutcome::Ok { pc, ap: st.ap + inc, fp: st.fp, writes }
        }
        InstructionBody::Call(c) => {
            let v = match &c.target {
                DerefOrImmediate::Immediate(v) => Some(imm_v(v)),
                DerefOrImmediate::Deref(cr) => match st.cell(cr) {
                    Some(x) => x,
                    None => return RefOutcome::Fail,
                },
            };
            let Some(v) = v else { return RefOutcome::Fail };
            // [ap] = fp; [ap + 1] = return pc.
            if !assert_cell(st, 1, st.ap, &V::R(1, st.fp), &mut writes) {
                return RefOutcome::Fail;
            }
            if !assert_cell(st, 1, st.ap + 1, &V::R(0, st.pc + size), &mut writes) {
                return RefOutcome::Fail;
            }
            let pc = if c.relative {
                match v {
                    V::F(f) => match (BigInt::from(st.pc) + f).mod_floor(&prime()).to_usize() {
                        Some(n) => (0, n),
                        None => return RefOutcome::Fail,
                    },
                    V::R(..) => return RefOutcome::Fail,
                }
            } else {
                match v {
                    V::R(s, o) => (s, o),
                    V::F(_) => return RefOutcome::Fail,
                }
            };
            RefOutcome::Ok { pc, ap: st.ap + 2, fp: st.ap + 2, writes }
        }
        InstructionBody::Ret(_) => {
            if st.fp < 2 {
                return RefOutcome::Fail;
            }
            let (Some(V::R(ps, po)), Some(V::R(1, nfp))) = (st.mem.get(&(st.fp - 1)).cloned(), st.mem.get(&(st.fp - 2)).cloned()) else {
                return RefOutcome::Fail;
            };
            RefOutcome::Ok { pc: (ps, po), ap: st.ap, fp: nfp, writes }
        }
        InstructionBody::QM31AssertEq(a) => {
            let ResOperand::BinOp(BinOpOperand { op, a: ca, b: cb }) = &a.b else {
                // Not an instruction the toolchain emits (the VM rejects the encoding).
                return RefOutcome::Undefined;
            };
            let Some(dst_addr) = st.addr(&a.a) else { return RefOutcome::Fail };
            let Some(x) = st.cell(ca) else { return RefOutcome::Fail };
            let y = match cb {
                DerefOrImmediate::Immediate(v) => Some(imm_v(v)),
                DerefOrImmediate::Deref(c) => match st.cell(c) {
                    Some(y) => y,
                    None => return RefOutcome::Fail,
                },
            };
            let (Some(x), Some(y)) = (x, y) else { return RefOutcome::Undefined };
            let (V::F(x), V::F(y)) = (x, y) else { return RefOutcome::Fail };
            let (Some(qx), Some(qy)) = (qm31_unpack(&x), qm31_unpack(&y)) else { return RefOutcome::Fail };
            let r = V::F(qm31_pack(&if *op == Operation::Add { qm31_add(&qx, &qy) } else { qm31_mul(&qx, &qy) }));
            if !assert_cell(st, 1, dst_addr, &r, &mut writes) {
                return RefOutcome::Fail;
            }
            RefOutcome::Ok { pc: next_pc, ap: st.ap + inc, fp: st.fp, writes }
        }
        InstructionBody::Blake2sCompress(b) => {
            let u32_of = |v: Option<V>| -> Option<u32> {
                match v {
                    Some(V::F(f)) => f.to_u32(),
                    _ => None,
                }
            };
            let Some(counter) = st.cell(&b.byte_count).and_then(u32_of) else { return RefOutcome::Fail };
            let ptr = |c: &CellRef| -> Option<(isize, usize)> {
                match st.cell(c)? {
                    Some(V::R(s, o)) => Some((s, o)),
                    _ => None,
                }
            };
            let Some((ss, so)) = ptr(&b.state) else { return RefOutcome::Fail };
            let Some((ms, mo)) = ptr(&b.message) else { return RefOutcome::Fail };
            let mut h = [0u32; 8];
            for (i, w) in h.iter_mut().enumerate() {
                let Some(x) = u32_of(st.get(ss, so + i)) else { return RefOutcome::Fail };
                *w = x;
            }
            let mut m = [0u32; 16];
            for (i, w) in m.iter_mut().enumerate() {
                let Some(x) = u32_of(st.get(ms, mo + i)) else { return RefOutcome::Fail };
                *w = x;
            }
            let Some(V::R(os, oo)) = st.mem.get(&st.ap).cloned() else { return RefOutcome::Fail };
            let out = blake2s_compress_ref(&h, &m, counter, b.finalize);
            for (i, w) in out.iter().enumerate() {
                if !assert_cell(st, os, oo + i, &V::F(BigInt::from(*w)), &mut writes) {
                    return RefOutcome::Fail;
                }
            }
            RefOutcome::Ok { pc: next_pc, ap: st.ap + 1, fp: st.fp, writes }
        }
    }
}

const M31: u64 = (1 << 31) - 1;

/// (a + b i) + (c + d i) u, packed as a + b 2^36 + c 2^72 + d 2^108 with every coordinate < 2^31 - 1.
pub fn qm31_unpack(f: &BigInt) -> Option<[u64; 4]> {
    if f.sign() == num_bigint::Sign::Minus || f.bits() > 144 {
        return None;
    }
    let mask = (BigInt::one() << 36) - 1;
    let mut out = [0u64; 4];
    for (k, o) in out.iter_mut().enumerate() {
        let c = ((f >> (36 * k)) & &mask).to_u64()?;
        if c >= M31 {
            return None;
        }
        *o = c;
    }
    Some(out)
}
pub fn qm31_pack(q: &[u64; 4]) -> BigInt {
    (0..4).map(|k| BigInt::from(q[k]) << (36 * k)).sum()
}
pub fn qm31_add(x: &[u64; 4], y: &[u64; 4]) -> [u64; 4] {
    [(x[0] + y[0]) % M31, (x[1] + y[1]) % M31, (x[2] + y[2]) % M31, (x[3] + y[3]) % M31]
}
fn cm_mul(a: (u64, u64), b: (u64, u64)) -> (u64, u64) {
    // (a0 + a1 i)(b0 + b1 i), i^2 = -1
    let re = (a.0 * b.0 % M31 + M31 - a.1 * b.1 % M31) % M31;
    let im = (a.0 * b.1 % M31 + a.1 * b.0 % M31) % M31;
    (re, im)
}
pub fn qm31_mul(x: &[u64; 4], y: &[u64; 4]) -> [u64; 4] {
    // (x0 + x1 u)(y0 + y1 u), u^2 = 2 + i
    let (x0, x1, y0, y1) = ((x[0], x[1]), (x[2], x[3]), (y[0], y[1]), (y[2], y[3]));
    let a = cm_mul(x0, y0);
    let b = cm_mul(x1, y1);
    let rb = cm_mul(b, (2, 1));
    let c = cm_mul(x0, y1);
    let d = cm_mul(x1, y0);
    [(a.0 + rb.0) % M31, (a.1 + rb.1) % M31, (c.0 + d.0) % M31, (c.1 + d.1) % M31]
}

/// BLAKE2s compression function F (RFC 7693), counter in t0, t1 = 0, f0 set on the final block.
pub fn blake2s_compress_ref(h: &[u32; 8], m: &[u32; 16], t0: u32, last: bool) -> [u32; 8] {
    const IV: [u32; 8] = [0x6A09E667, 0xBB67AE85, 0x3C6EF372, 0xA54FF53A, 0x510E527F, 0x9B05688C, 0x1F83D9AB, 0x5BE0CD19];
    const SIGMA: [[usize; 16]; 10] = [
        [0, 1, 2, 3, 4, 5, 6, 7, 8, 9, 10, 11, 12, 13, 14, 15],
        [14, 10, 4, 8, 9, 15, 13, 6, 1, 12, 0, 2, 11, 7, 5, 3],
        [11, 8, 12, 0, 5, 2, 15, 13, 10, 14, 3, 6, 7, 1, 9, 4],
        [7, 9, 3, 1, 13, 12, 11, 14, 2, 6, 5, 10, 4, 0, 15, 8],
        [9, 0, 5, 7, 2, 4, 10, 15, 14, 1, 11, 12, 6, 8, 3, 13],
        [2, 12, 6, 10, 0, 11, 8, 3, 4, 13, 7, 5, 15, 14, 1, 9],
        [12, 5, 1, 15, 14, 13, 4, 10, 0, 7, 6, 3, 9, 2, 8, 11],
        [13, 11, 7, 14, 12, 1, 3, 9, 5, 0, 15, 4, 8, 6, 2, 10],
        [6, 15, 14, 9, 11, 3, 0, 8, 12, 2, 13, 7, 1, 4, 10, 5],
        [10, 2, 8, 4, 7, 6, 1, 5, 15, 11, 9, 14, 3, 12, 13, 0],
    ];
    let mut v = [0u32; 16];
    v[..8].copy_from_slice(h);
    v[8..].copy_from_slice(&IV);
    v[12] ^= t0;
    if last {
        v[14] ^= 0xffff_ffff;
    }
    let g = |v: &mut [u32; 16], a: usize, b: usize, c: usize, d: usize, x: u32, y: u32| {
        v[a] = v[a].wrapping_add(v[b]).wrapping_add(x);
        v[d] = (v[d] ^ v[a]).rotate_right(16);
        v[c] = v[c].wrapping_add(v[d]);
        v[b] = (v[b] ^ v[c]).rotate_right(12);
        v[a] = v[a].wrapping_add(v[b]).wrapping_add(y);
        v[d] = (v[d] ^ v[a]).rotate_right(8);
        v[c] = v[c].wrapping_add(v[d]);
        v[b] = (v[b] ^ v[c]).rotate_right(7);
    };
    for s in SIGMA.iter() {
        g(&mut v, 0, 4, 8, 12, m[s[0]], m[s[1]]);
        g(&mut v, 1, 5, 9, 13, m[s[2]], m[s[3]]);
        g(&mut v, 2, 6, 10, 14, m[s[4]], m[s[5]]);
        g(&mut v, 3, 7, 11, 15, m[s[6]], m[s[7]]);
        g(&mut v, 0, 5, 10, 15, m[s[8]], m[s[9]]);
        g(&mut v, 1, 6, 11, 12, m[s[10]], m[s[11]]);
        g(&mut v, 2, 7, 8, 13, m[s[12]], m[s[13]]);
        g(&mut v, 3, 4, 9, 14, m[s[14]], m[s[15]]);
    }
    let mut out = [0u32; 8];
    for i in 0..8 {
        out[i] = h[i] ^ v[i] ^ v[i + 8];
    }
    out
}

fn to_mr(v: &V) -> MaybeRelocatable {
    match v {
        V::F(f) => MaybeRelocatable::Int(Felt252::from(f.clone())),
        V::R(s, o) => MaybeRelocatable::RelocatableValue(Relocatable { segment_index: *s, offset: *o }),
    }
}
fn from_mr(m: &MaybeRelocatable) -> V {
    match m {
        MaybeRelocatable::Int(f) => V::F(f.to_bigint()),
        MaybeRelocatable::RelocatableValue(r) => V::R(r.segment_index, r.offset),
    }
}

/// One VM step over the encoded words.
fn dd_target(ins: &Instruction, st: &State) -> Option<(isize, usize)> {
    let (c, off) = match &ins.body {
        InstructionBody::AssertEq(AssertEqInstruction { b: ResOperand::DoubleDeref(c, off), .. }) | InstructionBody::QM31AssertEq(AssertEqInstruction { b: ResOperand::DoubleDeref(c, off), .. }) => (c, off),
        InstructionBody::AddAp(AddApInstruction { operand: ResOperand::DoubleDeref(c, off) }) => (c, off),
        _ => return None,
    };
    match st.cell(c)?? {
        V::R(seg, o) => {
            let t = o as i64 + *off as i64;
            if t < 0 { None } else { Some((seg, t as usize)) }
        }
        _ => None,
    }
}

pub fn vm_step(ins: &Instruction, words: &[BigInt], st: &State, extra: &[usize]) -> RefOutcome {
    let mut vm = VirtualMachine::new(false, false);
    for _ in 0..3 {
        vm.add_memory_segment();
    }
    for (i, w) in words.iter().enumerate() {
        let _ = vm.insert_value(Relocatable { segment_index: 0, offset: st.pc + i }, Felt252::from(w.clone()));
    }
    for (o, v) in &st.mem {
        let _ = vm.insert_value(Relocatable { segment_index: 1, offset: *o }, to_mr(v));
    }
    for (o, v) in &st.mem2 {
        let _ = vm.insert_value(Relocatable { segment_index: 2, offset: *o }, to_mr(v));
    }
    vm.set_pc(Relocatable { segment_index: 0, offset: st.pc });
    vm.set_ap(st.ap);
    vm.set_fp(st.fp);
    match vm.step_instruction() {
        Err(_) => RefOutcome::Fail,
        Ok(()) => {
            // Written cells: scan a window around ap/fp and the double-deref segment.
            let mut writes = vec![];
            let lo = st.ap.min(st.fp).saturating_sub(40);
            let hi = st.ap.max(st.fp) + 40;
            let mut cands: std::collections::BTreeSet<usize> = (lo..hi).collect();
            cands.extend(extra.iter().copied());
            if let Some((1, t)) = dd_target(ins, st) {
                cands.insert(t);
            }
            for o in cands {
                if !st.mem.contains_key(&o) {
                    if let Some(v) = vm.get_maybe(&Relocatable { segment_index: 1, offset: o }) {
                        writes.push(((1isize, o), from_mr(&v)));
                    }
                }
            }
            let mut c2: std::collections::BTreeSet<usize> = (0..64).collect();
            if matches!(ins.body, InstructionBody::Blake2sCompress(_)) {
                c2.extend(200..216);
            }
            if let Some((2, t)) = dd_target(ins, st) {
                c2.insert(t);
            }
            if let Some((seg, t)) = dd_target(ins, st) {
                if seg != 1 && seg != 2 {
                    if let Some(v) = vm.get_maybe(&Relocatable { segment_index: seg, offset: t }) {
                        writes.push(((seg, t), from_mr(&v)));
                    }
                }
            }
            for o in c2 {
                if !st.mem2.contains_key(&o) {
                    if let Some(v) = vm.get_maybe(&Relocatable { segment_index: 2, offset: o }) {
                        writes.push(((2isize, o), from_mr(&v)));
                    }
                }
            }
            let pc = vm.get_pc();
            RefOutcome::Ok { pc: (pc.segment_index, pc.offset), ap: vm.get_ap().offset, fp: vm.get_fp().offset, writes }
        }
    }
}

const OFFSETS: &[i16] = &[-32768, -32767, -2, -1, 0, 1, 2, 32766, 32767];
const SMALL_OFFSETS: &[i16] = &[-3, -2, -1, 0, 1, 2, 3];

fn immediates() -> Vec<BigInt> {
    let p = prime();
    vec![
        BigInt::zero(),
        BigInt::one(),
        BigInt::from(-1),
        BigInt::from(2),
        BigInt::from(-2),
        BigInt::from(1) << 15,
        BigInt::from(1) << 16,
        BigInt::from(1) << 63,
        BigInt::from(1) << 64,
        BigInt::from(1) << 128,
        &p - 1,
        (&p - 1) / 2,
        (&p - 1) / 2 + 1,
        -(BigInt::from(1) << 100u32),
        BigInt::from(7),
    ]
}

/// All instruction shapes (bodies x operand forms x registers x inc_ap) with the offset and
/// immediate slots filled from index vectors; enumeration is by mixed radix over the slots.
pub fn shapes() -> Vec<Instruction> {
    let regs = [Register::AP, Register::FP];
    let mut out = vec![];
    let cell = |r: Register| CellRef { register: r, offset: 0 };
    let imm = || cairo_lang_utils::bigint::BigIntAsHex { value: BigInt::zero() };
    let mut res_operands: Vec<ResOperand> = vec![];
    for r in regs {
        res_operands.push(ResOperand::Deref(cell(r)));
        res_operands.push(ResOperand::DoubleDeref(cell(r), 0));
        for op in [Operation::Add, Operation::Mul] {
            res_operands.push(ResOperand::BinOp(BinOpOperand { op: op.clone(), a: cell(r), b: DerefOrImmediate::Immediate(imm()) }));
            for r2 in regs {
                res_operands.push(ResOperand::BinOp(BinOpOperand { op: op.clone(), a: cell(r), b: DerefOrImmediate::Deref(cell(r2)) }));
            }
        }
    }
    res_operands.push(ResOperand::Immediate(imm()));
    let mut doi: Vec<DerefOrImmediate> = vec![DerefOrImmediate::Immediate(imm())];
    for r in regs {
        doi.push(DerefOrImmediate::Deref(cell(r)));
    }
    for r in regs {
        for b in &res_operands {
            for inc in [false, true] {
                out.push(Instruction::new(InstructionBody::AssertEq(AssertEqInstruction { a: cell(r), b: b.clone() }), inc));
            }
        }
    }
    for b in &res_operands {
        out.push(Instruction::new(InstructionBody::AddAp(AddApInstruction { operand: b.clone() }), false));
    }
    for t in &doi {
        for rel in [false, true] {
            out.push(Instruction::new(InstructionBody::Call(CallInstruction { target: t.clone(), relative: rel }), false));
            for inc in [false, true] {
                out.push(Instruction::new(InstructionBody::Jump(JumpInstruction { target: t.clone(), relative: rel }), inc));
            }
        }
        for r in regs {
            for inc in [false, true] {
                out.push(Instruction::new(InstructionBody::Jnz(JnzInstruction { jump_offset: t.clone(), condition: cell(r) }), inc));
            }
        }
    }
    out.push(Instruction::new(InstructionBody::Ret(RetInstruction {}), false));
    // Extension forms: QM31 assertions over every operand form, Blake2s over every register choice.
    for r in regs {
        // (Only the add / mul forms exist: the VM's decoder rejects the extension bit on other
        // result kinds, and the Sierra -> CASM compiler emits it for QM31 arithmetic only.)
        for b in res_operands.iter().filter(|b| matches!(b, ResOperand::BinOp(..))) {
            for inc in [false, true] {
                out.push(Instruction::new(InstructionBody::QM31AssertEq(AssertEqInstruction { a: cell(r), b: b.clone() }), inc));
            }
        }
    }
    for r0 in regs {
        for r1 in regs {
            for r2 in regs {
                for finalize in [false, true] {
                    out.push(Instruction::new(
                        InstructionBody::Blake2sCompress(cairo_lang_casm::instructions::Blake2sCompressInstruction { state: cell(r0), byte_count: cell(r1), message: cell(r2), finalize }),
                        true,
                    ));
                }
            }
        }
    }
    out
}

/// Mutable access to the offset / immediate slots of an instruction.
fn slots(ins: &mut Instruction) -> (Vec<&mut i16>, Vec<&mut BigInt>) {
    fn res<'a>(r: &'a mut ResOperand, offs: &mut Vec<&'a mut i16>, imms: &mut Vec<&'a mut BigInt>) {
        match r {
            ResOperand::Deref(c) => offs.push(&mut c.offset),
            ResOperand::DoubleDeref(c, o) => {
                offs.push(&mut c.offset);
                offs.push(o);
            }
            ResOperand::Immediate(v) => imms.push(&mut v.value),
            ResOperand::BinOp(b) => {
                offs.push(&mut b.a.offset);
                match &mut b.b {
                    DerefOrImmediate::Deref(c) => offs.push(&mut c.offset),
                    DerefOrImmediate::Immediate(v) => imms.push(&mut v.value),
                }
            }
        }
    }
    fn doi<'a>(d: &'a mut DerefOrImmediate, offs: &mut Vec<&'a mut i16>, imms: &mut Vec<&'a mut BigInt>) {
        match d {
            DerefOrImmediate::Deref(c) => offs.push(&mut c.offset),
            DerefOrImmediate::Immediate(v) => imms.push(&mut v.value),
        }
    }
    let mut offs = vec![];
    let mut imms = vec![];
    match &mut ins.body {
        InstructionBody::AssertEq(a) | InstructionBody::QM31AssertEq(a) => {
            offs.push(&mut a.a.offset);
            res(&mut a.b, &mut offs, &mut imms);
        }
        InstructionBody::AddAp(a) => res(&mut a.operand, &mut offs, &mut imms),
        InstructionBody::Blake2sCompress(b) => {
            offs.push(&mut b.state.offset);
            offs.push(&mut b.byte_count.offset);
            offs.push(&mut b.message.offset);
        }
        InstructionBody::Call(c) => doi(&mut c.target, &mut offs, &mut imms),
        InstructionBody::Jump(j) => doi(&mut j.target, &mut offs, &mut imms),
        InstructionBody::Jnz(j) => {
            offs.push(&mut j.condition.offset);
            doi(&mut j.jump_offset, &mut offs, &mut imms);
        }
        _ => {}
    }
    (offs, imms)
}

/// Cells an instruction reads or writes (segment 1 addresses), for state generation.
fn touched(ins: &Instruction, ap: usize, fp: usize) -> Vec<usize> {
    let mut i2 = ins.clone();
    let (offs, _) = slots(&mut i2);
    let _ = offs;
    let mut out = vec![];
    let mut add = |c: &CellRef| {
        let base = if c.register == Register::AP { ap } else { fp } as i64;
        let a = base + c.offset as i64;
        if a >= 0 {
            out.push(a as usize);
        }
    };
    match &ins.body {
        InstructionBody::Blake2sCompress(b) => {
            add(&b.state);
            add(&b.byte_count);
            add(&b.message);
        }
        InstructionBody::AssertEq(a) | InstructionBody::QM31AssertEq(a) => {
            add(&a.a);
            match &a.b {
                ResOperand::Deref(c) | ResOperand::DoubleDeref(c, _) => add(c),
                ResOperand::BinOp(b) => {
                    add(&b.a);
                    if let DerefOrImmediate::Deref(c) = &b.b {
                        add(c);
                    }
                }
                _ => {}
            }
        }
        InstructionBody::AddAp(a) => match &a.operand {
            ResOperand::Deref(c) | ResOperand::DoubleDeref(c, _) => add(c),
            ResOperand::BinOp(b) => {
                add(&b.a);
                if let DerefOrImmediate::Deref(c) = &b.b {
                    add(c);
                }
            }
            _ => {}
        },
        InstructionBody::Call(c) => {
            if let DerefOrImmediate::Deref(c) = &c.target {
                add(c);
            }
        }
        InstructionBody::Jump(j) => {
            if let DerefOrImmediate::Deref(c) = &j.target {
                add(c);
            }
        }
        InstructionBody::Jnz(j) => {
            add(&j.condition);
            if let DerefOrImmediate::Deref(c) = &j.jump_offset {
                add(c);
            }
        }
        _ => {}
    }
    out
}

pub fn gen_state(rng: &mut SplitMix, ins: &Instruction) -> State {
    // Registers far enough from 0 and from each other for every 16-bit offset.
    let fp = 40000 + (rng.next() % 50) as usize;
    let ap = fp + (rng.next() % 60) as usize;
    let pc = 100 + (rng.next() % 1000) as usize;
    let mut st = State { pc, ap, fp, mem: BTreeMap::new(), mem2: BTreeMap::new() };
    // Well-formed frame header.
    st.mem.insert(fp - 2, V::R(1, 39000 + (rng.next() % 100) as usize));
    st.mem.insert(fp - 1, V::R(0, 50 + (rng.next() % 1000) as usize));
    let imms = immediates();
    let rand_val = |rng: &mut SplitMix, pointerish: bool| -> V {
        match rng.next() % 10 {
            0..=5 if !pointerish => V::F(felt(&imms[(rng.next() % imms.len() as u64) as usize])),
            6 | 7 if !pointerish => V::F(BigInt::from(rng.next() % 50)),
            8 => V::R(0, (rng.next() % 2000) as usize),
            _ => {
                if pointerish || rng.next() % 2 == 0 {
                    V::R(2, 8 + (rng.next() % 16) as usize)
                } else {
                    V::F(BigInt::from(rng.next()))
                }
            }
        }
    };
    if let InstructionBody::Blake2sCompress(b) = &ins.body {
        // State / message / output blocks live in segment 2; the three cells point at them.
        let rand_u32 = |rng: &mut SplitMix| -> V {
            match rng.next() % 8 {
                0 => V::F(BigInt::zero()),
                1 => V::F(BigInt::from(u32::MAX)),
                2 => V::F(BigInt::from(1u64 << 32)), // not a u32: must fail
                _ => V::F(BigInt::from(rng.next() as u32)),
            }
        };
        for i in 0..8 {
            if rng.next() % 40 != 0 {
                st.mem2.insert(100 + i, rand_u32(rng));
            }
        }
        for i in 0..16 {
            if rng.next() % 60 != 0 {
                st.mem2.insert(120 + i, rand_u32(rng));
            }
        }
        let cells = [(&b.state, V::R(2, 100)), (&b.byte_count, rand_u32(rng)), (&b.message, V::R(2, 120))];
        for (c, v) in cells {
            if let Some(a) = st.addr(c) {
                if a != fp - 1 && a != fp - 2 && rng.next() % 16 != 0 {
                    st.mem.entry(a).or_insert(v);
                }
            }
        }
        // [ap] -> output block (unknown cells), sometimes partly known.
        if rng.next() % 16 != 0 {
            st.mem.entry(ap).or_insert(V::R(2, 200));
        }
        if rng.next() % 8 == 0 {
            st.mem2.insert(200 + (rng.next() % 8) as usize, rand_u32(rng));
        }
        return st;
    }
    let is_qm31 = matches!(&ins.body, InstructionBody::QM31AssertEq(AssertEqInstruction { b: ResOperand::BinOp(..), .. }));
    let is_dd = matches!(&ins.body, InstructionBody::AssertEq(AssertEqInstruction { b: ResOperand::DoubleDeref(..), .. }) | InstructionBody::AddAp(AddApInstruction { operand: ResOperand::DoubleDeref(..) }));
    let is_binop = matches!(&ins.body, InstructionBody::AssertEq(AssertEqInstruction { b: ResOperand::BinOp(..), .. }) | InstructionBody::AddAp(AddApInstruction { operand: ResOperand::BinOp(..) }));
    let wants_ptr = matches!(&ins.body, InstructionBody::Jump(JumpInstruction { relative: false, .. }) | InstructionBody::Call(CallInstruction { relative: false, .. }));
    for (k, a) in touched(ins, ap, fp).into_iter().enumerate() {
        if a == fp - 1 || a == fp - 2 {
            continue;
        }
        // Known with probability 3/4.
        if rng.next() % 4 != 0 {
            let pointerish = (is_dd && k == 1) || (wants_ptr && rng.next() % 4 != 0);
            let mut v = rand_val(rng, pointerish);
            if is_qm31 && rng.next() % 6 != 0 {
                // A reduced packed QM31 element (boundary coordinates included).
                let c = |rng: &mut SplitMix| -> u64 {
                    match rng.next() % 5 {
                        0 => 0,
                        1 => M31 - 1,
                        2 => 1,
                        _ => rng.next() % M31,
                    }
                };
                v = V::F(qm31_pack(&[c(rng), c(rng), c(rng), c(rng)]));
            }
            if is_binop && rng.next() % 4 != 0 {
                while matches!(v, V::R(..)) {
                    v = rand_val(rng, false);
                }
            }
            st.mem.insert(a, v);
        }
    }
    // Segment 2: targets of double dereferences, partially known.
    for o in 0..40usize {
        if rng.next() % 3 != 0 {
            st.mem2.insert(o, rand_val(rng, false));
        }
    }
    // Random noise cells around ap.
    for _ in 0..2 {
        let o = ap + (rng.next() % 6) as usize;
        if rng.next() % 3 == 0 {
            st.mem.entry(o).or_insert_with(|| rand_val(rng, false));
        }
    }
    // Destination fix-up for assertions: unknown (deduced), consistent (passes without a write)
    // or left as generated (mostly conflicting).
    if let InstructionBody::AssertEq(a) | InstructionBody::QM31AssertEq(a) = &ins.body {
        if let Some(dst) = st.addr(&a.a) {
            if dst != fp - 1 && dst != fp - 2 {
                let mode = rng.next() % 10;
                if mode < 8 {
                    let old = st.mem.remove(&dst);
                    if let RefOutcome::Ok { writes, .. } = reference(ins, &st) {
                        if mode >= 4 {
                            if let Some((_, v)) = writes.iter().find(|(k, _)| *k == (1, dst)) {
                                st.mem.insert(dst, v.clone());
                            }
                        }
                    } else if let Some(v) = old {
                        // All operands unknown etc.: keep the generated destination so that the
                        // operand-deduction path is exercised.
                        st.mem.insert(dst, v);
                    }
                }
            }
        }
    }
    st
}

fn state_json(st: &State) -> Value {
    let m = |m: &BTreeMap<usize, V>| m.iter().map(|(k, v)| json!([k, match v { V::F(f) => json!(f.to_string()), V::R(s, o) => json!([s, o]) }])).collect::<Vec<_>>();
    json!({"pc": st.pc, "ap": st.ap, "fp": st.fp, "mem": m(&st.mem), "mem2": m(&st.mem2)})
}
fn state_from_json(v: &Value) -> State {
    let m = |x: &Value| -> BTreeMap<usize, V> {
        x.as_array()
            .map(|a| {
                a.iter()
                    .filter_map(|e| {
                        let k = e[0].as_u64()? as usize;
                        let v = match &e[1] {
                            Value::String(s) => V::F(s.parse().ok()?),
                            Value::Array(p) => V::R(p[0].as_i64()? as isize, p[1].as_u64()? as usize),
                            _ => return None,
                        };
                        Some((k, v))
                    })
                    .collect()
            })
            .unwrap_or_default()
    };
    State { pc: v["pc"].as_u64().unwrap_or(0) as usize, ap: v["ap"].as_u64().unwrap_or(0) as usize, fp: v["fp"].as_u64().unwrap_or(0) as usize, mem: m(&v["mem"]), mem2: m(&v["mem2"]) }
}

/// Compares one instruction on one state. Ok(true) = compared, Ok(false) = undefined (skipped).
pub fn judge(ins: &Instruction, st: &State) -> Result<u8, (String, String)> {
    let kind = match &ins.body {
        InstructionBody::AssertEq(_) => "assert_eq",
        InstructionBody::AddAp(_) => "add_ap",
        InstructionBody::Call(_) => "call",
        InstructionBody::Jump(_) => "jmp",
        InstructionBody::Jnz(_) => "jnz",
        InstructionBody::Ret(_) => "ret",
        InstructionBody::QM31AssertEq(_) => "qm31_assert_eq",
        InstructionBody::Blake2sCompress(_) => "blake2s",
    };
    let words = match panics::catch(|| ins.assemble().encode()) {
        Ok(w) => w,
        Err(p) => return Err((format!("assemble-panics:{kind}"), format!("assemble/encode of `{ins}` panicked at {}: {}", p.loc, p.msg))),
    };
    if words.len() != ins.body.op_size() {
        return Err((format!("op-size:{kind}"), format!("`{ins}` encodes to {} words but op_size() says {}", words.len(), ins.body.op_size())));
    }
    let mut want = reference(ins, st);
    if let Some((0, t)) = dd_target(ins, st) {
        if t >= st.pc && t < st.pc + words.len() {
            want = RefOutcome::Undefined;
        }
    }
    if want == RefOutcome::Undefined {
        return Ok(0);
    }
    let got = match panics::catch(|| vm_step(ins, &words, st, &touched(ins, st.ap, st.fp))) {
        Ok(g) => g,
        Err(p) => return Err((format!("vm-panics:{kind}"), format!("cairo-vm panicked at {} on `{ins}`: {}", p.loc, p.msg))),
    };
    let norm = |o: &RefOutcome| match o {
        RefOutcome::Ok { pc, ap, fp, writes } => {
            let mut w = writes.clone();
            w.sort_by(|a, b| a.0.cmp(&b.0));
            RefOutcome::Ok { pc: *pc, ap: *ap, fp: *fp, writes: w }
        }
        x => x.clone(),
    };
    if norm(&got) != norm(&want) {
        return Err((
            format!("step-differs:{kind}"),
            format!("`{ins}` (words {:?}) from pc={} ap={} fp={}: the VM gives {:?} but the instruction means {:?}", words.iter().map(|w| format!("{w:#x}")).collect::<Vec<_>>(), st.pc, st.ap, st.fp, norm(&got), norm(&want)),
        ));
    }
    Ok(match &want {
        RefOutcome::Fail => 1,
        RefOutcome::Ok { writes, .. } if writes.is_empty() => 2,
        _ => 3,
    })
}

impl Prop for C16 {
    fn id(&self) -> &'static str {
        "C16"
    }
    fn rule(&self) -> String {
        "Instruction shapes are enumerated exhaustively: AssertEq / AddAp / Call / Jump / Jnz / Ret x operand \
         forms (Deref, DoubleDeref, Immediate, BinOp Add/Mul with Deref or Immediate) x registers x ap++ where \
         legal; every offset slot takes the values {-32768,-32767,-2,-1,0,1,2,32766,32767} (full product for up \
         to two slots, one-slot-at-a-time plus seeded combinations beyond) and every immediate slot 15 boundary \
         immediates (0, +-1, +-2, 2^15, 2^16, 2^63, 2^64, 2^128, P-1, (P-1)/2, (P-1)/2+1, -2^100, 7). For each \
         instance: len(encode(assemble(i))) == op_size(i), and from seeded random machine states with a \
         well-formed frame header (partially known memory, pointer cells, known / unknown / conflicting \
         destinations) one cairo-vm step over the encoded words must equal the reference step written from the \
         printed meaning: success/failure, pc, ap, fp and the set of newly written cells (write-once deduction \
         included). Non-trivial = a compared (instruction, state) pair; distinct = hash of both. QM31 \
         assertions are compared against an own QM31 field (add / mul on reduced packed elements; operand \
         deduction is skipped), Blake2s against an own RFC 7693 compression function."
            .into()
    }
    fn assumptions(&self) -> Vec<String> {
        vec![
            "forms whose op0 is semantically unused read [fp-1]; states therefore always have a well-formed frame header (as every real frame has)".into(),
            "where the printed meaning does not determine the behaviour (operand aliasing the destination, relocatable arithmetic outside add/sub) the pair is skipped and counted".into(),
        ]
    }
    fn worker(&self, ctx: &mut WorkerCtx) {
        let tier = ctx.tier;
        let seed = ctx.seed;
        let n_shards = ctx.n_shards;
        let imms = immediates();
        let all = shapes();
        let states_per = tier.pick(6u64, 40);
        ctx.enumerate_shards(|ctx, shard| {
            let mut idx: u64 = 0;
            let mut reported = std::collections::BTreeSet::new();
            for (si, shape) in all.iter().enumerate() {
                let mut probe = shape.clone();
                let (offs, ims) = slots(&mut probe);
                let (no, ni) = (offs.len(), ims.len());
                // Offset assignments.
                let mut assigns: Vec<Vec<i16>> = vec![];
                if no <= 2 {
                    let total = OFFSETS.len().pow(no as u32);
                    for k in 0..total {
                        let mut v = vec![];
                        let mut kk = k;
                        for _ in 0..no {
                            v.push(OFFSETS[kk % OFFSETS.len()]);
                            kk /= OFFSETS.len();
                        }
                        assigns.push(v);
                    }
                } else {
                    for slot in 0..no {
                        for o in OFFSETS {
                            for base in SMALL_OFFSETS.iter().step_by(3) {
                                let mut v = vec![*base; no];
                                v[slot] = *o;
                                assigns.push(v);
                            }
                        }
                    }
                    let mut rng = SplitMix(derive_seed("C16off", seed, si as u64));
                    for _ in 0..60 {
                        assigns.push((0..no).map(|_| OFFSETS[(rng.next() % OFFSETS.len() as u64) as usize]).collect());
                    }
                }
                for a in &assigns {
                    for ii in 0..imms.len().pow(ni as u32).max(1) {
                        let my = idx % n_shards == shard;
                        idx += 1;
                        if !my {
                            continue;
                        }
                        let mut ins = shape.clone();
                        {
                            let (offs, ims) = slots(&mut ins);
                            for (slot, v) in offs.into_iter().zip(a) {
                                *slot = *v;
                            }
                            let mut kk = ii;
                            for slot in ims {
                                *slot = imms[kk % imms.len()].clone();
                                kk /= imms.len();
                            }
                        }
                        let mut rng = SplitMix(derive_seed("C16st", seed, idx));
                        for _ in 0..states_per {
                            let st = gen_state(&mut rng, &ins);
                            ctx.stats.eval();
                            match judge(&ins, &st) {
                                Ok(c @ 1..) => {
                                    ctx.stats.count("compared");
                                    ctx.stats.count(["", "compared_both_fail", "compared_step_without_write", "compared_step_with_deduced_write"][c as usize]);
                                    ctx.stats.nontrivial(hash_str(&format!("{ins}{:?}", state_json(&st))));
                                    ctx.stats.sample(1, || json!({"instruction": ins.to_string(), "state": {"pc": st.pc, "ap": st.ap, "fp": st.fp, "known_cells": st.mem.len()}}));
                                }
                                Ok(_) => ctx.stats.count("meaning_undefined_skipped"),
                                Err((sig, what)) => {
                                    if reported.insert(sig.clone()) {
                                        let f = Failure { sig, what, artefact: json!({"instruction_index": si, "offsets": a, "imm_index": ii, "state": state_json(&st), "instruction": ins.to_string()}) };
                                        ctx.report(&f, shard);
                                    }
                                }
                            }
                        }
                        ctx.stats.count("instruction_instances");
                    }
                }
            }
            // Size-only checks for the extension forms.
            if shard == 0 {
                use cairo_lang_casm::instructions::Blake2sCompressInstruction;
                for r in [Register::AP, Register::FP] {
                    for o in OFFSETS {
                        let c = CellRef { register: r, offset: *o };
                        let forms = vec![
                            Instruction::new(InstructionBody::QM31AssertEq(AssertEqInstruction { a: c, b: ResOperand::BinOp(BinOpOperand { op: Operation::Mul, a: c, b: DerefOrImmediate::Deref(c) }) }), false),
                            Instruction::new(InstructionBody::Blake2sCompress(Blake2sCompressInstruction { state: c, byte_count: c, message: c, finalize: *o % 2 == 0 }), true),
                        ];
                        for ins in forms {
                            if let Ok(w) = panics::catch(|| ins.assemble().encode()) {
                                ctx.stats.count("extension_forms_size_checked");
                                if w.len() != ins.body.op_size() {
                                    let f = Failure { sig: "op-size:extension".into(), what: format!("`{ins}` encodes to {} words, op_size {}", w.len(), ins.body.op_size()), artefact: json!({"instruction": ins.to_string()}) };
                                    ctx.report(&f, shard);
                                }
                            }
                        }
                    }
                }
            }
        });
    }
    fn replay(&self, artefact: &Value) -> Verdict {
        let all = shapes();
        let Some(si) = artefact["instruction_index"].as_u64() else { return Verdict::Skip("no instruction index") };
        let Some(shape) = all.get(si as usize) else { return Verdict::Skip("bad index") };
        let imms = immediates();
        let mut ins = shape.clone();
        {
            let (offs, ims) = slots(&mut ins);
            let a: Vec<i16> = artefact["offsets"].as_array().map(|v| v.iter().map(|x| x.as_i64().unwrap_or(0) as i16).collect()).unwrap_or_default();
            for (slot, v) in offs.into_iter().zip(a) {
                *slot = v;
            }
            let mut kk = artefact["imm_index"].as_u64().unwrap_or(0) as usize;
            for slot in ims {
                *slot = imms[kk % imms.len()].clone();
                kk /= imms.len();
            }
        }
        let st = state_from_json(&artefact["state"]);
        match judge(&ins, &st) {
            Ok(_) => Verdict::Pass,
            Err((sig, what)) => Verdict::fail(sig, what, artefact.clone()),
        }
    }
    fn health(&self, _tier: Tier, agg: &Agg) -> Result<(), String> {
        if agg.class("compared") * 2 < agg.evaluations {
            return Err("more than half of the (instruction, state) pairs were skipped as undefined".into());
        }
        Ok(())
    }
    fn extra_coverage(&self, _tier: Tier, agg: &Agg) -> BTreeMap<String, Value> {
        let mut m = BTreeMap::new();
        m.insert("exhaustive_slice".into(), json!(format!("all {} instruction shapes x boundary offset / immediate assignments ({} instances)", shapes().len(), agg.class("instruction_instances"))));
        m
    }
}

#[allow(dead_code)]
fn _unused(_: &mut Choices) {}
