//! C12 — compilation is deterministic: same sources, same output, on any schedule / history.
//!
//! Each case compiles one project twice, in two fresh databases: once plainly in a one-thread
//! pool, once after a generated history of unrelated queries (other crates, per-function queries
//! of the same crate in a shuffled order, part of them concurrently on database snapshots) in a
//! pool of n threads. Every output must be byte-identical.

use std::path::PathBuf;

use cairo_lang_compiler::db::RootDatabase;
use cairo_lang_compiler::diagnostics::DiagnosticsReporter;
use cairo_lang_compiler::project::setup_project;
use cairo_lang_compiler::{CompilerConfig, compile_prepared_db_program_artifact};
use cairo_lang_defs::ids::TopLevelLanguageElementId;
use cairo_lang_filesystem::ids::CrateInput;
use cairo_lang_lowering::db::LoweringGroup;
use cairo_lang_lowering::LoweringStage;
use cairo_lang_sierra_generator::canonical_id_replacer::CanonicalReplacer;
use cairo_lang_sierra_generator::db::SierraGenGroup;
use cairo_lang_sierra_generator::replace_ids::SierraIdReplacer;
use cairo_lang_starknet::contract::find_contracts;
use cairo_lang_starknet_classes::casm_contract_class::CasmContractClass;
use serde_json::{Value, json};

use crate::core::cairo::{self, Plugins};
use crate::core::choices::{Choices, SplitMix, hash_str};
use crate::core::driver::{Agg, CaseCtx, Prop, Tier, Verdict, WorkerCtx, repo_root, truncate};
use crate::core::panics;
use crate::core::sierra;
use crate::props::{c08, execs};

pub struct C12;

/// Hand-written projects with shapes the generated programs do not have: mutual recursion (the
/// gas-withdrawal point of a cycle is chosen by the compiler), explicit implicit precedence with
/// unlisted implicits, generic traits with several instantiations, closures.
const TEMPLATES: &[&str] = &[
    // Zero-sized types that occur in function signatures only (no libfunc mentions them): their
    // declarations are collected from the signatures (added after seeded change C12-r3).
    "#[derive(Drop)]\nstruct MarkerA {}\n#[derive(Drop)]\nstruct MarkerB {}\n#[derive(Drop)]\nstruct MarkerC {}\n#[derive(Drop)]\nstruct MarkerD {}\nfn pass_d(d: MarkerD) -> MarkerD {\n    d\n}\nfn pass_a(a: MarkerA) -> MarkerA {\n    a\n}\nfn pass_pair(p: (MarkerC, MarkerB)) -> (MarkerC, MarkerB) {\n    p\n}\nfn pass_b(b: MarkerB) -> MarkerB {\n    b\n}\nfn pass_c(c: MarkerC, x: felt252) -> (MarkerC, felt252) {\n    (c, x + 1)\n}\n",
    "#[implicit_precedence(core::pedersen::Pedersen, core::RangeCheck, core::gas::GasBuiltin)]\nfn ping(n: u32, acc: felt252) -> felt252 {\n    if n == 0 {\n        acc\n    } else {\n        pong(n - 1, core::pedersen::pedersen(acc, 1))\n    }\n}\nfn pong(n: u32, acc: felt252) -> felt252 {\n    if n == 0 {\n        acc\n    } else if n % 2 == 0 {\n        pong(n - 1, acc + 1)\n    } else {\n        ping(n - 1, core::pedersen::pedersen(acc, 2))\n    }\n}\nfn main() -> felt252 {\n    ping(10, 0)\n}\n",
    "fn f(n: felt252) -> felt252 {\n    if n == 0 {\n        1\n    } else {\n        g(n - 1) + 1\n    }\n}\nfn g(n: felt252) -> felt252 {\n    if n == 0 {\n        2\n    } else {\n        f(n - 1) * 2\n    }\n}\n",
    "fn a(n: u32) -> u32 {\n    if n == 0 {\n        0\n    } else {\n        b(n - 1) + c(n - 1)\n    }\n}\nfn b(n: u32) -> u32 {\n    if n == 0 {\n        1\n    } else {\n        c(n - 1) + 1\n    }\n}\nfn c(n: u32) -> u32 {\n    if n == 0 {\n        2\n    } else {\n        a(n - 1) + 2\n    }\n}\nfn main() -> u32 {\n    c(5) + b(4) + a(3)\n}\n",
    "use core::dict::{Felt252Dict, Felt252DictTrait};\n#[implicit_precedence(core::RangeCheck)]\nfn main(x: felt252) -> felt252 {\n    hash_pair(x, 3) + dict_roundtrip(x) + small(x)\n}\nfn hash_pair(a: felt252, b: felt252) -> felt252 {\n    core::pedersen::pedersen(a, b)\n}\nfn dict_roundtrip(a: felt252) -> felt252 {\n    let mut d: Felt252Dict<felt252> = Default::default();\n    d.insert(a, 5);\n    d.get(a)\n}\nfn small(a: felt252) -> felt252 {\n    let x: u8 = a.try_into().unwrap_or(3);\n    (x / 2).into()\n}\n",
    "trait Shape<T> {\n    fn area(self: @T) -> u64;\n}\n#[derive(Drop)]\nstruct Sq {\n    s: u64,\n}\n#[derive(Drop)]\nstruct Re {\n    w: u64,\n    h: u64,\n}\nimpl SqShape of Shape<Sq> {\n    fn area(self: @Sq) -> u64 {\n        *self.s * *self.s\n    }\n}\nimpl ReShape of Shape<Re> {\n    fn area(self: @Re) -> u64 {\n        *self.w * *self.h\n    }\n}\nfn total<T, U, +Shape<T>, +Shape<U>>(a: @T, b: @U) -> u64 {\n    a.area() + b.area()\n}\nfn main() -> u64 {\n    let s = Sq { s: 3 };\n    let r = Re { w: 2, h: 5 };\n    total(@s, @r) + total(@r, @s) + total(@s, @s)\n}\n",
    "fn main(n: u32) -> u32 {\n    let add = |x: u32| x + n;\n    let arr = array![1_u32, 2, 3];\n    let mut acc = 0;\n    for v in arr {\n        acc += add(v);\n    }\n    even(acc) + acc\n}\nfn even(n: u32) -> u32 {\n    if n == 0 {\n        1\n    } else {\n        odd(n - 1)\n    }\n}\nfn odd(n: u32) -> u32 {\n    if n == 0 {\n        0\n    } else {\n        even(n - 1)\n    }\n}\n",
];

#[derive(Clone, Debug)]
pub struct History {
    pub threads: usize,
    /// Other crates asked first: (index into the snippet list, query kind 0 = diagnostics, 1 = Sierra).
    pub others: Vec<(usize, u8)>,
    /// Shuffle seed and fraction (0..=4 quarters) of the target's functions asked one by one.
    pub fn_seed: u64,
    pub fn_quarters: usize,
    /// Number of concurrent snapshot threads sharing the per-function queries (0 = sequential).
    pub snapshots: usize,
    /// Diagnostics asked before (true) or only through the compilation (false).
    pub diagnostics_first: bool,
}

impl History {
    fn generate(ch: &mut Choices, n_snippets: usize) -> History {
        History {
            threads: *ch.pick(&[1usize, 2, 4, 16]),
            others: (0..ch.below(4)).map(|_| (ch.below(n_snippets.max(1)), ch.below(2) as u8)).collect(),
            fn_seed: ch.u64(),
            fn_quarters: ch.below(5),
            snapshots: *ch.pick(&[0usize, 0, 2, 4]),
            diagnostics_first: ch.bool(),
        }
    }
    fn to_json(&self) -> Value {
        json!({"threads": self.threads, "others": self.others, "fn_seed": self.fn_seed.to_string(), "fn_quarters": self.fn_quarters, "snapshots": self.snapshots, "diagnostics_first": self.diagnostics_first})
    }
    fn from_json(v: &Value) -> History {
        History {
            threads: v["threads"].as_u64().unwrap_or(1) as usize,
            others: v["others"].as_array().map(|a| a.iter().map(|p| (p[0].as_u64().unwrap_or(0) as usize, p[1].as_u64().unwrap_or(0) as u8)).collect()).unwrap_or_default(),
            fn_seed: v["fn_seed"].as_str().and_then(|s| s.parse().ok()).unwrap_or(0),
            fn_quarters: v["fn_quarters"].as_u64().unwrap_or(0) as usize,
            snapshots: v["snapshots"].as_u64().unwrap_or(0) as usize,
            diagnostics_first: v["diagnostics_first"].as_bool().unwrap_or(false),
        }
    }
}

#[derive(Debug, PartialEq, Clone)]
pub struct Observed {
    pub diagnostics: String,
    pub artifact: String,
    pub canonical: String,
    pub casm: String,
}

fn shuffled(n: usize, seed: u64) -> Vec<usize> {
    let mut v: Vec<usize> = (0..n).collect();
    let mut r = SplitMix(seed);
    for i in (1..n).rev() {
        let j = (r.next() % (i as u64 + 1)) as usize;
        v.swap(i, j);
    }
    v
}

/// Per-function queries of the target crate: the share `part` of `parts` of the shuffled prefix.
fn function_queries(db: &RootDatabase, input: &CrateInput, h: &History, part: usize, parts: usize) {
    use cairo_lang_defs::db::DefsGroup;
    use cairo_lang_lowering::ids::ConcreteFunctionWithBodyId;
    let id = cairo::crate_id(db, input);
    // The definitions (not yet the lowering-level function ids: those are interned below, in the
    // shuffled order, so that the history really permutes their interning).
    let mut defs = vec![];
    for module_id in db.crate_modules(id).iter() {
        if let Ok(data) = module_id.module_data(db) {
            for (f, _) in data.free_functions(db).iter() {
                defs.push(*f);
            }
        }
    }
    let order = shuffled(defs.len(), h.fn_seed);
    let take = defs.len() * h.fn_quarters / 4;
    for (k, i) in order.into_iter().take(take).enumerate() {
        if k % parts != part {
            continue;
        }
        let Some(f) = ConcreteFunctionWithBodyId::from_no_generics_free(db, defs[i]) else { continue };
        if (h.fn_seed >> (k % 60)) & 1 == 0 {
            let _ = db.function_with_body_sierra(f);
        } else {
            let _ = db.lowered_body(f, LoweringStage::Final);
        }
    }
}

fn apply_history(db: &RootDatabase, input: &CrateInput, h: &History, snippets: &[execs::Snippet]) {
    for (k, (i, q)) in h.others.iter().enumerate() {
        let Some(s) = snippets.get(*i) else { continue };
        let other = cairo::virtual_crate_input(&format!("other{k}"), &s.code, s.settings, None);
        if *q == 0 {
            let _ = cairo::diagnostics_string(db, &other);
        } else {
            let _ = crate::core::exec::sierra_of_crate(db, &other);
        }
    }
    if h.diagnostics_first {
        let _ = cairo::diagnostics_string(db, input);
    }
    if h.snapshots == 0 {
        function_queries(db, input, h, 0, 1);
    } else {
        std::thread::scope(|s| {
            for part in 0..h.snapshots {
                let snap = db.snapshot();
                let input = input.clone();
                let h = h.clone();
                let parts = h.snapshots;
                s.spawn(move || {
                    let _ = panics::catch(|| function_queries(&snap, &input, &h, part, parts));
                });
            }
        });
    }
}

/// True iff the program has a call cycle through at least two Sierra functions (mutual recursion,
/// or a recursive function calling itself from inside a loop, which is a function of its own).
fn has_multi_function_cycle(p: &cairo_lang_sierra::program::Program) -> bool {
    use cairo_lang_sierra::program::{GenericArg, Statement};
    let n = p.funcs.len();
    let mut starts: Vec<(usize, usize)> = p.funcs.iter().enumerate().map(|(i, f)| (f.entry_point.0, i)).collect();
    starts.sort();
    let owner = |stmt: usize| -> Option<usize> { starts.iter().rev().find(|(s, _)| *s <= stmt).map(|(_, i)| *i) };
    let callee: std::collections::HashMap<u64, usize> = p
        .libfunc_declarations
        .iter()
        .filter(|d| matches!(d.long_id.generic_id.0.as_str(), "function_call" | "coupon_call"))
        .filter_map(|d| match d.long_id.generic_args.first() {
            Some(GenericArg::UserFunc(f)) => p.funcs.iter().position(|g| g.id == *f).map(|i| (d.id.id, i)),
            _ => None,
        })
        .collect();
    let mut adj = vec![std::collections::BTreeSet::new(); n];
    for (i, st) in p.statements.iter().enumerate() {
        if let Statement::Invocation(inv) = st {
            if let (Some(to), Some(from)) = (callee.get(&inv.libfunc_id.id), owner(i)) {
                adj[from].insert(*to);
            }
        }
    }
    // Reachability per function (programs here are small).
    let reach = |from: usize| -> Vec<bool> {
        let mut seen = vec![false; n];
        let mut stack: Vec<usize> = adj[from].iter().copied().collect();
        while let Some(x) = stack.pop() {
            if !seen[x] {
                seen[x] = true;
                stack.extend(adj[x].iter().copied());
            }
        }
        seen
    };
    let r: Vec<Vec<bool>> = (0..n).map(reach).collect();
    (0..n).any(|a| (0..n).any(|b| a != b && r[a][b] && r[b][a]))
}

fn observe(db: &RootDatabase, input: &CrateInput, threads: usize) -> (Observed, String, bool) {
    let pool = rayon::ThreadPoolBuilder::new().num_threads(threads).build().expect("pool");
    // The database handle is not Sync: the pool works on a snapshot moved into it.
    let snap = db.snapshot();
    let input = input.clone();
    pool.install(move || {
        let db = &snap;
        let input = &input;
        let mut diagnostics = String::new();
        let id = cairo::crate_id(db, input);
        let art = {
            let rep = DiagnosticsReporter::write_to_string(&mut diagnostics).with_crates(std::slice::from_ref(input)).allow_warnings();
            compile_prepared_db_program_artifact(
                db,
                vec![id],
                CompilerConfig {
                    diagnostics_reporter: rep,
                    replace_ids: true,
                    add_statements_functions: true,
                    add_statements_code_locations: true,
                    // Keyed by raw function ids (history dependent by construction), and its
                    // extraction underflows in overflow-checked builds: left out.
                    add_functions_debug_info: false,
                    add_type_names: false, // keyed by raw type ids as well

                },
            )
        };
        let cyc = art.as_ref().map(|a| has_multi_function_cycle(&a.program)).unwrap_or(false);
        let (artifact, casm) = match &art {
            Ok(a) => {
                let casm = match sierra::pipeline(&a.program, false) {
                    Ok(r) => r.casm.map(|c| c.to_string()).unwrap_or_else(|| format!("no casm: {:?}", r.with_gas)),
                    Err((p, stage)) => format!("{stage} panicked at {}", p.loc),
                };
                // The program is compared in its printed form (debug names): in the JSON form every
                // id also carries its raw interned number, which is neither a canonical nor a
                // debug-name id and legitimately depends on the history.
                let dbg = a.debug_info.as_ref().map(|d| format!("{}\n{}", serde_json::to_string(&d.annotations).unwrap_or_default(), serde_json::to_string(&d.executables.iter().map(|(k, v)| (k.clone(), v.iter().map(|f| f.to_string()).collect::<Vec<_>>())).collect::<Vec<_>>()).unwrap_or_default())).unwrap_or_default();
                (format!("{}\n{dbg}", a.program), casm)
            }
            Err(e) => (format!("error: {e}"), String::new()),
        };
        let (canonical, raw) = match db.get_sierra_program(vec![id]) {
            Ok(p) => (CanonicalReplacer::from_program(&p.program).apply(&p.program).to_string(), p.program.to_string()),
            Err(_) => (String::new(), String::new()),
        };
        (Observed { diagnostics, artifact, canonical, casm }, raw, cyc)
    })
}

fn compare(a: &Observed, b: &Observed) -> Option<(String, String)> {
    let d = |name: &str, x: &str, y: &str| -> Option<(String, String)> {
        if x == y {
            return None;
        }
        let at = x.bytes().zip(y.bytes()).position(|(p, q)| p != q).unwrap_or(x.len().min(y.len()));
        let lo = at.saturating_sub(60);
        let cut = |s: &str| -> String { s.get(lo..(at + 80).min(s.len())).unwrap_or("").to_string() };
        Some((format!("{name}-differs"), format!("{name} differs at byte {at}: plain run {:?} / run after the history {:?}", cut(x), cut(y))))
    };
    d("diagnostics", &a.diagnostics, &b.diagnostics)
        .or_else(|| d("sierra-artifact", &a.artifact, &b.artifact))
        .or_else(|| d("canonical-sierra", &a.canonical, &b.canonical))
        .or_else(|| d("casm", &a.casm, &b.casm))
}

/// Ok((non-trivial, had_errors)).
pub fn judge_plain(source: &str, settings: &str, h: &History, snippets: &[execs::Snippet]) -> Result<(bool, bool), (String, String)> {
    let input = cairo::virtual_crate_input("target", source, settings, None);
    let r = panics::catch(|| {
        let db0 = cairo::new_db(Plugins::Default, None);
        let (o0, raw0, cyc) = observe(&db0, &input, 1);
        drop(db0);
        let db1 = cairo::new_db(Plugins::Default, None);
        apply_history(&db1, &input, h, snippets);
        let (o1, raw1, _) = observe(&db1, &input, h.threads);
        (o0, raw0, o1, raw1, cyc)
    });
    let (o0, raw0, o1, raw1, cyc) = match r {
        Ok(x) => x,
        Err(_) => return Ok((false, false)), // panics are C08 / C09 business
    };
    if let Some((sig, what)) = compare(&o0, &o1) {
        // Root-cause class of the one known finding: in a call cycle through several functions the
        // compiler picks the cycle's representative (hence the gas-withdrawal point) by interned id.
        // The known defect moves `withdraw_gas` between the functions of the cycle; it does not change any
        // function signature. A difference in the signatures is therefore not that finding.
        let sigs = |t: &str| -> Vec<String> {
            let mut v: Vec<String> = t
                .lines()
                .filter_map(|l| {
                    // Function declarations: `name@F12(params) -> (rets);` (the entry label is dropped).
                    if !(l.ends_with(");") && l.contains(") -> (")) {
                        return None;
                    }
                    let a = l.find('@')?;
                    let b = a + l[a..].find('(')?;
                    let label = &l[a + 1..b];
                    let label = label.strip_prefix('F').unwrap_or(label);
                    if label.is_empty() || !label.bytes().all(|c| c.is_ascii_digit()) {
                        return None;
                    }
                    Some(format!("{}{}", &l[..a], &l[b..]))
                })
                .collect();
            v.sort();
            v
        };
        if cyc && sig != "diagnostics-differs" && sigs(&o0.artifact) == sigs(&o1.artifact) {
            return Err((format!("{sig}:program-with-multi-function-call-cycle"), what));
        }
        return Err((sig, what));
    }
    Ok((raw0 != raw1 && !raw0.is_empty(), o0.artifact.starts_with("error")))
}

// ---- contracts ---------------------------------------------------------------------------------

fn contracts_dir() -> PathBuf {
    repo_root().join("crates/cairo-lang-starknet/cairo_level_tests")
}

fn contracts_db() -> (RootDatabase, Vec<CrateInput>) {
    let mut db = cairo::new_db(Plugins::Starknet, None);
    let inputs = setup_project(&mut db, &contracts_dir()).expect("contracts project");
    (db, inputs)
}

/// Compiles the chosen contracts (by index in the sorted list of full paths) to class JSON + CASM class JSON.
fn observe_contracts(db: &RootDatabase, inputs: &[CrateInput], picks: &[usize], threads: usize) -> Vec<(String, String, String)> {
    let pool = rayon::ThreadPoolBuilder::new().num_threads(threads).build().expect("pool");
    let snap = db.snapshot();
    let inputs = inputs.to_vec();
    let picks = picks.to_vec();
    pool.install(move || {
        let db = &snap;
        let inputs = &inputs[..];
        let ids = CrateInput::into_crate_ids(db, inputs.to_vec());
        let mut contracts = find_contracts(db, &ids);
        contracts.sort_by_key(|c| c.submodule_id.full_path(db));
        let chosen: Vec<_> = picks.iter().filter_map(|i| contracts.get(*i % contracts.len().max(1))).collect();
        let mut diag = String::new();
        let rep = DiagnosticsReporter::write_to_string(&mut diag).with_crates(inputs).allow_warnings();
        let classes = cairo_lang_starknet::compile::compile_prepared_db(
            db,
            &chosen,
            CompilerConfig { diagnostics_reporter: rep, replace_ids: true, ..CompilerConfig::default() },
        );
        match classes {
            Ok(cs) => cs
                .into_iter()
                .zip(chosen.iter())
                .map(|(c, decl)| {
                    let name = decl.submodule_id.full_path(db);
                    let j = serde_json::to_string(&c).unwrap_or_default();
                    let casm = match c.extract_sierra_program(false) {
                        Ok(ext) => match CasmContractClass::from_contract_class(c.clone(), ext, false, usize::MAX) {
                            Ok(cc) => serde_json::to_string(&cc).unwrap_or_default(),
                            Err(e) => format!("casm error: {e}"),
                        },
                        Err(e) => format!("extract error: {e}"),
                    };
                    (name, j, casm)
                })
                .collect(),
            Err(e) => vec![("error".into(), format!("{e}"), diag.clone())],
        }
    })
}

pub fn judge_contracts(picks: &[usize], h: &History) -> Result<bool, (String, String)> {
    let r = panics::catch(|| {
        let (db0, in0) = contracts_db();
        let o0 = observe_contracts(&db0, &in0, picks, 1);
        drop(db0);
        let (db1, in1) = contracts_db();
        // History: other contracts first, in another order and pool, and per-function queries.
        let mut other: Vec<usize> = picks.iter().map(|p| p + 1 + (h.fn_seed % 7) as usize).collect();
        other.reverse();
        if h.fn_quarters >= 2 {
            let _ = observe_contracts(&db1, &in1, &other, if h.threads == 1 { 4 } else { 1 });
        }
        if h.diagnostics_first {
            for i in &in1 {
                let _ = cairo::has_errors(&db1, i);
            }
        }
        let o1 = observe_contracts(&db1, &in1, picks, h.threads);
        (o0, o1)
    });
    let (o0, o1) = match r {
        Ok(x) => x,
        Err(p) => return Err((format!("panic@{}", p.loc), truncate(&p.msg, 300))),
    };
    if o0.len() != o1.len() {
        return Err(("contract-count-differs".into(), format!("{} vs {} classes", o0.len(), o1.len())));
    }
    for (a, b) in o0.iter().zip(&o1) {
        if a.0 != b.0 {
            return Err(("contract-order-differs".into(), format!("{} vs {}", a.0, b.0)));
        }
        if a.1 != b.1 {
            return Err(("contract-class-differs".into(), format!("the contract class JSON of {} differs between the plain run and the run after a history", a.0)));
        }
        if a.2 != b.2 {
            return Err(("casm-class-differs".into(), format!("the CASM class JSON of {} differs between the plain run and the run after a history", a.0)));
        }
    }
    Ok(!o0.is_empty() && o0[0].0 != "error")
}

impl Prop for C12 {
    fn id(&self) -> &'static str {
        "C12"
    }
    fn rule(&self) -> String {
        "Projects: generated typed programs, e2e snippets, example files and six hand-written templates (mutual recursion, mutual recursion with one-sided implicit precedence, \
         #[implicit_precedence] with unlisted implicits, generic traits with several instantiations, closures) - unmutated or with 1-2 token mutations \
         so that the diagnostics list is non-empty (warnings / errors) - and, in one case of eight, three contracts \
         of the Starknet test crate (crates/cairo-lang-starknet/cairo_level_tests). Each project is compiled in two \
         fresh databases: (plain) directly, in a one-thread rayon pool; (history) in a pool of n in {1,2,4,16} \
         threads (the pool is what the compiler's parallel warm-up consults), after a generated history: 0-3 other \
         crates asked for diagnostics or Sierra first, the target's diagnostics asked first or not, a shuffled \
         prefix (0-4 quarters) of the target's functions asked one by one for Sierra or final lowering, \
         sequentially or split over 2 / 4 concurrent database snapshots. Compared byte for byte: diagnostics text, \
         the printed program of compile_prepared_db_program_artifact (debug names) with its statement-function and code-location annotations (the annotations keyed by raw interned ids are left out) \
         and executables, the canonical-id program, the CASM text; for contracts the ContractClass JSON and the \
         CasmContractClass JSON after compiling other contracts first in another pool. Non-trivial = the raw \
         (interned-id) Sierra texts of the two runs differ while all outputs are equal - the history really \
         permuted id allocation - or a contract case; distinct = hash(project, history)."
            .into()
    }
    fn assumptions(&self) -> Vec<String> {
        vec!["the harness owns query order, snapshot concurrency and pool size, not the interleaving inside a pool: a race that needs one specific interleaving is reached only by repetition".into()]
    }
    fn worker(&self, ctx: &mut WorkerCtx) {
        let snippets = execs::load_snippets();
        let cases = ctx.tier.pick(8, 120);
        ctx.shrink_iters = 40;
        ctx.run_shards(1400, cases, |cc: &mut CaseCtx<'_>, ch: &mut Choices| {
            let h = History::generate(ch, snippets.len());
            if ch.chance(1, 8) {
                let picks: Vec<usize> = (0..3).map(|_| ch.below(40)).collect();
                let a = json!({"kind": "contracts", "picks": picks, "history": h.to_json()});
                cc.start(|| a.clone());
                return match judge_contracts(&picks, &h) {
                    Ok(ok) => {
                        let st = cc.stats();
                        st.eval();
                        st.count("contract_cases");
                        if ok {
                            st.count("contract_cases_compiled");
                            st.nontrivial(hash_str(&a.to_string()));
                        }
                        st.count(&format!("threads:{}", h.threads));
                        Verdict::Pass
                    }
                    Err((sig, what)) => Verdict::fail(sig, what, a),
                };
            }
            let (origin, mut source, settings) = if ch.chance(1, 5) {
                let i = ch.below(TEMPLATES.len());
                cc.stats().count("template_cases");
                (format!("template#{i}"), TEMPLATES[i].to_string(), cairo::SETTINGS_2024_07)
            } else if snippets.is_empty() || ch.chance(1, 2) {
                let c = execs::pick_case(ch, &[], 10, 0);
                ("generated".to_string(), c.source, cairo::SETTINGS_2024_07)
            } else {
                let s = &snippets[ch.below(snippets.len())];
                (s.origin.clone(), s.code.clone(), s.settings)
            };
            let mut muts = vec![];
            if ch.chance(1, 3) {
                for _ in 0..1 + ch.below(2) {
                    if let Some(m) = c08::mutate(ch, &mut source) {
                        muts.push(m);
                    }
                }
            }
            let a = json!({"kind": "plain", "origin": origin, "source": source, "edition": if settings == cairo::SETTINGS_2023_01 { "2023_01" } else { "2024_07" }, "mutations": muts, "history": h.to_json()});
            cc.start(|| a.clone());
            match judge_plain(&source, settings, &h, &snippets) {
                Ok((permuted, had_errors)) => {
                    let st = cc.stats();
                    st.eval();
                    st.count("plain_cases");
                    st.count(&format!("threads:{}", h.threads));
                    st.count(&format!("snapshots:{}", h.snapshots));
                    if had_errors {
                        st.count("cases_with_error_diagnostics");
                    }
                    if permuted {
                        st.count("cases_where_raw_ids_differed");
                        st.nontrivial(hash_str(&a.to_string()));
                    }
                    st.sample(1, || json!({"origin": origin, "mutations": muts, "history": h.to_json(), "raw_ids_differed": permuted}));
                    Verdict::Pass
                }
                Err((sig, what)) => Verdict::fail(sig, what, a),
            }
        });
    }
    fn replay(&self, a: &Value) -> Verdict {
        let h = History::from_json(&a["history"]);
        if a["kind"].as_str() == Some("contracts") {
            let picks: Vec<usize> = a["picks"].as_array().map(|v| v.iter().map(|x| x.as_u64().unwrap_or(0) as usize).collect()).unwrap_or_default();
            // A schedule-dependent difference may need repetition.
            for _ in 0..3 {
                if let Err((sig, what)) = judge_contracts(&picks, &h) {
                    return Verdict::fail(sig, what, a.clone());
                }
            }
            return Verdict::Pass;
        }
        let snippets = execs::load_snippets();
        let settings = if a["edition"].as_str() == Some("2023_01") { cairo::SETTINGS_2023_01 } else { cairo::SETTINGS_2024_07 };
        for _ in 0..3 {
            if let Err((sig, what)) = judge_plain(a["source"].as_str().unwrap_or(""), settings, &h, &snippets) {
                return Verdict::fail(sig, what, a.clone());
            }
        }
        Verdict::Pass
    }
    fn health(&self, _tier: Tier, agg: &Agg) -> Result<(), String> {
        if agg.class("cases_where_raw_ids_differed") * 4 < agg.class("plain_cases") {
            return Err("in fewer than a quarter of the cases did the history change the raw id allocation".into());
        }
        Ok(())
    }
}
