//! C13 — incremental recompilation equals compiling the final sources from scratch.
//!
//! Stateful check: the model is the map file -> contents (None = no override, the file is absent);
//! the system under test is one `RootDatabase` whose files are edited through
//! `override_file_content!`, with queries in between. After steps, its diagnostics (with
//! locations) and Sierra are compared with those of a fresh database given the same contents.

use std::path::PathBuf;

use cairo_lang_compiler::db::RootDatabase;
use cairo_lang_filesystem::db::{CrateConfiguration, CrateSettings, Edition, FilesGroup};
use cairo_lang_filesystem::ids::{CrateId, CrateInput, Directory, FileLongId, SmolStrId};
use cairo_lang_filesystem::{override_file_content, set_crate_config};
use cairo_lang_utils::Intern;
use salsa::Database;
use serde_json::{Value, json};

use crate::core::cairo::{self, Plugins};
use crate::core::choices::{Choices, hash_str};
use crate::core::driver::{Agg, CaseCtx, Failure, Prop, Tier, Verdict, WorkerCtx, truncate};
use crate::core::exec;
use crate::core::panics;
use crate::gens::textmut::{TokKind, rough_lex};
use crate::props::c01;

pub struct C13;

const FILES: [&str; 2] = ["lib.cairo", "m.cairo"];
const CRATE: &str = "proj";

pub struct Sut {
    db: RootDatabase,
    input: CrateInput,
    root: PathBuf,
}

impl Sut {
    pub fn new() -> Sut {
        let mut db = cairo::new_db(Plugins::Default, None);
        let root = PathBuf::from("/verif-c13-virtual-root");
        let input = {
            let db_mut: &mut dyn Database = &mut db;
            let crate_id = CrateId::plain(db_mut, SmolStrId::from(db_mut, CRATE));
            let cfg = CrateConfiguration {
                root: Directory::Real(root.clone()),
                settings: CrateSettings { edition: Edition::V2024_07, ..CrateSettings::default() },
                cache_file: None,
            };
            set_crate_config!(db_mut, crate_id, Some(cfg));
            let crate_id = CrateId::plain(db_mut, SmolStrId::from(db_mut, CRATE));
            crate_id.long(db_mut).clone().into_crate_input(db_mut)
        };
        Sut { db, input, root }
    }
    pub fn set(&mut self, file: &str, content: Option<&str>) {
        let db_mut: &mut dyn Database = &mut self.db;
        let file_id = FileLongId::OnDisk(self.root.join(file)).intern(db_mut);
        override_file_content!(db_mut, file_id, content.map(|c| c.to_string().into()));
    }
    /// (diagnostics with locations, Sierra text if error-free). Err = panic.
    pub fn observe(&self, want_sierra: bool) -> Result<(String, Option<String>), panics::PanicRec> {
        panics::catch(|| {
            let (d, _) = cairo::diagnostics_string(&self.db, &self.input);
            let sierra = if want_sierra { exec::sierra_of_crate(&self.db, &self.input).ok().map(|p| p.to_string()) } else { None };
            (d, sierra)
        })
    }
}

type Contents = [Option<String>; 2];

/// What is asked of the incremental database after a step.
#[derive(Clone, Copy, PartialEq, Debug)]
pub enum Query {
    None,
    Diagnostics,
    Sierra,
}

#[derive(Clone, Debug)]
pub struct Step {
    pub op: String,
    pub contents: Contents,
    pub query: Query,
    pub check: bool,
}

fn step_json(s: &Step) -> Value {
    json!({"op": s.op, "lib": s.contents[0], "m": s.contents[1], "query": format!("{:?}", s.query), "check": s.check})
}
fn step_from_json(v: &Value) -> Step {
    Step {
        op: v["op"].as_str().unwrap_or("").to_string(),
        contents: [v["lib"].as_str().map(|s| s.to_string()), v["m"].as_str().map(|s| s.to_string())],
        query: match v["query"].as_str() {
            Some("Diagnostics") => Query::Diagnostics,
            Some("Sierra") => Query::Sierra,
            _ => Query::None,
        },
        check: v["check"].as_bool().unwrap_or(true),
    }
}

const M_FILE: &str = "\
#[derive(Copy, Drop, PartialEq)]
pub struct SM {
    pub a: felt252,
    pub b: u32,
}

pub fn helper_m(x: felt252) -> felt252 {
    let s = SM { a: x, b: 3 };
    if s.b == 3 {
        s.a + 1
    } else {
        s.a
    }
}

pub fn twice(x: u32) -> u32 {
    let y = x / 2;
    y + y
}

pub trait TR {
    fn p(self: @SM) -> felt252;
    fn q(self: @SM) -> u32;
}

pub impl TRImpl of TR {
    fn p(self: @SM) -> felt252 {
        let unused_p = 1;
        *self.a
    }
    fn q(self: @SM) -> u32 {
        let unused_q = 2;
        *self.b
    }
}
";

fn initial(ch: &mut Choices) -> Contents {
    let pc = c01::gen_case(ch, 0);
    let lib = format!(
        "mod m;\nuse m::{{helper_m, SM}};\n{}\nfn uses_m(v: felt252) -> felt252 {{\n    let s = SM {{ a: v, b: 1 }};\n    helper_m(s.a) + m::twice(s.b).into()\n}}\n",
        pc.source
    );
    [Some(lib), Some(M_FILE.to_string())]
}

fn lines_of(s: &str) -> Vec<String> {
    s.lines().map(|l| l.to_string()).collect()
}
fn join(l: &[String]) -> String {
    l.join("\n") + "\n"
}

/// Byte ranges of top-level items that start with `fn` / `pub fn` / `#[` at column 0 and end at a
/// line that is exactly `}`.
fn items(s: &str) -> Vec<(usize, usize)> {
    let ls = lines_of(s);
    let mut out = vec![];
    let mut i = 0;
    while i < ls.len() {
        let l = &ls[i];
        if l.starts_with("fn ") || l.starts_with("pub fn ") || l.starts_with("#[") {
            let start = i;
            let mut j = i;
            while j < ls.len() && ls[j] != "}" {
                j += 1;
            }
            if j < ls.len() {
                out.push((start, j + 1));
                i = j + 1;
                continue;
            }
        }
        i += 1;
    }
    out
}

/// One edit generated from the current contents. Returns the description.
fn edit(ch: &mut Choices, cur: &mut Contents, saved: &mut Vec<Contents>, n: usize) -> String {
    let f = if ch.chance(3, 4) { 0 } else { 1 };
    // File absent: the only edits are setting it again or doing something to the other file.
    if cur[f].is_none() {
        let back = saved.iter().rev().find_map(|c| c[f].clone()).unwrap_or_else(|| M_FILE.to_string());
        cur[f] = Some(back);
        return format!("override set again for {}", FILES[f]);
    }
    let text = cur[f].clone().unwrap();
    let mut ls = lines_of(&text);
    let kind = ch.weighted(&[5, 4, 4, 3, 3, 3, 2, 2, 4, 7, 1, 2, 2, 3, 4]);
    // Every edit that may introduce errors can be undone by a later repair.
    if matches!(kind, 2 | 4 | 5 | 6 | 7 | 12 | 13) {
        saved.push(cur.clone());
    }
    match kind {
        0 => {
            // Trivia: shifts everything below.
            let at = ch.below(ls.len() + 1);
            let t = *ch.pick(&["", "// note", "    ", "/// doc", "\t"]);
            ls.insert(at, t.to_string());
            cur[f] = Some(join(&ls));
            format!("trivia line {t:?} inserted at {}:{at}", FILES[f])
        }
        1 => {
            // Trivia inside a line.
            let at = ch.below(ls.len());
            if ch.bool() {
                ls[at].push_str(" // c");
            } else {
                ls[at].insert(0, ' ');
            }
            cur[f] = Some(join(&ls));
            format!("trivia inside line {}:{at}", FILES[f])
        }
        2 => {
            // Rename an identifier: everywhere in this file, or in both files.
            let toks = rough_lex(&text);
            let ids: Vec<String> = toks
                .iter()
                .filter(|t| t.kind == TokKind::Ident)
                .map(|t| text[t.start..t.end].to_string())
                .filter(|s| {
                    (s.starts_with('f') || s.starts_with('v') || s.starts_with('S') || s.starts_with('E') || s == "helper_m" || s == "twice" || s == "uses_m" || s.starts_with('x') || s.starts_with('m'))
                        && s != "felt252" && s != "fn" && s != "false" && s != "mod" && s != "mut" && s != "match" && s != "for"
                })
                .collect();
            if ids.is_empty() {
                return "no-op (nothing to rename)".into();
            }
            let from = ids[ch.below(ids.len())].clone();
            let to = format!("{from}_r{n}");
            let both = ch.bool();
            let ren = |s: &str| -> String {
                let toks = rough_lex(s);
                let mut out = String::new();
                for t in toks {
                    let piece = &s[t.start..t.end];
                    if t.kind == TokKind::Ident && piece == from { out.push_str(&to) } else { out.push_str(piece) }
                }
                out
            };
            cur[f] = Some(ren(&text));
            if both {
                if let Some(o) = cur[1 - f].clone() {
                    cur[1 - f] = Some(ren(&o));
                }
            }
            format!("rename {from} -> {to} in {}", if both { "both files" } else { FILES[f] })
        }
        3 => {
            // Insert a statement at the top of a function body.
            let heads: Vec<usize> = (0..ls.len()).filter(|i| (ls[*i].starts_with("fn ") || ls[*i].starts_with("pub fn ")) && ls[*i].trim_end().ends_with('{')).collect();
            if heads.is_empty() {
                return "no-op (no function)".into();
            }
            let h = heads[ch.below(heads.len())];
            let stmt = match ch.below(4) {
                0 => format!("    let _z{n} = {};", ch.below(100)),
                1 => format!("    let _z{n}: u8 = {}_u8 + 1;", ch.below(300)),
                2 => format!("    const K{n}: felt252 = {};", ch.below(9)),
                _ => format!("    {} + {};", ch.below(9), ch.below(9)),
            };
            ls.insert(h + 1, stmt.clone());
            cur[f] = Some(join(&ls));
            format!("statement `{}` inserted after {}:{h}", stmt.trim(), FILES[f])
        }
        4 | 5 => {
            let stmts: Vec<usize> = (0..ls.len()).filter(|i| ls[*i].trim_end().ends_with(';') && ls[*i].starts_with(' ')).collect();
            if stmts.is_empty() {
                return "no-op (no statement)".into();
            }
            let i = stmts[ch.below(stmts.len())];
            if kind == 4 {
                let l = ls[i].clone();
                ls.insert(i, l);
                cur[f] = Some(join(&ls));
                format!("statement line {}:{i} duplicated", FILES[f])
            } else {
                ls.remove(i);
                cur[f] = Some(join(&ls));
                format!("statement line {}:{i} deleted", FILES[f])
            }
        }
        6 | 7 | 12 => {
            let its = items(&text);
            if its.is_empty() {
                return "no-op (no item)".into();
            }
            let (a, b) = its[ch.below(its.len())];
            let item: Vec<String> = ls[a..b].to_vec();
            match kind {
                6 => {
                    // Duplicate (same name: a redefinition error) or with a new name.
                    let mut dup = item.clone();
                    if ch.bool() {
                        for l in dup.iter_mut() {
                            if l.starts_with("fn ") || l.starts_with("pub fn ") {
                                *l = l.replacen("fn ", &format!("fn d{n}_"), 1);
                                break;
                            }
                        }
                    }
                    let at = if ch.bool() { a } else { b };
                    for (k, l) in dup.into_iter().enumerate() {
                        ls.insert(at + k, l);
                    }
                    cur[f] = Some(join(&ls));
                    format!("item {}:{a}-{b} duplicated", FILES[f])
                }
                7 => {
                    ls.drain(a..b);
                    cur[f] = Some(join(&ls));
                    format!("item {}:{a}-{b} deleted", FILES[f])
                }
                _ => {
                    // Move to the other file.
                    ls.drain(a..b);
                    cur[f] = Some(join(&ls));
                    if let Some(o) = cur[1 - f].clone() {
                        cur[1 - f] = Some(format!("{o}{}", join(&item)));
                    }
                    format!("item {}:{a}-{b} moved to {}", FILES[f], FILES[1 - f])
                }
            }
        }
        8 => {
            // Break the syntax: delete a closer or a semicolon, or add a stray token / half a line.
            saved.push(cur.clone());
            let toks = rough_lex(&text);
            let cands: Vec<usize> = (0..toks.len()).filter(|i| matches!(&text[toks[*i].start..toks[*i].end], "}" | ")" | ";" | "{" | "(" | "->" | "," | ":")).collect();
            let mut s = text.clone();
            let what = if !cands.is_empty() && ch.chance(2, 3) {
                let t = &toks[cands[ch.below(cands.len())]];
                let w = s[t.start..t.end].to_string();
                s.replace_range(t.start..t.end, "");
                format!("token {w:?} deleted at byte {}", t.start)
            } else {
                let at = ch.below(ls.len() + 1);
                let junk = *ch.pick(&["fn half(", "let x = ", "}", "((", "struct {", "mod", "use m::", "#[", "\"open"]);
                let mut l2 = ls.clone();
                l2.insert(at, junk.to_string());
                s = join(&l2);
                format!("stray {junk:?} inserted at line {at}")
            };
            cur[f] = Some(s);
            format!("syntax broken in {}: {what}", FILES[f])
        }
        9 => {
            // Repair: back to a saved state.
            match saved.pop() {
                Some(c) => {
                    *cur = c;
                    "repaired (back to the state before the last breaking edit)".into()
                }
                None => "no-op (nothing to repair)".into(),
            }
        }
        10 => {
            saved.push(cur.clone());
            cur[f] = None;
            format!("override unset for {} (file absent)", FILES[f])
        }
        11 => "no-op rewrite (same contents set again)".into(),
        14 => {
            // Reorder only: swap two adjacent member lines of a struct / enum / trait / impl body
            // (one-line members), or two adjacent one-item blocks (functions) at the same level.
            let mut cands: Vec<(usize, usize, usize)> = vec![]; // (first start, second start, second end) in lines
            // One-line members: consecutive lines with the same indentation, ending with ',' or ';'.
            for i in 0..ls.len().saturating_sub(1) {
                let (a, b) = (&ls[i], &ls[i + 1]);
                let ind = |l: &str| l.len() - l.trim_start().len();
                let member = |l: &str| {
                    let t = l.trim();
                    (t.ends_with(',') || t.ends_with(';')) && !t.starts_with("let ") && !t.starts_with("//") && t.contains(':') && !t.contains('(') || (t.starts_with("fn ") && t.ends_with(';'))
                };
                if ind(a) == ind(b) && ind(a) > 0 && member(a) && member(b) {
                    cands.push((i, i + 1, i + 2));
                }
            }
            // Adjacent functions (top level or inside an impl): `fn` header .. closing brace at the
            // same indentation.
            let mut blocks: Vec<(usize, usize, usize)> = vec![]; // (start, end_exclusive, indent)
            let mut i = 0;
            while i < ls.len() {
                let l = &ls[i];
                let indent = l.len() - l.trim_start().len();
                let t = l.trim_start();
                if (t.starts_with("fn ") || t.starts_with("pub fn ")) && t.trim_end().ends_with('{') {
                    let close = format!("{}}}", " ".repeat(indent));
                    if let Some(j) = (i + 1..ls.len()).find(|j| ls[*j] == close) {
                        blocks.push((i, j + 1, indent));
                        i = j + 1;
                        continue;
                    }
                }
                i += 1;
            }
            for w in blocks.windows(2) {
                if w[0].1 == w[1].0 && w[0].2 == w[1].2 {
                    cands.push((w[0].0, w[1].0, w[1].1));
                }
            }
            if cands.is_empty() {
                return "no-op (nothing to reorder)".into();
            }
            let (a, b, e) = cands[ch.below(cands.len())];
            let first: Vec<String> = ls[a..b].to_vec();
            let second: Vec<String> = ls[b..e].to_vec();
            let mut out: Vec<String> = ls[..a].to_vec();
            out.extend(second);
            out.extend(first);
            out.extend(ls[e..].iter().cloned());
            cur[f] = Some(join(&out));
            format!("reorder: lines {a}..{b} swapped with {b}..{e} in {}", FILES[f])
        }
        _ => {
            // Change a literal.
            let toks = rough_lex(&text);
            let nums: Vec<usize> = (0..toks.len()).filter(|i| toks[*i].kind == TokKind::Number).collect();
            if nums.is_empty() {
                return "no-op (no literal)".into();
            }
            let t = &toks[nums[ch.below(nums.len())]];
            let old = text[t.start..t.end].to_string();
            let suffix = old.find('_').map(|i| old[i..].to_string()).unwrap_or_default();
            let new = format!("{}{}", ch.below(200), suffix);
            let mut s = text.clone();
            s.replace_range(t.start..t.end, &new);
            cur[f] = Some(s);
            format!("literal {old} -> {new} in {}", FILES[f])
        }
    }
}

pub fn gen_history(ch: &mut Choices, tier: Tier) -> Vec<Step> {
    // Structure first, content later (choice starvation).
    let n = 4 + ch.below(27);
    let plan: Vec<(usize, bool, Vec<u32>)> = (0..n).map(|_| (ch.weighted(&[5, 3, 3]), ch.chance(1, 4), (0..14).map(|_| ch.next()).collect())).collect();
    let mut cur = initial(ch);
    let mut saved: Vec<Contents> = vec![];
    let mut steps = vec![Step { op: "initial contents".into(), contents: cur.clone(), query: Query::Sierra, check: true }];
    for (i, (q, chk, seeds)) in plan.iter().enumerate() {
        let mut ech = Choices::new(seeds.clone());
        let op = edit(&mut ech, &mut cur, &mut saved, i);
        let query = [Query::None, Query::Diagnostics, Query::Sierra][*q];
        let check = *chk || tier == Tier::Thorough || i + 1 == n;
        steps.push(Step { op, contents: cur.clone(), query, check });
    }
    steps
}

fn fresh_observation(contents: &Contents) -> Result<(String, Option<String>), panics::PanicRec> {
    let mut s = Sut::new();
    for (i, f) in FILES.iter().enumerate() {
        if let Some(c) = &contents[i] {
            s.set(f, Some(c));
        }
    }
    s.observe(true)
}

fn first_diff(a: &str, b: &str) -> String {
    for (i, (x, y)) in a.lines().zip(b.lines()).enumerate() {
        if x != y {
            return format!("line {i}: incremental {:?} / fresh {:?}", truncate(x, 160), truncate(y, 160));
        }
    }
    format!("{} lines incremental / {} lines fresh", a.lines().count(), b.lines().count())
}

pub struct RunStats {
    pub checks: u64,
    pub checks_with_errors: u64,
    pub checks_with_sierra: u64,
}

/// Drives one incremental database through the history. Err = violation.
pub fn run_history(steps: &[Step], stats: &mut RunStats) -> Result<(), (String, String)> {
    let mut sut = Sut::new();
    let mut prev: Contents = [None, None];
    for (k, st) in steps.iter().enumerate() {
        for (i, f) in FILES.iter().enumerate() {
            // A no-op rewrite sets the same contents again; everything else sets what changed.
            if st.contents[i] != prev[i] || st.op.starts_with("no-op rewrite") {
                sut.set(f, st.contents[i].as_deref());
            }
        }
        prev = st.contents.clone();
        let inc = match st.query {
            Query::None => None,
            Query::Diagnostics => Some(sut.observe(false)),
            Query::Sierra => Some(sut.observe(true)),
        };
        if !st.check {
            continue;
        }
        let inc = match (inc, st.query) {
            (Some(x), Query::Sierra) => x,
            _ => sut.observe(true),
        };
        let fresh = fresh_observation(&st.contents);
        let (inc, fresh) = match (inc, fresh) {
            (Ok(a), Ok(b)) => (a, b),
            (Err(_), Err(_)) => return Ok(()), // both panic: the front end's totality is C09's subject
            (Err(p), Ok(_)) => {
                return Err((
                    "incremental-panics-fresh-does-not".into(),
                    format!("after step {k} ({}) the edited database panics at {} ({}) while a fresh one answers", st.op, p.loc, truncate(&p.msg, 200)),
                ));
            }
            (Ok(_), Err(p)) => {
                return Err((
                    "fresh-panics-incremental-does-not".into(),
                    format!("after step {k} ({}) a fresh database panics at {} ({}) while the edited one answers", st.op, p.loc, truncate(&p.msg, 200)),
                ));
            }
        };
        stats.checks += 1;
        if inc.0 != fresh.0 {
            return Err(("diagnostics-differ".into(), format!("after step {k} ({}): diagnostics differ from a fresh database: {}", st.op, first_diff(&inc.0, &fresh.0))));
        }
        if inc.1 != fresh.1 {
            let d = match (&inc.1, &fresh.1) {
                (Some(a), Some(b)) => first_diff(a, b),
                (a, b) => format!("incremental has Sierra: {}, fresh has Sierra: {}", a.is_some(), b.is_some()),
            };
            return Err(("sierra-differs".into(), format!("after step {k} ({}): Sierra differs from a fresh database: {d}", st.op)));
        }
        if fresh.1.is_some() {
            stats.checks_with_sierra += 1;
        } else {
            stats.checks_with_errors += 1;
        }
    }
    Ok(())
}

fn artefact(steps: &[Step]) -> Value {
    json!({"steps": steps.iter().map(step_json).collect::<Vec<_>>()})
}

impl Prop for C13 {
    fn id(&self) -> &'static str {
        "C13"
    }
    fn rule(&self) -> String {
        "Histories of 4-30 edits over a two-file project (lib.cairo = a generated typed program + glue, m.cairo = \
         a module with a struct and functions; crate rooted at a non-existent directory, contents given through \
         override_file_content, edition 2024_07). Edits, generated from the current contents: trivia line / in-line \
         trivia (shifts), identifier rename in one or both files, statement insertion at the top of a body (let, \
         typed let, const item, expression), statement line duplication / deletion, item duplication (same or new \
         name) / deletion / move to the other file, syntax-breaking edits (delete a closer / separator / arrow, \
         stray half-typed tokens, unterminated string) and repair (back to the saved state), override unset (file \
         absent) and set again, no-op rewrite, literal change, pure reordering (two adjacent struct / enum / \
         trait members or two adjacent functions, also inside an impl, swapped). After each edit the edited database is asked \
         nothing, diagnostics, or diagnostics + Sierra (drawn per step), so edits accumulate between queries. At \
         check points (a quarter of the steps and the last one in quick, every step in thorough) diagnostics text \
         (with line/column) and, when error-free, the Sierra text (debug names) must equal those of a fresh \
         RootDatabase given the same contents. Non-trivial = history with a syntax-breaking edit followed by a \
         later check point on error-free contents, or a check point on erroneous contents after a shift; distinct \
         = hash of the history."
            .into()
    }
    fn assumptions(&self) -> Vec<String> {
        vec!["a fresh RootDatabase per check point is the reference (nothing is shared with the edited one)".into()]
    }
    fn worker(&self, ctx: &mut WorkerCtx) {
        let tier = ctx.tier;
        let cases = tier.pick(2, 40);
        ctx.shrink_iters = 40;
        ctx.minimize = Some(Box::new(|f: &Failure| {
            let steps: Vec<Step> = f.artefact["steps"].as_array()?.iter().map(step_from_json).collect();
            let sig = f.sig.clone();
            let fails = |s: &[Step]| -> Option<(String, String)> {
                let mut st = RunStats { checks: 0, checks_with_errors: 0, checks_with_sierra: 0 };
                match run_history(s, &mut st) {
                    Err((g, w)) if g == sig => Some((g, w)),
                    _ => None,
                }
            };
            // Only the last step needs a check point; earlier steps may go.
            let mut cur = steps.clone();
            for s in cur.iter_mut() {
                s.check = false;
            }
            if let Some(l) = cur.last_mut() {
                l.check = true;
            }
            if fails(&cur).is_none() {
                cur = steps.clone();
            }
            let last = cur.pop()?;
            let min = crate::core::shrink::ddmin_list(
                &cur,
                |s| {
                    let mut v = s.to_vec();
                    v.push(last.clone());
                    fails(&v).is_some()
                },
                60,
            );
            let mut v = min;
            v.push(last);
            let (g, w) = fails(&v)?;
            Some(Failure { sig: g, what: w, artefact: artefact(&v) })
        }));
        ctx.run_shards(1600, cases, |cc: &mut CaseCtx<'_>, ch: &mut Choices| {
            let steps = gen_history(ch, tier);
            let a = artefact(&steps);
            cc.start(|| a.clone());
            let mut st = RunStats { checks: 0, checks_with_errors: 0, checks_with_sierra: 0 };
            let r = run_history(&steps, &mut st);
            let s = cc.stats();
            s.evals(st.checks);
            s.add("check_points", st.checks);
            s.add("check_points_on_erroneous_contents", st.checks_with_errors);
            s.add("check_points_with_sierra", st.checks_with_sierra);
            s.count("histories");
            s.add("edits", steps.len() as u64 - 1);
            for stp in &steps {
                let mut w = stp.op.split(|c: char| c == ' ' || c == '(');
                let first = w.next().unwrap_or("");
                let k = if matches!(first, "trivia" | "override" | "syntax" | "no-op" | "initial") { format!("{first} {}", w.next().unwrap_or("")) } else { first.to_string() };
                s.count(&format!("op:{k}"));
            }
            let broke = steps.iter().position(|x| x.op.starts_with("syntax broken"));
            let repaired = steps.iter().rposition(|x| x.op.starts_with("repaired"));
            let nontrivial = matches!((broke, repaired), (Some(b), Some(r)) if r > b) || st.checks_with_errors > 0;
            if nontrivial {
                s.nontrivial(hash_str(&a.to_string()));
            }
            if matches!((broke, repaired), (Some(b), Some(r)) if r > b) {
                s.count("histories_with_break_then_repair");
            }
            s.sample(1, || json!({"ops": steps.iter().map(|x| format!("{} [{:?}{}]", x.op, x.query, if x.check { ", checked" } else { "" })).collect::<Vec<_>>()}));
            match r {
                Ok(()) => Verdict::Pass,
                Err((sig, what)) => Verdict::fail(sig, what, a),
            }
        });
    }
    fn replay(&self, a: &Value) -> Verdict {
        let Some(arr) = a["steps"].as_array() else { return Verdict::Skip("no steps") };
        let steps: Vec<Step> = arr.iter().map(step_from_json).collect();
        let mut st = RunStats { checks: 0, checks_with_errors: 0, checks_with_sierra: 0 };
        match run_history(&steps, &mut st) {
            Ok(()) => Verdict::Pass,
            Err((sig, what)) => Verdict::fail(sig, what, a.clone()),
        }
    }
    fn health(&self, _tier: Tier, agg: &Agg) -> Result<(), String> {
        if agg.class("check_points_with_sierra") * 5 < agg.class("check_points") {
            return Err("fewer than a fifth of the check points were on error-free contents (Sierra compared)".into());
        }
        if agg.class("check_points_on_erroneous_contents") * 5 < agg.class("check_points") {
            return Err("fewer than a fifth of the check points were on erroneous contents".into());
        }
        Ok(())
    }
}
