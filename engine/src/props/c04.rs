//! C04 — gas charged covers the trace.

use serde_json::{Value, json};

use crate::core::cairo::Plugins;
use crate::core::choices::{Choices, hash_str};
use crate::core::driver::{Agg, CaseCtx, Prop, Tier, Verdict, WorkerCtx};
use crate::core::exec::{FrontCfg, MetaCfg};
use crate::oracle::trace;
use crate::props::execs;

pub struct C04;

impl Prop for C04 {
    fn id(&self) -> &'static str {
        "C04"
    }
    fn rule(&self) -> String {
        "Same execution sources as C02 (generated programs, e2e snippets, examples) plus builtin-loop programs (gens/builtin_loops: Pedersen / Poseidon / Bitwise / EcOp / circuit AddMod-MulMod / Blake2s / dictionary / wide arithmetic operations inside while loops, recursion, one- and two-armed conditionals, early exits and non-inlined helpers), restricted to functions \
         that take the gas builtin and runs with an explicit budget; every run (honest budget 10^12 and 4 \
         swept budgets between the entry cost and 1.5x the consumption, so that withdraw_gas fails at \
         different points) is judged by `100*steps + 70*rc + 56*rc96 + sum price(b)*uses(b) <= (g - gas_left) \
         + 100`, with steps counted from the relocated trace outside the entry-code header, under both gas \
         solvers. Non-trivial = steps >= 20 and the run used >= 1 builtin instance or ended out of gas; \
         distinct = hash(source, function, arguments, gas)."
            .into()
    }
    fn assumptions(&self) -> Vec<String> {
        vec![
            "prices: step 100, range check 70, range check 96 56, other builtins as token_gas_cost(); memory holes are not priced here (weaker, never a false alarm)".into(),
            "syscall gas is deducted by the emulated OS and has no VM steps (safe direction)".into(),
            "a solver that returns Err produced no metadata: skipped and counted".into(),
        ]
    }
    fn worker(&self, ctx: &mut WorkerCtx) {
        let snippets = execs::load_snippets();
        let cases = ctx.tier.pick(40, 500);
        let mut db = FrontCfg::default_cfg().new_db(Plugins::Default);
        let mut n = 0u64;
        ctx.shrink_iters = 150;
        ctx.run_shards(1300, cases, |cc: &mut CaseCtx<'_>, ch: &mut Choices| {
            n += 1;
            if n % 60 == 0 {
                db = FrontCfg::default_cfg().new_db(Plugins::Default);
            }
            let cfg = if ch.bool() { FrontCfg::default_cfg() } else { FrontCfg::generate(ch) };
            let solver_choice = ch.below(6);
            let sweep_seed: Vec<u32> = (0..40).map(|_| ch.next()).collect();
            let case = execs::pick_case_bl(ch, &snippets, 8, 5, 3);
            let meta = if case.source.len() < 2500 && solver_choice % 2 == 0 { MetaCfg { linear_gas: false, linear_ap: true } } else { MetaCfg::linear() };
            let src_hash = hash_str(&case.source);
            if case.origin.starts_with("builtin-loops") {
                cc.stats().count("builtin_loop_programs");
                if case.origin.contains("circuit") {
                    cc.stats().count("builtin_loop_programs_with_circuit");
                }
            }
            let mut sampled = false;
            execs::drive(cc, &mut Choices::new(sweep_seed.clone()), &mut db, &case, &cfg, meta, 4, &mut |cc, _c, f, args, gas, r| {
                let (Ok(e), Some(g)) = (r, gas) else { return None };
                match trace::check_gas(e, g) {
                    None => {
                        cc.stats().count("no_gas_counter");
                        None
                    }
                    Some(Ok(rep)) => {
                        let st = cc.stats();
                        st.count("gas_checked");
                        if !meta.linear_gas {
                            st.count("gas_checked_nonlinear_solver");
                        }
                        if rep.slack == 0 {
                            st.count("slack_zero(tight)");
                        } else if rep.slack <= 200 {
                            st.count("slack_le_200");
                        }
                        let builtins: usize = e.resources.builtin_instance_counter.values().sum();
                        let oog = matches!(&e.value, cairo_lang_runner::RunResultValue::Panic(d) if d.first().map(|x| x.to_bigint() == crate::oracle::eval::short_string("Out of gas")).unwrap_or(false));
                        if oog {
                            st.count("out_of_gas_runs");
                        }
                        if rep.steps >= 20 && (builtins > 0 || oog) {
                            st.nontrivial(src_hash ^ hash_str(&format!("{:?}{:?}{g}", f.id, crate::gens::sierra_args::args_to_json(args))));
                        }
                        if !sampled {
                            sampled = true;
                            st.sample(1, || json!({"case": execs::describe(&case, f, args), "gas": g, "steps": rep.steps, "trace_cost": rep.cost, "charged": rep.charged}));
                        }
                        None
                    }
                    Some(Err((_rep, msg))) => Some(("gas-undercharged".to_string(), msg)),
                }
            })
        });
    }
    fn replay(&self, artefact: &Value) -> Verdict {
        match execs::from_artefact(artefact) {
            Ok((c, f, args, Some(g))) => match execs::run(&c, &f, &args, Some(g)) {
                Ok(e) => match trace::check_gas(&e, g) {
                    Some(Err((_r, msg))) => Verdict::fail("gas-undercharged", msg, json!({})),
                    _ => Verdict::Pass,
                },
                _ => Verdict::Pass,
            },
            _ => Verdict::Skip("artefact does not compile"),
        }
    }
    fn health(&self, _tier: Tier, agg: &Agg) -> Result<(), String> {
        if agg.class("gas_checked") < 200 {
            return Err("fewer than 200 runs had a gas counter".into());
        }
        if agg.class("out_of_gas_runs") == 0 {
            return Err("no out-of-gas run was produced by the sweeps".into());
        }
        Ok(())
    }
}
