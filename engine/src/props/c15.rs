//! C15 — Sierra acceptance implies well-typedness and exact-once use of every value.

use serde_json::{Value, json};

use crate::core::choices::{Choices, hash_str};
use crate::core::driver::{Agg, CaseCtx, Failure, Prop, Tier, Verdict, WorkerCtx, truncate};
use crate::core::sierra::{self, Stage};
use crate::gens::sierramut::{self, Mut};
use crate::oracle::sierra_check;
use crate::props::c14;

pub struct C15;

fn near_miss(m: &Mut) -> bool {
    matches!(
        m,
        Mut::DelStmt(_) | Mut::DupStmt(_) | Mut::SwapStmt(_) | Mut::SetLibfunc(..) | Mut::SwapArgs(..) | Mut::SetArg(..)
            | Mut::DupArg(..) | Mut::SetResult(..) | Mut::Retarget(..) | Mut::DupBranch(..) | Mut::SetRet(..) | Mut::DelRet(..)
            | Mut::AddRet(..) | Mut::TypeInfoFlip(..) | Mut::TypeArg(..) | Mut::LibfuncArg(..) | Mut::FuncParamType(..) | Mut::FuncRetType(..)
            | Mut::FuncEntry(..) | Mut::FuncDupParamId(..) | Mut::SwapType(_) | Mut::DupFunc(_) | Mut::FuncDelRet(..) | Mut::FuncAddRet(..)
            | Mut::FuncDelParam(..) | Mut::DelArg(..) | Mut::DelResult(..) | Mut::AddResult(..) | Mut::DelBranch(..)
    )
}

/// Ok(Some(accepted)) / Ok(None) if a stage panicked (C14's business) / Err(violation).
pub fn judge(p: &cairo_lang_sierra::program::Program) -> Result<Option<bool>, (String, String)> {
    let Ok(r) = sierra::pipeline(p, false) else { return Ok(None) };
    let accepted = r.with_gas == Stage::Accepted || r.no_gas == Stage::Accepted;
    if !accepted {
        return Ok(Some(false));
    }
    let info = r.info.as_ref().unwrap();
    match crate::core::panics::catch(|| sierra_check::check_program(p, &info.registry)) {
        Ok(Ok(_)) => Ok(Some(true)),
        Ok(Err(e)) => Err((format!("accepted-but-ill-formed:{}", e.rule), format!("the compiler accepts the program (with gas: {:?}, without: {:?}) but the independent checker rejects it: {} — {}", r.with_gas, r.no_gas, e.rule, e.detail))),
        Err(p) => Err((format!("checker-panic@{}", p.loc), p.msg)),
    }
}

impl Prop for C15 {
    fn id(&self) -> &'static str {
        "C15"
    }
    fn skip_crashes(&self) -> bool {
        true
    }
    fn rule(&self) -> String {
        "Population: (a) every Sierra program of the corpus that the pipeline accepts (control: the checker must \
         accept all of them, else the run is inconclusive), (b) their single-point near-miss mutants (argument / \
         result / return variable replaced by another variable, swapped or duplicated arguments, deleted / \
         duplicated / swapped statements (drops, dups, store_temps ...), same-program libfunc swaps, branch \
         retargets, type-info flag flips, generic-argument edits, signature edits) and (c) seeded multi-point \
         mutants. Every mutant the pipeline ACCEPTS (with gas metadata or ap-change-only) is judged by an \
         independent worklist data-flow checker over the libfunc signatures: argument types, exact-once use, no \
         overwrite of live variables, branch arity, multi-branch targets on branch_align, equal live sets and \
         types at merges, return types with nothing left over, dup/drop only on types my own property table \
         allows. Violation = accepted and checker rejects. Non-trivial = an accepted mutant that differs from its \
         origin; distinct = hash(origin, mutations)."
            .into()
    }
    fn assumptions(&self) -> Vec<String> {
        vec![
            "libfunc signatures (parameter and result types per branch) come from the program registry; the checker does not model reference expressions, ap tracking or gas".into(),
            "dup/drop legality uses an own table for resource types; unknown types are treated permissively".into(),
        ]
    }
    fn worker(&self, ctx: &mut WorkerCtx) {
        let tier = ctx.tier;
        let corpus = sierra::load_corpus(tier.pick(400, 3000));
        let n_shards = ctx.n_shards;
        let shards = ctx.shards.clone();
        let thin = tier.pick(2usize, 1);
        // Control population.
        if shards.contains(&0) {
            for item in &corpus {
                match judge(&item.program) {
                    Ok(Some(true)) => ctx.stats.count("control_programs_accepted_and_clean"),
                    Ok(_) => ctx.stats.count("control_programs_not_accepted"),
                    Err((sig, what)) => {
                        ctx.inconclusive(&format!("the checker rejects an unmutated corpus program ({}): {sig}: {}", item.origin, truncate(&what, 300)));
                        return;
                    }
                }
            }
        }
        let mut global: u64 = 0;
        let mut reported = std::collections::BTreeSet::new();
        for item in &corpus {
            for m in sierramut::enumerate(&item.program, thin) {
                if !near_miss(&m) {
                    continue;
                }
                let shard = global % n_shards;
                global += 1;
                if !shards.contains(&shard) {
                    continue;
                }
                let idx = global / n_shards;
                if ctx.skip.contains(&(shard, idx)) || !ctx.in_only_range(shard, idx) {
                    continue;
                }
                ctx.start_case(shard, idx, || c14::artefact(item, &[m.clone()]));
                let q = sierramut::apply(&item.program, &m);
                if q == item.program {
                    continue;
                }
                if c14::has_gate_cycle(&q) {
                    ctx.stats.count("excluded:circuit-gate-type-cycle(C14 known finding)");
                    continue;
                }
                ctx.stats.eval();
                match judge(&q) {
                    Ok(Some(true)) => {
                        ctx.stats.count("accepted_mutants_checked");
                        ctx.stats.count(&format!("accepted:{}", sierramut::kind_name(&m)));
                        ctx.stats.nontrivial(hash_str(&format!("{}{:?}", item.origin, m)));
                        ctx.stats.sample(1, || json!({"origin": item.origin, "mutation": sierramut::to_json(&m), "verdict": "accepted by the pipeline and by the checker"}));
                    }
                    Ok(Some(false)) => ctx.stats.count("rejected_mutants"),
                    Ok(None) => ctx.stats.count("pipeline_panicked(C14)"),
                    Err((sig, what)) => {
                        if reported.insert(sig.clone()) || ctx.known.matches("C15", &sig).is_some() {
                            let f = Failure { sig, what, artefact: c14::artefact(item, &[m.clone()]) };
                            ctx.report(&f, shard);
                        }
                    }
                }
            }
        }
        let cases = tier.pick(300, 5000);
        let corpus_ref = &corpus;
        ctx.run_shards(64, cases, |cc: &mut CaseCtx<'_>, ch: &mut Choices| {
            let item = &corpus_ref[ch.below(corpus_ref.len())];
            let k = 2 + ch.below(2);
            let mut p = item.program.clone();
            let mut muts = vec![];
            for _ in 0..k {
                let all: Vec<Mut> = sierramut::enumerate(&p, 7).into_iter().filter(near_miss).collect();
                if all.is_empty() {
                    break;
                }
                let m = all[ch.below(all.len())].clone();
                p = sierramut::apply(&p, &m);
                muts.push(m);
            }
            if c14::has_gate_cycle(&p) {
                return Verdict::Skip("known finding shape");
            }
            cc.stats().eval();
            cc.start(|| c14::artefact(item, &muts));
            match judge(&p) {
                Ok(Some(true)) => {
                    cc.stats().count("accepted_mutants_checked");
                    cc.stats().count("accepted_multi_point");
                    cc.stats().nontrivial(hash_str(&format!("{}{:?}", item.origin, muts)));
                    Verdict::Pass
                }
                Ok(_) => {
                    cc.stats().count("rejected_mutants");
                    Verdict::Pass
                }
                Err((sig, what)) => Verdict::fail(sig, what, c14::artefact(item, &muts)),
            }
        });
    }
    fn replay(&self, artefact: &Value) -> Verdict {
        let Some(p) = c14::rebuild(artefact) else { return Verdict::Skip("origin does not parse") };
        match judge(&p) {
            Ok(_) => Verdict::Pass,
            Err((sig, what)) => Verdict::fail(sig, what, artefact.clone()),
        }
    }
    fn health(&self, _tier: Tier, agg: &Agg) -> Result<(), String> {
        if agg.class("control_programs_accepted_and_clean") < 50 {
            return Err("fewer than 50 control programs".into());
        }
        if agg.class("accepted_mutants_checked") < 100 {
            return Err("fewer than 100 accepted mutants reached the checker".into());
        }
        Ok(())
    }
}
