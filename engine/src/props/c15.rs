//! C15 — Sierra acceptance implies well-typedness and exact-once use of every value.

use serde_json::{Value, json};

use crate::core::choices::{Choices, hash_str};
use crate::core::driver::{Agg, CaseCtx, Failure, Prop, Tier, Verdict, WorkerCtx, truncate};
use crate::core::sierra::{self, Stage};
use crate::gens::sierramut::{self, Mut};
use crate::oracle::sierra_check;
use crate::props::c14;

pub struct C15;

fn near_miss(m: &Mut) -> bool {
    matches!(
        m,
        Mut::DelStmt(_) | Mut::DupStmt(_) | Mut::SwapStmt(_) | Mut::SetLibfunc(..) | Mut::SwapArgs(..) | Mut::SetArg(..)
            | Mut::DupArg(..) | Mut::SetResult(..) | Mut::Retarget(..) | Mut::DupBranch(..) | Mut::SetRet(..) | Mut::DelRet(..)
            | Mut::AddRet(..) | Mut::TypeInfoFlip(..) | Mut::TypeArg(..) | Mut::LibfuncArg(..) | Mut::FuncParamType(..) | Mut::FuncRetType(..)
            | Mut::FuncEntry(..) | Mut::FuncDupParamId(..) | Mut::SwapType(_) | Mut::DupFunc(_) | Mut::FuncDelRet(..) | Mut::FuncAddRet(..)
            | Mut::FuncDelParam(..) | Mut::DelArg(..) | Mut::DelResult(..) | Mut::AddResult(..) | Mut::DelBranch(..)
    )
}

/// Ok(Some(accepted)) / Ok(None) if a stage panicked (C14's business) / Err(violation).
pub fn judge(p: &cairo_lang_sierra::program::Program) -> Result<Option<bool>, (String, String)> {
    let Ok(r) = sierra::pipeline(p, false) else { return Ok(None) };
    let accepted = r.with_gas == Stage::Accepted || r.no_gas == Stage::Accepted;
    if !accepted {
        return Ok(Some(false));
    }
    let info = r.info.as_ref().unwrap();
    match crate::core::panics::catch(|| sierra_check::check_program(p, &info.registry)) {
        Ok(Ok(_)) => Ok(Some(true)),
        Ok(Err(e)) => Err((format!("accepted-but-ill-formed:{}", e.rule), format!("the compiler accepts the program (with gas: {:?}, without: {:?}) but the independent checker rejects it: {} — {}", r.with_gas, r.no_gas, e.rule, e.detail))),
        Err(p) => Err((format!("checker-panic@{}", p.loc), p.msg)),
    }
}

/// A generated "diamond": a branch on a felt252, two arms built from a small set of operations on
/// array (not duplicatable) and felt252 variables, a merge, and a tail that stores and returns a
/// chosen set of variables. Arms are generated independently, so their live sets agree only
/// sometimes; whenever the compiler accepts a diamond, the independent checker must too.
pub fn gen_diamond(ch: &mut Choices) -> String {
    const ARR: &str = "Array<felt252>";
    // Variables: 0 cond, 1-2 arrays (parameters), 3 felt252 (parameter); new ones get 10..13.
    fn arm(ch: &mut Choices, out: &mut Vec<String>) -> std::collections::BTreeMap<u32, bool> {
        // id -> is_array, for what is live at the end of the arm.
        let mut live: std::collections::BTreeMap<u32, bool> = [(1, true), (2, true), (3, false)].into_iter().collect();
        let n = ch.below(4);
        for _ in 0..n {
            let fresh = 10 + ch.below(3) as u32;
            let arrays: Vec<u32> = live.iter().filter(|(_, a)| **a).map(|(k, _)| *k).collect();
            match ch.below(6) {
                0 if !live.contains_key(&fresh) => {
                    out.push(format!("array_new<felt252>() -> ([{fresh}]);"));
                    out.push(format!("store_temp<{ARR}>([{fresh}]) -> ([{fresh}]);"));
                    live.insert(fresh, true);
                }
                1 if !arrays.is_empty() && !live.contains_key(&fresh) => {
                    let x = arrays[ch.below(arrays.len())];
                    out.push(format!("store_temp<{ARR}>([{x}]) -> ([{fresh}]);"));
                    live.remove(&x);
                    live.insert(fresh, true);
                }
                2 if !arrays.is_empty() => {
                    let x = arrays[ch.below(arrays.len())];
                    out.push(format!("drop<{ARR}>([{x}]) -> ();"));
                    live.remove(&x);
                }
                3 if live.contains_key(&3) && !live.contains_key(&fresh) => {
                    out.push(format!("dup<felt252>([3]) -> ([3], [{fresh}]);"));
                    out.push(format!("store_temp<felt252>([{fresh}]) -> ([{fresh}]);"));
                    live.insert(fresh, false);
                }
                4 if live.contains_key(&3) => {
                    out.push("drop<felt252>([3]) -> ();".to_string());
                    live.remove(&3);
                }
                _ => {}
            }
        }
        live
    }
    let mut a1 = vec![];
    let l1 = arm(ch, &mut a1);
    let mut a2 = vec![];
    let l2 = arm(ch, &mut a2);
    // The tail uses a subset of the union of what the arms leave.
    let mut union: std::collections::BTreeMap<u32, bool> = l1.clone();
    union.extend(l2.iter().map(|(k, v)| (*k, *v)));
    let used: Vec<(u32, bool)> = union.iter().filter(|_| ch.chance(3, 4)).map(|(k, v)| (*k, *v)).collect();
    let mut body = vec!["felt252_is_zero([0]) { fallthrough() ARM2([9]) };".to_string(), "branch_align() -> ();".to_string()];
    body.extend(a1);
    body.push("jump() { MERGE() };".to_string());
    let arm2_at = body.len();
    body.push("branch_align() -> ();".to_string());
    body.push("drop<NonZero<felt252>>([9]) -> ();".to_string());
    body.extend(a2);
    let merge_at = body.len();
    // Everything live and unused is dropped (by the first arm's view), the rest is stored and returned.
    for (k, is_arr) in &union {
        if !used.iter().any(|(u, _)| u == k) {
            body.push(format!("drop<{}>([{k}]) -> ();", if *is_arr { ARR } else { "felt252" }));
        }
    }
    for (k, is_arr) in &used {
        body.push(format!("store_temp<{}>([{k}]) -> ([{k}]);", if *is_arr { ARR } else { "felt252" }));
    }
    body.push(format!("return({});", used.iter().map(|(k, _)| format!("[{k}]")).collect::<Vec<_>>().join(", ")));
    let text: String = body.join("\n").replace("ARM2", &arm2_at.to_string()).replace("MERGE", &merge_at.to_string());
    let rets: Vec<&str> = used.iter().map(|(_, a)| if *a { ARR } else { "felt252" }).collect();
    format!(
        "type felt252 = felt252;\ntype {ARR} = {ARR};\ntype NonZero<felt252> = NonZero<felt252>;\n\nlibfunc felt252_is_zero = felt252_is_zero;\nlibfunc branch_align = branch_align;\nlibfunc jump = jump;\nlibfunc drop<NonZero<felt252>> = drop<NonZero<felt252>>;\nlibfunc drop<felt252> = drop<felt252>;\nlibfunc drop<{ARR}> = drop<{ARR}>;\nlibfunc dup<felt252> = dup<felt252>;\nlibfunc array_new<felt252> = array_new<felt252>;\nlibfunc store_temp<{ARR}> = store_temp<{ARR}>;\nlibfunc store_temp<felt252> = store_temp<felt252>;\n\n{text}\n\nd::f@0([0]: felt252, [1]: {ARR}, [2]: {ARR}, [3]: felt252) -> ({});\n",
        rets.join(", ")
    )
}

impl Prop for C15 {
    fn id(&self) -> &'static str {
        "C15"
    }
    fn skip_crashes(&self) -> bool {
        true
    }
    fn rule(&self) -> String {
        "Population: (a) every Sierra program of the corpus that the pipeline accepts (control: the checker must \
         accept all of them, else the run is inconclusive), (b) their single-point near-miss mutants (argument / \
         result / return variable replaced by another variable, swapped or duplicated arguments, deleted / \
         duplicated / swapped statements (drops, dups, store_temps ...), same-program libfunc swaps, branch \
         retargets, type-info flag flips, generic-argument edits, signature edits) and (c) seeded multi-point \
         mutants. Every mutant the pipeline ACCEPTS (with gas metadata or ap-change-only) is judged by an \
         independent worklist data-flow checker over the libfunc signatures: argument types, exact-once use, no \
         overwrite of live variables, branch arity, multi-branch targets on branch_align, equal live sets and \
         types at merges, return types with nothing left over, dup/drop only on types my own property table \
         allows. Half of the proptest cases are generated diamonds: a branch on a felt252, two independently generated arms over array (not duplicatable) and felt252 variables (new, move into a new name, drop, dup), a merge and a tail that stores and returns a subset of the variables. Violation = accepted and checker rejects. Non-trivial = an accepted mutant that differs from its \
         origin; distinct = hash(origin, mutations)."
            .into()
    }
    fn assumptions(&self) -> Vec<String> {
        vec![
            "libfunc signatures (parameter and result types per branch) come from the program registry; the checker does not model reference expressions, ap tracking or gas".into(),
            "dup/drop legality uses an own table for resource types; unknown types are treated permissively".into(),
        ]
    }
    fn worker(&self, ctx: &mut WorkerCtx) {
        let tier = ctx.tier;
        let corpus = sierra::load_corpus(tier.pick(400, 3000));
        let n_shards = ctx.n_shards;
        let shards = ctx.shards.clone();
        let thin = tier.pick(2usize, 1);
        // Control population.
        if shards.contains(&0) {
            for item in &corpus {
                match judge(&item.program) {
                    Ok(Some(true)) => ctx.stats.count("control_programs_accepted_and_clean"),
                    Ok(_) => ctx.stats.count("control_programs_not_accepted"),
                    Err((sig, what)) => {
                        ctx.inconclusive(&format!("the checker rejects an unmutated corpus program ({}): {sig}: {}", item.origin, truncate(&what, 300)));
                        return;
                    }
                }
            }
        }
        let mut global: u64 = 0;
        let mut reported = std::collections::BTreeSet::new();
        for item in &corpus {
            for m in sierramut::enumerate(&item.program, thin) {
                if !near_miss(&m) {
                    continue;
                }
                let shard = global % n_shards;
                global += 1;
                if !shards.contains(&shard) {
                    continue;
                }
                let idx = global / n_shards;
                if ctx.skip.contains(&(shard, idx)) || !ctx.in_only_range(shard, idx) {
                    continue;
                }
                ctx.start_case(shard, idx, || c14::artefact(item, &[m.clone()]));
                let q = sierramut::apply(&item.program, &m);
                if q == item.program {
                    continue;
                }
                if c14::has_gate_cycle(&q) {
                    ctx.stats.count("excluded:circuit-gate-type-cycle(C14 known finding)");
                    continue;
                }
                ctx.stats.eval();
                match judge(&q) {
                    Ok(Some(true)) => {
                        ctx.stats.count("accepted_mutants_checked");
                        ctx.stats.count(&format!("accepted:{}", sierramut::kind_name(&m)));
                        ctx.stats.nontrivial(hash_str(&format!("{}{:?}", item.origin, m)));
                        ctx.stats.sample(1, || json!({"origin": item.origin, "mutation": sierramut::to_json(&m), "verdict": "accepted by the pipeline and by the checker"}));
                    }
                    Ok(Some(false)) => ctx.stats.count("rejected_mutants"),
                    Ok(None) => ctx.stats.count("pipeline_panicked(C14)"),
                    Err((sig, what)) => {
                        if reported.insert(sig.clone()) || ctx.known.matches("C15", &sig).is_some() {
                            let f = Failure { sig, what, artefact: c14::artefact(item, &[m.clone()]) };
                            ctx.report(&f, shard);
                        }
                    }
                }
            }
        }
        let cases = tier.pick(300, 5000);
        let corpus_ref = &corpus;
        ctx.run_shards(64, cases, |cc: &mut CaseCtx<'_>, ch: &mut Choices| {
            if ch.chance(1, 2) {
                // Generated diamond (independent arms, a merge, a tail using a subset of the variables).
                let text = gen_diamond(ch);
                let art = json!({"origin": "generated diamond", "sierra": text, "mutations": []});
                cc.start(|| art.clone());
                let Some(p) = sierra::parse(&text) else {
                    cc.stats().count("diamonds_unparsable");
                    return Verdict::Skip("unparsable");
                };
                cc.stats().eval();
                return match judge(&p) {
                    Ok(Some(true)) => {
                        cc.stats().count("diamonds_accepted_and_well_formed");
                        cc.stats().nontrivial(hash_str(&text));
                        Verdict::Pass
                    }
                    Ok(_) => {
                        cc.stats().count("diamonds_rejected");
                        Verdict::Pass
                    }
                    Err((sig, what)) => Verdict::fail(sig, what, art),
                };
            }
            let item = &corpus_ref[ch.below(corpus_ref.len())];
            let k = 2 + ch.below(2);
            let mut p = item.program.clone();
            let mut muts = vec![];
            for _ in 0..k {
                let all: Vec<Mut> = sierramut::enumerate(&p, 7).into_iter().filter(near_miss).collect();
                if all.is_empty() {
                    break;
                }
                let m = all[ch.below(all.len())].clone();
                p = sierramut::apply(&p, &m);
                muts.push(m);
            }
            if c14::has_gate_cycle(&p) {
                return Verdict::Skip("known finding shape");
            }
            cc.stats().eval();
            cc.start(|| c14::artefact(item, &muts));
            match judge(&p) {
                Ok(Some(true)) => {
                    cc.stats().count("accepted_mutants_checked");
                    cc.stats().count("accepted_multi_point");
                    cc.stats().nontrivial(hash_str(&format!("{}{:?}", item.origin, muts)));
                    Verdict::Pass
                }
                Ok(_) => {
                    cc.stats().count("rejected_mutants");
                    Verdict::Pass
                }
                Err((sig, what)) => Verdict::fail(sig, what, c14::artefact(item, &muts)),
            }
        });
    }
    fn replay(&self, artefact: &Value) -> Verdict {
        let Some(p) = c14::rebuild(artefact) else { return Verdict::Skip("origin does not parse") };
        match judge(&p) {
            Ok(_) => Verdict::Pass,
            Err((sig, what)) => Verdict::fail(sig, what, artefact.clone()),
        }
    }
    fn health(&self, _tier: Tier, agg: &Agg) -> Result<(), String> {
        if agg.class("control_programs_accepted_and_clean") < 50 {
            return Err("fewer than 50 control programs".into());
        }
        if agg.class("accepted_mutants_checked") < 100 {
            return Err("fewer than 100 accepted mutants reached the checker".into());
        }
        Ok(())
    }
}
