//! C06 — primitive integer / felt252 operations are exact on every operand.
//!
//! One generated crate per type; panicking operator forms are separate functions, the
//! non-panicking variants are batched into one function whose results leave through Serde.
//! The oracle is a BigInt model of each operation.

use std::collections::BTreeMap;

use cairo_lang_runner::{Arg, RunResultValue};
use num_bigint::BigInt;
use num_integer::Integer;
use num_traits::{One, Signed, Zero};
use serde_json::{Value, json};

use crate::core::cairo::Plugins;
use crate::core::choices::{SplitMix, derive_seed, hash_str};
use crate::core::driver::{Agg, Failure, Prop, Tier, Verdict, WorkerCtx};
use crate::core::exec::{self, Compiled, FrontCfg, MetaCfg};
use crate::gens::prog::{Ty, prime};
use crate::oracle::eval::{self, Outcome, short_string};

pub struct C06;

pub const TYPES: &[Ty] = &[
    Ty::U(8), Ty::I(8), Ty::U(16), Ty::I(16), Ty::U(32), Ty::I(32), Ty::U(64), Ty::I(64), Ty::U(128), Ty::I(128), Ty::U256, Ty::Felt,
];

fn tn(t: &Ty) -> String {
    match t {
        Ty::U(b) => format!("u{b}"),
        Ty::I(b) => format!("i{b}"),
        Ty::U256 => "u256".into(),
        _ => "felt252".into(),
    }
}

fn wide(t: &Ty) -> Option<Ty> {
    match t {
        Ty::U(128) => Some(Ty::U256),
        Ty::U(b) => Some(Ty::U(b * 2)),
        Ty::I(b) if *b < 128 => Some(Ty::I(b * 2)),
        _ => None,
    }
}
fn wide_name(t: &Ty) -> String {
    if *t == Ty::U256 { "core::integer::u512".into() } else { tn(&wide(t).unwrap()) }
}
/// Serialises a widened result: the wide integer type, or the four limbs of a u512.
fn ser_wide(t: &Ty, v: &BigInt, out: &mut Vec<BigInt>) {
    if *t == Ty::U256 {
        let mask = (BigInt::one() << 128u32) - BigInt::one();
        for k in 0..4u32 {
            out.push((v >> (128 * k)) & mask.clone());
        }
    } else {
        ser_int(&wide(t).unwrap(), v, out);
    }
}
fn sqrt_ty(t: &Ty) -> Option<Ty> {
    match t {
        Ty::U(8) => Some(Ty::U(8)),
        Ty::U(b) => Some(Ty::U(b / 2)),
        Ty::U256 => Some(Ty::U(128)),
        _ => None,
    }
}

const CAST_TARGETS: &[Ty] = &[Ty::U(8), Ty::U(16), Ty::U(32), Ty::U(64), Ty::U(128), Ty::I(8), Ty::I(16), Ty::I(32), Ty::I(64), Ty::I(128)];

fn cast_targets(t: &Ty) -> Vec<Ty> {
    match t {
        Ty::U256 => vec![Ty::U(8), Ty::U(16), Ty::U(32), Ty::U(64), Ty::U(128), Ty::Felt],
        Ty::Felt => {
            let mut v = CAST_TARGETS.to_vec();
            v.push(Ty::U256);
            v
        }
        _ => {
            let mut v: Vec<Ty> = CAST_TARGETS.iter().filter(|x| *x != t).cloned().collect();
            v.push(Ty::Felt);
            v
        }
    }
}

/// The operations of the batch function for a type, in output order.
#[derive(Clone, Debug, PartialEq)]
pub enum BOp {
    Ovf(&'static str),   // overflowing_add/sub/mul -> (T, bool)
    Wrap(&'static str),
    Chk(&'static str),   // -> Option<T>
    Sat(&'static str),
    Cmp(&'static str),
    Bit(&'static str),
    Not,
    Sqrt,
    WideMul,
    WideSquare,
    /// u256 only, guarded by y != 0: core::math::{u256_mul_mod_n, u256_inv_mod, u256_div_mod_n} and
    /// core::integer::u512_safe_div_rem_by_u256 on x * (x ^ y).
    MulModN,
    InvModN,
    DivModN,
    U512DivRem,
    /// u128 only.
    ByteReverse,
    DivRem, // guarded by y != 0 -> Option<(T, T)>
    Cast(Ty), // x.try_into() -> Option
    FeltDiv,  // guarded
}

pub fn batch_ops(t: &Ty) -> Vec<BOp> {
    let mut v = vec![];
    match t {
        Ty::Felt => {
            v.push(BOp::Cmp("=="));
            v.push(BOp::Cmp("!="));
            v.push(BOp::FeltDiv);
        }
        _ => {
            let muls = !t.is_signed();
            for k in ["add", "sub", "mul"] {
                if k == "mul" && !muls {
                    continue;
                }
                v.push(BOp::Ovf(k));
                v.push(BOp::Wrap(k));
                v.push(BOp::Chk(k));
                v.push(BOp::Sat(k));
            }
            for c in ["<", "<=", ">", ">=", "==", "!="] {
                v.push(BOp::Cmp(c));
            }
            if !t.is_signed() {
                for b in ["&", "|", "^"] {
                    v.push(BOp::Bit(b));
                }
                if *t != Ty::U256 {
                    v.push(BOp::Not);
                }
                v.push(BOp::Sqrt);
                v.push(BOp::DivRem);
            }
            if wide(t).is_some() || *t == Ty::U256 {
                v.push(BOp::WideMul);
                v.push(BOp::WideSquare);
            }
            if *t == Ty::U256 {
                v.extend([BOp::MulModN, BOp::InvModN, BOp::DivModN, BOp::U512DivRem]);
            }
            if *t == Ty::U(128) {
                v.push(BOp::ByteReverse);
            }
        }
    }
    for c in cast_targets(t) {
        v.push(BOp::Cast(c));
    }
    v
}

pub fn panicking_ops(t: &Ty) -> Vec<&'static str> {
    match t {
        Ty::Felt => vec!["add", "sub", "mul"],
        Ty::I(_) => vec!["add", "sub", "mul", "div", "rem", "neg"],
        _ => vec!["add", "sub", "mul", "div", "rem"],
    }
}

pub fn source(t: &Ty) -> String {
    let n = tn(t);
    let mut s = String::new();
    s.push_str("use core::num::traits::{OverflowingAdd, OverflowingSub, OverflowingMul, WrappingAdd, WrappingSub, WrappingMul, CheckedAdd, CheckedSub, CheckedMul, SaturatingAdd, SaturatingSub, SaturatingMul, Sqrt, WideMul, WideSquare};\n");
    s.push_str("use core::traits::{Into, TryInto, DivRem};\nuse core::option::OptionTrait;\n");
    for op in panicking_ops(t) {
        let body = match op {
            "add" => "x + y",
            "sub" => "x - y",
            "mul" => "x * y",
            "div" => "x / y",
            "rem" => "x % y",
            _ => "-x",
        };
        s.push_str(&format!("fn op_{op}(x: {n}, y: {n}) -> {n} {{ let _ = y; {body} }}\n"));
    }
    s.push_str(&format!("fn batch(x: {n}, y: {n}) -> Array<felt252> {{\n    let mut o: Array<felt252> = array![];\n"));
    for (i, op) in batch_ops(t).iter().enumerate() {
        let e = match op {
            BOp::Ovf(k) => format!("let r{i}: ({n}, bool) = x.overflowing_{k}(y);"),
            BOp::Wrap(k) => format!("let r{i}: {n} = x.wrapping_{k}(y);"),
            BOp::Chk(k) => format!("let r{i}: Option<{n}> = x.checked_{k}(y);"),
            BOp::Sat(k) => format!("let r{i}: {n} = x.saturating_{k}(y);"),
            BOp::Cmp(c) => format!("let r{i}: bool = x {c} y;"),
            BOp::Bit(b) => format!("let r{i}: {n} = x {b} y;"),
            BOp::Not => format!("let r{i}: {n} = ~x;"),
            BOp::Sqrt => format!("let r{i}: {} = x.sqrt();", tn(&sqrt_ty(t).unwrap())),
            BOp::WideMul => format!("let r{i}: {} = x.wide_mul(y);", wide_name(t)),
            BOp::WideSquare => format!("let r{i}: {} = x.wide_square();", wide_name(t)),
            BOp::MulModN => format!(
                "let r{i}: Option<u256> = match TryInto::<u256, NonZero<u256>>::try_into(y) {{ Option::Some(nz) => Option::Some(core::math::u256_mul_mod_n(x, x ^ y, nz)), Option::None => Option::None }};"
            ),
            BOp::InvModN => format!(
                "let r{i}: Option<Option<u256>> = match TryInto::<u256, NonZero<u256>>::try_into(y) {{ Option::Some(nz) => Option::Some(match core::math::u256_inv_mod(x, nz) {{ Option::Some(v) => Option::Some(v.into()), Option::None => Option::None }}), Option::None => Option::None }};"
            ),
            BOp::DivModN => format!(
                "let r{i}: Option<Option<u256>> = match TryInto::<u256, NonZero<u256>>::try_into(y) {{ Option::Some(nz) => Option::Some(core::math::u256_div_mod_n(x ^ y, x, nz)), Option::None => Option::None }};"
            ),
            BOp::U512DivRem => format!(
                "let r{i}: Option<(core::integer::u512, u256)> = match TryInto::<u256, NonZero<u256>>::try_into(y) {{ Option::Some(nz) => Option::Some(core::integer::u512_safe_div_rem_by_u256(x.wide_mul(x ^ y), nz)), Option::None => Option::None }};"
            ),
            BOp::ByteReverse => format!("let r{i}: u128 = core::integer::u128_byte_reverse(x);"),
            BOp::DivRem => format!(
                "let r{i}: Option<({n}, {n})> = match TryInto::<{n}, NonZero<{n}>>::try_into(y) {{ Option::Some(nz) => Option::Some(DivRem::div_rem(x, nz)), Option::None => Option::None }};"
            ),
            BOp::Cast(c) => format!("let r{i}: Option<{}> = TryInto::<{n}, {}>::try_into(x);", tn(c), tn(c)),
            BOp::FeltDiv => format!(
                "let r{i}: Option<felt252> = match TryInto::<felt252, NonZero<felt252>>::try_into(y) {{ Option::Some(nz) => Option::Some(core::felt252_div(x, nz)), Option::None => Option::None }};"
            ),
        };
        s.push_str(&format!("    {e}\n    r{i}.serialize(ref o);\n"));
    }
    s.push_str("    o\n}\n");
    s
}

fn ser_int(t: &Ty, v: &BigInt, out: &mut Vec<BigInt>) {
    match t {
        Ty::U256 => {
            let mask = (BigInt::one() << 128) - 1;
            out.push(v & &mask);
            out.push(v >> 128);
        }
        _ => out.push(v.mod_floor(&prime())),
    }
}

fn wrap_to(t: &Ty, v: &BigInt) -> BigInt {
    let bits = match t {
        Ty::U(b) | Ty::I(b) => *b,
        Ty::U256 => 256,
        _ => unreachable!(),
    };
    let m = BigInt::one() << bits;
    let r = v.mod_floor(&m);
    if t.is_signed() && r > t.max() { r - m } else { r }
}

/// The mathematical model of the batch function.
pub fn model_batch(t: &Ty, x: &BigInt, y: &BigInt) -> Vec<BigInt> {
    model_ops(t, &batch_ops(t), x, y)
}
fn model_ops(t: &Ty, ops: &[BOp], x: &BigInt, y: &BigInt) -> Vec<BigInt> {
    let mut o = vec![];
    let (min, max) = (t.min(), t.max());
    let p = prime();
    for op in ops.iter().cloned() {
        let arith = |k: &str| -> BigInt {
            match k {
                "add" => x + y,
                "sub" => x - y,
                _ => x * y,
            }
        };
        match &op {
            BOp::Ovf(k) => {
                let r = arith(k);
                let ovf = r < min || r > max;
                ser_int(t, &wrap_to(t, &r), &mut o);
                o.push(BigInt::from(ovf as u8));
            }
            BOp::Wrap(k) => ser_int(t, &wrap_to(t, &arith(k)), &mut o),
            BOp::Chk(k) => {
                let r = arith(k);
                if r < min || r > max {
                    o.push(BigInt::one());
                } else {
                    o.push(BigInt::zero());
                    ser_int(t, &r, &mut o);
                }
            }
            BOp::Sat(k) => {
                let r = arith(k);
                let r = if r > max { max.clone() } else if r < min { min.clone() } else { r };
                ser_int(t, &r, &mut o);
            }
            BOp::Cmp(c) => {
                let b = match *c {
                    "<" => x < y,
                    "<=" => x <= y,
                    ">" => x > y,
                    ">=" => x >= y,
                    "==" => x == y,
                    _ => x != y,
                };
                o.push(BigInt::from(b as u8));
            }
            BOp::Bit(b) => {
                let (a, c) = (x.to_biguint().unwrap(), y.to_biguint().unwrap());
                let r = match *b {
                    "&" => a & c,
                    "|" => a | c,
                    _ => a ^ c,
                };
                ser_int(t, &BigInt::from(r), &mut o);
            }
            BOp::Not => ser_int(t, &(&max - x), &mut o),
            BOp::Sqrt => o.push(x.sqrt()),
            BOp::WideMul => ser_wide(t, &(x * y), &mut o),
            BOp::WideSquare => ser_wide(t, &(x * x), &mut o),
            BOp::MulModN | BOp::InvModN | BOp::DivModN | BOp::U512DivRem if y.is_zero() => o.push(BigInt::one()),
            BOp::MulModN => {
                o.push(BigInt::zero());
                let xy = x.to_biguint().unwrap() ^ y.to_biguint().unwrap();
                ser_int(t, &(x * BigInt::from(xy)).mod_floor(y), &mut o);
            }
            BOp::InvModN | BOp::DivModN => {
                // The inverse of x modulo y exists iff gcd(x, y) == 1 and y != 1.
                o.push(BigInt::zero());
                let e = x.extended_gcd(y);
                if !e.gcd.is_one() || y.is_one() {
                    o.push(BigInt::one());
                } else {
                    let inv = e.x.mod_floor(y);
                    o.push(BigInt::zero());
                    if op == BOp::InvModN {
                        ser_int(t, &inv, &mut o);
                    } else {
                        let xy = BigInt::from(x.to_biguint().unwrap() ^ y.to_biguint().unwrap());
                        ser_int(t, &(xy * inv).mod_floor(y), &mut o);
                    }
                }
            }
            BOp::U512DivRem => {
                o.push(BigInt::zero());
                let xy = BigInt::from(x.to_biguint().unwrap() ^ y.to_biguint().unwrap());
                let (q, r) = (x * xy).div_mod_floor(y);
                ser_wide(t, &q, &mut o);
                ser_int(t, &r, &mut o);
            }
            BOp::ByteReverse => {
                let mut b = x.to_biguint().unwrap().to_bytes_le();
                b.resize(16, 0);
                o.push(BigInt::from(num_bigint::BigUint::from_bytes_be(&b)));
            }
            BOp::DivRem => {
                if y.is_zero() {
                    o.push(BigInt::one());
                } else {
                    o.push(BigInt::zero());
                    ser_int(t, &(x / y), &mut o);
                    ser_int(t, &(x % y), &mut o);
                }
            }
            BOp::Cast(c) => match eval::convert(t, c, x) {
                Some(v) => {
                    o.push(BigInt::zero());
                    ser_int(c, &v, &mut o);
                }
                None => o.push(BigInt::one()),
            },
            BOp::FeltDiv => {
                if y.is_zero() {
                    o.push(BigInt::one());
                } else {
                    o.push(BigInt::zero());
                    // x * y^(p-2) mod p
                    let inv = y.modpow(&(&p - 2), &p);
                    o.push((x * inv).mod_floor(&p));
                }
            }
        }
    }
    o
}

/// The model of a panicking operator form.
pub fn model_op(t: &Ty, op: &str, x: &BigInt, y: &BigInt) -> Outcome {
    use crate::gens::prog::BinOp;
    let r = match op {
        "neg" => {
            let v = -x;
            if v > t.max() {
                return Outcome::Panic(vec![short_string(&format!("{}_neg Underflow", tn(t)))]);
            }
            Ok(v)
        }
        _ => {
            let b = match op {
                "add" => BinOp::Add,
                "sub" => BinOp::Sub,
                "mul" => BinOp::Mul,
                "div" => BinOp::Div,
                _ => BinOp::Rem,
            };
            eval::arith(b, t, x, y)
        }
    };
    match r {
        Ok(v) => {
            let mut o = vec![];
            ser_int(t, &v, &mut o);
            Outcome::Success(o)
        }
        Err(eval::Flow::Panic(d)) => Outcome::Panic(d),
        Err(_) => Outcome::Unknown,
    }
}

pub fn boundary_values(t: &Ty, full: bool) -> Vec<BigInt> {
    let (min, max) = (t.min(), t.max());
    let mut v: Vec<BigInt> = vec![];
    for k in [0, 1, 2, 3, 7, 10, 100, 255] {
        v.push(BigInt::from(k));
    }
    for d in 0..3 {
        v.push(&max - d);
        v.push(&min + d);
    }
    if t.is_signed() {
        for k in [1, 2, 3, 7, 100] {
            v.push(BigInt::from(-k));
        }
    }
    let bits = max.bits() as u32;
    let ks: Vec<u32> = if full {
        (1..=bits).collect()
    } else {
        [1u32, 4, 7, 8, 15, 16, 31, 32, 63, 64, 65, 96, 127, 128, 129, 191, 192, 250, 251, 255].iter().copied().filter(|k| *k <= bits).collect()
    };
    for k in ks {
        let b = BigInt::one() << k;
        for d in [-1i32, 0, 1] {
            let x = &b + d;
            v.push(x.clone());
            if t.is_signed() {
                v.push(-x);
            }
        }
    }
    if *t == Ty::Felt {
        let p = prime();
        v.push(&p / 2);
        v.push(&p / 2 + 1);
    }
    // Perfect squares and neighbours (sqrt).
    if !t.is_signed() && *t != Ty::Felt {
        let r = max.sqrt();
        for d in 0..2 {
            let q = &r - d;
            v.push(&q * &q);
            v.push(&q * &q - 1);
            v.push(&q * &q + 1);
        }
    }
    v.retain(|x| *x >= min && *x <= max);
    v.sort();
    v.dedup();
    v
}

fn to_arg(t: &Ty, v: &BigInt) -> Vec<Arg> {
    match t {
        Ty::U256 => {
            let mask = (BigInt::one() << 128) - 1;
            vec![Arg::Value(exec::bigint_to_felt(&(v & &mask))), Arg::Value(exec::bigint_to_felt(&(v >> 128)))]
        }
        _ => vec![Arg::Value(exec::bigint_to_felt(&v.mod_floor(&prime())))],
    }
}

pub struct TypeProgram {
    pub ty: Ty,
    pub compiled: Compiled,
}

pub fn compile_type(db: &cairo_lang_compiler::db::RootDatabase, t: &Ty) -> Result<TypeProgram, String> {
    let src = source(t);
    match exec::compile_source(db, &format!("c06_{}", tn(t)), &src, MetaCfg::linear()) {
        Ok(c) => Ok(TypeProgram { ty: t.clone(), compiled: c }),
        Err(e) => Err(format!("{e:?}")),
    }
}

/// Judges one (type, x, y): the batch function and every panicking operator form.
pub fn judge_pair(tp: &TypeProgram, x: &BigInt, y: &BigInt) -> Result<u32, (String, String)> {
    let t = &tp.ty;
    let mut args = to_arg(t, x);
    args.extend(to_arg(t, y));
    let mut runs = 0;
    let run = |fname: &str| -> Result<Outcome, (String, String)> {
        let f = tp.compiled.runner.find_function(&format!("::{fname}")).map_err(|e| ("harness".to_string(), format!("{e}")))?;
        match exec::run(&tp.compiled, f, args.clone(), Some(100_000_000)) {
            Ok(e) => match &e.value {
                RunResultValue::Panic(d) => Ok(Outcome::Panic(d.iter().map(exec::felt_to_bigint).collect())),
                RunResultValue::Success(v) => {
                    if fname == "batch" {
                        exec::read_felt_array(&e, v).map(Outcome::Success).ok_or(("harness".to_string(), "undecodable array".to_string()))
                    } else {
                        Ok(Outcome::Success(v.iter().map(exec::felt_to_bigint).collect()))
                    }
                }
            },
            Err(exec::ExecErr::Vm(m)) => Err((format!("vm-error:{}", tn(t)), m)),
            Err(e) => Err(("harness".to_string(), format!("{e:?}"))),
        }
    };
    // Batch.
    let got = run("batch")?;
    runs += 1;
    let want = Outcome::Success(model_batch(t, x, y));
    if got != want {
        // Find the first differing operation for the signature.
        let (Outcome::Success(g), Outcome::Success(w)) = (&got, &want) else {
            return Err((format!("batch-panicked:{}", tn(t)), format!("batch({x}, {y}) on {} gave {}", tn(t), crate::props::c01::fmt_outcome(&got))));
        };
        let ops = batch_ops(t);
        let mut at = 0;
        let mut which = "?".to_string();
        for op in &ops {
            let len = model_len(t, op, x, y);
            if g.get(at..at + len) != w.get(at..at + len) {
                which = format!("{op:?}");
                break;
            }
            at += len;
        }
        return Err((
            format!("wrong-result:{}:{which}", tn(t)),
            format!("{} {which} on ({x}, {y}): cairo gives {:?}, mathematics gives {:?}", tn(t), g.get(at..(at + 3).min(g.len())), w.get(at..(at + 3).min(w.len()))),
        ));
    }
    for op in panicking_ops(t) {
        let got = run(&format!("op_{op}"))?;
        runs += 1;
        let want = model_op(t, op, x, y);
        if got != want {
            return Err((
                format!("wrong-result:{}:{op}", tn(t)),
                format!("{} {op} on ({x}, {y}): cairo gives {}, mathematics gives {}", tn(t), crate::props::c01::fmt_outcome(&got), crate::props::c01::fmt_outcome(&want)),
            ));
        }
    }
    Ok(runs)
}

fn model_len(t: &Ty, op: &BOp, x: &BigInt, y: &BigInt) -> usize {
    // Length of one operation's serialisation: through a single-op model.
    model_ops(t, std::slice::from_ref(op), x, y).len()
}

fn is_boundary(t: &Ty, v: &BigInt) -> bool {
    let (min, max) = (t.min(), t.max());
    v.is_zero() || *v == min || *v == max || (v.abs() + 1u32).bits() != v.abs().bits() || (v.abs()).count_ones_like() <= 1
}

trait CountOnes {
    fn count_ones_like(&self) -> u64;
}
impl CountOnes for BigInt {
    fn count_ones_like(&self) -> u64 {
        self.magnitude().count_ones()
    }
}

/// BoundedInt division: `bounded_int::div_rem(BoundedInt<0, A>, NonZero<R>)` for boundary dividend
/// ranges (perfect squares and their neighbours, powers of two, 2^128 - 1) and every unsigned
/// integer divisor type. Returns the source and the divisor type's maximum.
pub fn bounded_div_source(a_max: &BigInt, r_bits: u32) -> (String, BigInt) {
    let r_max: BigInt = (BigInt::one() << r_bits) - BigInt::one();
    (
        format!(
            "#[feature(\"bounded-int-utils\")]\nuse core::internal::bounded_int::{{self, BoundedInt, DivRemHelper}};\ntype Lhs = BoundedInt<0, {a_max}>;\nimpl H of DivRemHelper<Lhs, u{r_bits}> {{\n    type DivT = Lhs;\n    type RemT = BoundedInt<0, {}>;\n}}\n#[inline(never)]\nfn dr(a: u128, b: u{r_bits}) -> (u128, u128) {{\n    let a: Lhs = bounded_int::downcast(a).unwrap();\n    let bnz: NonZero<u{r_bits}> = b.try_into().unwrap();\n    let (q, r) = bounded_int::div_rem(a, bnz);\n    (bounded_int::upcast(q), bounded_int::upcast(r))\n}}\n",
            r_max.clone() - BigInt::one()
        ),
        r_max,
    )
}

/// Judges dr(a, b) against (a / b, a % b). Ok(()) or (signature, description).
pub fn judge_bounded_div(c: &crate::core::exec::Compiled, a: &BigInt, b: &BigInt) -> Result<(), (String, String)> {
    use cairo_lang_runner::{Arg, RunResultValue};
    let f = c.runner.find_function("::dr").map_err(|e| ("bounded-div:no-function".to_string(), format!("{e}")))?.clone();
    let args = vec![Arg::Value(crate::core::exec::bigint_to_felt(a)), Arg::Value(crate::core::exec::bigint_to_felt(b))];
    match crate::core::exec::run(c, &f, args, Some(crate::props::execs::BIG_GAS)) {
        Ok(e) => match &e.value {
            RunResultValue::Success(v) if v.len() == 2 => {
                let (q, r) = (crate::core::exec::felt_to_bigint(&v[0]), crate::core::exec::felt_to_bigint(&v[1]));
                if q == a / b && r == a % b {
                    Ok(())
                } else {
                    Err(("bounded-div:wrong-result".into(), format!("bounded_int::div_rem({a}, {b}) gives ({q}, {r}), exact is ({}, {})", a / b, a % b)))
                }
            }
            other => Err(("bounded-div:unexpected-outcome".into(), format!("bounded_int::div_rem({a}, {b}) with a in range and b > 0 ends with {other:?}"))),
        },
        Err(crate::core::exec::ExecErr::Vm(m)) => Err(("bounded-div:vm-failure".into(), format!("bounded_int::div_rem({a}, {b}): the honest run fails in the VM: {}", crate::core::driver::truncate(&m, 200)))),
        Err(e) => Err(("bounded-div:run-error".into(), format!("{e:?}"))),
    }
}

impl Prop for C06 {
    fn id(&self) -> &'static str {
        "C06"
    }
    fn rule(&self) -> String {
        "For every type in {u8..u128, i8..i128, u256, felt252}: a generated crate with the panicking operator \
         forms (+ - * / % and unary -) as separate functions and one batch function with the overflowing / \
         wrapping / checked / saturating add-sub-mul variants, comparisons, bitwise ops, sqrt, wide_mul, \
         div_rem, felt252_div and try_into to every other integer type and felt252. Operands: ALL 65,536 pairs \
         for u8 and i8 (exhaustive slice); for wider types the cross product of a boundary set {0,1,2,3,MAX-d, \
         MIN+d,-k,2^k,2^k+-1,perfect squares +-1,P/2} (thinned in quick, every k in thorough) plus seeded \
         random pairs. Oracle: BigInt model of each operation incl. which panic / None / overflow flag is due. \
         Non-trivial = an operand lies on a boundary (0, MIN, MAX, 2^k, 2^k-1); distinct = (type, x, y)."
            .into()
    }
    fn assumptions(&self) -> Vec<String> {
        vec![
            "the BigInt model (props/c06.rs model_batch/model_op) is the mathematical definition; panic strings as in corelib".into(),
            "signed types have no overflowing/wrapping/checked/saturating multiplication in the core library (not tested)".into(),
        ]
    }
    fn worker(&self, ctx: &mut WorkerCtx) {
        let db = FrontCfg::default_cfg().new_db(Plugins::Default);
        let mut programs: BTreeMap<String, TypeProgram> = BTreeMap::new();
        for t in TYPES {
            match compile_type(&db, t) {
                Ok(tp) => {
                    programs.insert(tn(t), tp);
                }
                Err(e) => {
                    ctx.inconclusive(&format!("C06 crate for {} does not compile: {}", tn(t), crate::core::driver::truncate(&e, 600)));
                    return;
                }
            }
        }
        let tier = ctx.tier;
        let seed = ctx.seed;
        let n_shards = ctx.n_shards;
        ctx.enumerate_shards(|ctx, shard| {
            let mut idx: u64 = 0;
            let mine = |idx: &mut u64| -> bool {
                let r = *idx % n_shards == shard;
                *idx += 1;
                r
            };
            let mut failed_sigs = std::collections::BTreeSet::new();
            let mut judge = |ctx: &mut WorkerCtx, tp: &TypeProgram, x: &BigInt, y: &BigInt, exhaustive: bool| {
                match judge_pair(tp, x, y) {
                    Ok(runs) => {
                        let st = &mut ctx.stats;
                        st.evals(runs as u64);
                        st.count(&format!("pairs_{}", tn(&tp.ty)));
                        if exhaustive {
                            st.count("pairs_exhaustive_8bit");
                        }
                        if is_boundary(&tp.ty, x) || is_boundary(&tp.ty, y) {
                            st.nontrivial(hash_str(&format!("{}:{x}:{y}", tn(&tp.ty))));
                        }
                        st.sample(1, || json!({"type": tn(&tp.ty), "x": x.to_string(), "y": y.to_string(), "functions": "batch + operator forms"}));
                    }
                    Err((sig, what)) => {
                        if sig == "harness" {
                            ctx.inconclusive(&format!("harness problem: {what}"));
                            return;
                        }
                        if failed_sigs.insert(sig.clone()) {
                            let f = Failure { sig, what, artefact: json!({"type": tn(&tp.ty), "x": x.to_string(), "y": y.to_string()}) };
                            ctx.report(&f, shard);
                        }
                    }
                }
            };
            // Exhaustive 8-bit slice.
            for t in [Ty::U(8), Ty::I(8)] {
                let tp = &programs[&tn(&t)];
                let (lo, hi) = (t.min(), t.max());
                let mut x = lo.clone();
                while x <= hi {
                    let mut y = lo.clone();
                    while y <= hi {
                        if mine(&mut idx) {
                            judge(ctx, tp, &x, &y, true);
                        }
                        y += 1;
                    }
                    x += 1;
                }
            }
            // Wider types: boundary cross product + random.
            for t in TYPES {
                if matches!(t, Ty::U(8) | Ty::I(8)) {
                    continue;
                }
                let tp = &programs[&tn(t)];
                let full = tier == Tier::Thorough;
                let bs = boundary_values(t, full);
                let core: Vec<BigInt> = if full { bs.clone() } else { boundary_values(t, false).into_iter().step_by(3).collect() };
                for x in &bs {
                    for y in &core {
                        if mine(&mut idx) {
                            judge(ctx, tp, x, y, false);
                            if x != y {
                                judge(ctx, tp, y, x, false);
                            }
                        }
                    }
                }
                // Unary coverage (sqrt, not, conversions, neg depend on x only): the full boundary set
                // against y = 1 and y = x, in both tiers.
                if !full {
                    let one = BigInt::one();
                    for x in &boundary_values(t, true) {
                        if mine(&mut idx) {
                            judge(ctx, tp, x, &one, false);
                            judge(ctx, tp, x, x, false);
                        }
                    }
                }
                let n_rand = tier.pick(600u64, 20000);
                let mut rng = SplitMix(derive_seed(&format!("C06{}", tn(t)), seed, 0));
                let span = t.max() - t.min() + 1;
                for _ in 0..n_rand {
                    let mk = |rng: &mut SplitMix| -> BigInt {
                        let r = (BigInt::from(rng.next()) << 192) + (BigInt::from(rng.next()) << 128) + (BigInt::from(rng.next()) << 64) + BigInt::from(rng.next());
                        // Mix magnitudes: shift right by a random amount.
                        let sh = rng.next() % 250;
                        t.min() + ((r >> sh) % &span)
                    };
                    let x = mk(&mut rng);
                    let y = mk(&mut rng);
                    if mine(&mut idx) {
                        judge(ctx, tp, &x, &y, false);
                    }
                }
            }
        });
        if ctx.only.is_some() {
            return;
        }
        // BoundedInt division family.
        let cases = tier.pick(6, 60);
        let db2 = FrontCfg::default_cfg().new_db(Plugins::Default);
        ctx.run_shards(120, cases, |cc: &mut crate::core::driver::CaseCtx<'_>, ch: &mut crate::core::choices::Choices| {
            let ks: Vec<BigInt> = vec![BigInt::from(15), BigInt::from(255), BigInt::from(65535), BigInt::from(u32::MAX), BigInt::from(u64::MAX), BigInt::one() << 32u32, BigInt::one() << 63u32, BigInt::from(1000003u64)];
            let k = ks[ch.below(ks.len())].clone();
            let two128: BigInt = BigInt::one() << 128u32;
            let a_max = match ch.below(7) {
                0 | 1 => &k * &k,
                2 => &k * &k - BigInt::one(),
                3 => &k * &k + BigInt::one(),
                4 => two128.clone() - BigInt::one(),
                5 => BigInt::one() << 127u32,
                _ => &k * (k.clone() + BigInt::one()),
            };
            let a_max: BigInt = if a_max >= two128 { two128.clone() - BigInt::one() } else { a_max };
            let r_bits = *ch.pick(&[8u32, 16, 32, 64, 128]);
            let (src, r_max) = bounded_div_source(&a_max, r_bits);
            let art0 = json!({"kind": "bounded-div", "a_max": a_max.to_string(), "r_bits": r_bits});
            cc.start(|| art0.clone());
            let c = match crate::core::exec::compile_source(&db2, &format!("bd{}", hash_str(&src) % 100000), &src, crate::core::exec::MetaCfg::linear()) {
                Ok(c) => c,
                Err(_) => {
                    cc.stats().count("bounded_div_instantiation_not_compilable");
                    return Verdict::Skip("instantiation not supported");
                }
            };
            let a_c: Vec<BigInt> = vec![BigInt::zero(), BigInt::one(), a_max.clone(), a_max.clone() - BigInt::one(), &k * &k, &k * (k.clone() + BigInt::one()), &k * (k.clone() - BigInt::one()), k.clone(), BigInt::from(ch.u128()) % (a_max.clone() + BigInt::one())];
            let b_c: Vec<BigInt> = vec![BigInt::one(), BigInt::from(2), k.clone(), k.clone() + BigInt::one(), k.clone() - BigInt::one(), r_max.clone(), r_max.clone() - BigInt::one(), BigInt::from(ch.u128()) % &r_max + BigInt::one()];
            for _ in 0..8 {
                let a = a_c[ch.below(a_c.len())].clone();
                let b = b_c[ch.below(b_c.len())].clone();
                if a > a_max || a < BigInt::zero() || b < BigInt::one() || b > r_max {
                    continue;
                }
                match judge_bounded_div(&c, &a, &b) {
                    Ok(()) => {
                        let st = cc.stats();
                        st.eval();
                        st.count("bounded_div_pairs");
                        if a == &k * &k && b == k {
                            st.count("bounded_div_square_over_root");
                        }
                        st.nontrivial(hash_str(&format!("bd{a_max}{r_bits}{a}{b}")));
                    }
                    Err((sig, what)) => {
                        let mut art = art0.clone();
                        art["a"] = json!(a.to_string());
                        art["b"] = json!(b.to_string());
                        return Verdict::fail(sig, what, art);
                    }
                }
            }
            Verdict::Pass
        });
    }
    fn replay(&self, artefact: &Value) -> Verdict {
        if artefact["kind"].as_str() == Some("bounded-div") {
            let g = |k: &str| -> BigInt { artefact[k].as_str().and_then(|s| s.parse().ok()).unwrap_or_default() };
            let (src, _) = bounded_div_source(&g("a_max"), artefact["r_bits"].as_u64().unwrap_or(128) as u32);
            let db = FrontCfg::default_cfg().new_db(Plugins::Default);
            let Ok(c) = crate::core::exec::compile_source(&db, "bd", &src, crate::core::exec::MetaCfg::linear()) else { return Verdict::Skip("not compilable") };
            return match judge_bounded_div(&c, &g("a"), &g("b")) {
                Ok(()) => Verdict::Pass,
                Err((sig, what)) => Verdict::fail(sig, what, artefact.clone()),
            };
        }
        let tname = artefact["type"].as_str().unwrap_or("u8");
        let Some(t) = TYPES.iter().find(|t| tn(t) == tname) else { return Verdict::Skip("unknown type") };
        let db = FrontCfg::default_cfg().new_db(Plugins::Default);
        let tp = match compile_type(&db, t) {
            Ok(tp) => tp,
            Err(e) => return Verdict::fail("c06-crate-does-not-compile", e, artefact.clone()),
        };
        let x: BigInt = artefact["x"].as_str().unwrap_or("0").parse().unwrap_or_default();
        let y: BigInt = artefact["y"].as_str().unwrap_or("0").parse().unwrap_or_default();
        match judge_pair(&tp, &x, &y) {
            Ok(_) => Verdict::Pass,
            Err((sig, what)) => Verdict::fail(sig, what, artefact.clone()),
        }
    }
    fn health(&self, _tier: Tier, agg: &Agg) -> Result<(), String> {
        if agg.class("pairs_exhaustive_8bit") != 2 * 65536 {
            return Err(format!("the exhaustive 8-bit slice is incomplete: {} of 131072 pairs", agg.class("pairs_exhaustive_8bit")));
        }
        for t in TYPES {
            if agg.class(&format!("pairs_{}", tn(t))) == 0 {
                return Err(format!("no pair judged for {}", tn(t)));
            }
        }
        Ok(())
    }
    fn extra_coverage(&self, _tier: Tier, agg: &Agg) -> BTreeMap<String, Value> {
        let mut m = BTreeMap::new();
        m.insert("exhaustive".into(), json!(false));
        m.insert("exhaustive_slice".into(), json!(format!("all {} operand pairs of u8 and i8 for every operation", agg.class("pairs_exhaustive_8bit"))));
        m
    }
}
