//! C09 — the front end is total.

use cairo_lang_formatter::{FormatterConfig, get_formatted_file};
use cairo_lang_parser::utils::SimpleParserDatabase;
use serde_json::{Value, json};

use crate::core::cairo::{self, Plugins};
use crate::core::choices::{Choices, hash_str};
use crate::core::corpus;
use crate::core::driver::{Agg, CaseCtx, Prop, Tier, Verdict, WorkerCtx, truncate};
use crate::core::panics;
use crate::gens::textmut;

pub struct C09;

pub const MAX_BYTES: usize = 16 * 1024;

/// Signature of a panic: its call site; salsa's cycle panic is raised at one site for every
/// query, so there the query name is the call-site-like key.
pub fn panic_sig(p: &panics::PanicRec) -> String {
    if let Some(rest) = p.msg.strip_prefix("dependency graph cycle when querying ") {
        // One family (DESIGN 5/C09): queries without cycle recovery panic on self-referential
        // items; the query name is reported in the description, not in the key.
        let _q: String = rest.chars().take_while(|c| c.is_alphanumeric() || *c == '_').collect();
        return "salsa-cycle".to_string();
    }
    format!("panic@{}", p.loc)
}

fn panic_verdict(stage: &str, p: &panics::PanicRec, text: &str) -> Verdict {
    Verdict::fail(
        panic_sig(p),
        format!("{stage} panicked at {}: {}", p.loc, truncate(&p.msg, 300)),
        json!({"text": text, "stage": stage}),
    )
}

/// Stage 1: lex + parse + format on a parser-only database; parser diagnostic spans in file.
pub fn stage1(db: &SimpleParserDatabase, text: &str) -> (Verdict, usize) {
    let r = panics::catch(|| {
        let (root, diags) = db.parse_virtual_with_diagnostics(text);
        let all = diags.get_all();
        for d in &all {
            let s = d.span.start.as_u32() as usize;
            let e = d.span.end.as_u32() as usize;
            // The property asks for locations inside the file. (A location inside the file but
            // in the middle of a UTF-8 sequence is recorded as information only: see DESIGN 6.)
            if s > e || e > text.len() {
                return Err(format!("parser diagnostic span [{s},{e}) outside the {}-byte file: {:?}", text.len(), d.kind));
            }
        }
        // Rendering the diagnostics computes line/column positions.
        let _ = diags.format(db);
        for cfg in [FormatterConfig::default()] {
            let _ = get_formatted_file(db, &root, cfg);
        }
        Ok(all.len())
    });
    match r {
        Ok(Ok(n)) => (Verdict::Pass, n),
        Ok(Err(what)) => (Verdict::fail("span-outside-file:parser", what, json!({"text": text, "stage": "parse"})), 0),
        Err(p) => (panic_verdict("parse/format", &p, text), 0),
    }
}

pub fn wants_starknet(text: &str) -> bool {
    text.contains("starknet") || text.contains("#[storage]") || text.contains("#[event]")
}

/// Stage 2: full semantic + lowering diagnostics as a virtual crate with the corelib.
pub fn stage2(db: &cairo_lang_compiler::db::RootDatabase, name: &str, text: &str) -> (Verdict, usize) {
    let r = panics::catch(|| {
        let input = cairo::virtual_crate_input(name, text, cairo::SETTINGS_2024_07, None);
        let (_s, _found) = cairo::diagnostics_string(db, &input);
        cairo::check_diagnostic_spans(db, &input)
    });
    match r {
        Ok((n, None)) => (Verdict::Pass, n),
        Ok((_, Some(p))) => (Verdict::fail("span-outside-file:semantic", p.what, json!({"text": text, "stage": "diagnostics"})), 0),
        Err(p) => (panic_verdict("semantic/lowering diagnostics", &p, text), 0),
    }
}

impl Prop for C09 {
    fn id(&self) -> &'static str {
        "C09"
    }
    fn crash_type(&self) -> bool {
        true
    }
    fn rule(&self) -> String {
        "Inputs as for C10 (byte/token/subtree mutants of windows of every .cairo file, token soups, \
         nesting stressors with depth <= 200). Stage 1 (every input): lex + parse + render parser \
         diagnostics + format on a parser-only db. Stage 2 (every 4th input): semantic + lowering \
         diagnostics of the text as a virtual crate (edition 2024_07, corelib, default plugins; \
         Starknet plugins if the text mentions starknet), DiagnosticsReporter::check, and every \
         diagnostic's location and user location checked to lie in its file on char boundaries. \
         Violation = panic (signature = panic file:line), process death / CPU runaway reproduced \
         twice in fresh processes, or a span outside its file. Non-trivial = input with >= 1 parser \
         diagnostic (stage 1) or >= 1 diagnostic of any kind (stage 2); distinct = text hash."
            .into()
    }
    fn assumptions(&self) -> Vec<String> {
        vec![
            "valid UTF-8 inputs <= 16 KiB, nesting <= 200".into(),
            "worker threads have an 8 MiB stack (Linux main-thread default)".into(),
            "termination is judged by CPU time (90 s per case) with reproduction in fresh processes".into(),
        ]
    }
    fn worker(&self, ctx: &mut WorkerCtx) {
        let corpus = corpus::cairo_corpus(256 * 1024);
        let cases = ctx.tier.pick(1000, 10000);
        let stage2_every = 4;
        let mut pdb = SimpleParserDatabase::default();
        let mut db_plain = cairo::new_db(Plugins::Default, None);
        let mut db_sn = cairo::new_db(Plugins::Starknet, None);
        let mut n = 0u32;
        let mut n2 = 0u32;
        ctx.minimize = Some(Box::new(|f| {
            let text = f.artefact["text"].as_str()?.to_string();
            let stage = f.artefact["stage"].as_str()?.to_string();
            let sig = f.sig.clone();
            let pdb = SimpleParserDatabase::default();
            let db = if wants_starknet(&text) { cairo::new_db(Plugins::Starknet, None) } else { cairo::new_db(Plugins::Default, None) };
            let mut k = 0;
            let judge = |t: &str, k: &mut u32| -> Verdict {
                if stage.starts_with("parse") {
                    stage1(&pdb, t).0
                } else {
                    *k += 1;
                    stage2(&db, &format!("m{k}"), t).0
                }
            };
            let min = crate::core::shrink::ddmin_text(
                &text,
                |t| matches!(judge(t, &mut k), Verdict::Fail(g) if g.sig == sig),
                if stage.starts_with("parse") { 3000 } else { 600 },
            );
            match judge(&min, &mut k) {
                Verdict::Fail(mut g) => {
                    g.artefact = json!({"text": min, "stage": stage, "minimised_from": f.artefact});
                    Some(g)
                }
                _ => None,
            }
        }));
        ctx.run_shards(96, cases, |cc: &mut CaseCtx<'_>, ch: &mut Choices| {
            n += 1;
            if n % 500 == 0 {
                pdb = SimpleParserDatabase::default();
            }
            let case = textmut::gen_text(ch, &corpus, MAX_BYTES);
            cc.start(|| json!({"text": case.text, "stage": "any"}));
            let (v1, npd) = stage1(&pdb, &case.text);
            {
                let st = cc.stats();
                st.eval();
                st.count("stage1");
                if npd > 0 {
                    st.count("stage1_with_parser_diagnostics");
                    st.nontrivial(hash_str(&case.text));
                }
                st.sample(1, || json!({"origin": case.origin, "mutations": case.mutations, "text": truncate(&case.text, 300)}));
            }
            if let Verdict::Fail(_) = v1 {
                return v1;
            }
            if cc.idx % stage2_every == 0 {
                n2 += 1;
                if n2 % 150 == 0 {
                    db_plain = cairo::new_db(Plugins::Default, None);
                    db_sn = cairo::new_db(Plugins::Starknet, None);
                }
                let sn = wants_starknet(&case.text);
                let db = if sn { &db_sn } else { &db_plain };
                let (v2, nd) = stage2(db, &format!("c{n2}"), &case.text);
                let st = cc.stats();
                st.count("stage2");
                if sn {
                    st.count("stage2_starknet_plugins");
                }
                if nd > 0 {
                    st.count("stage2_with_diagnostics");
                    st.nontrivial(hash_str(&case.text) ^ 1);
                }
                if let Verdict::Fail(_) = v2 {
                    return v2;
                }
            }
            Verdict::Pass
        });
    }
    fn replay(&self, artefact: &Value) -> Verdict {
        let text = artefact["text"].as_str().unwrap_or("");
        let pdb = SimpleParserDatabase::default();
        let (v1, _) = stage1(&pdb, text);
        if let Verdict::Fail(_) = v1 {
            return v1;
        }
        let db = if wants_starknet(text) { cairo::new_db(Plugins::Starknet, None) } else { cairo::new_db(Plugins::Default, None) };
        stage2(&db, "replay", text).0
    }
    fn health(&self, _tier: Tier, agg: &Agg) -> Result<(), String> {
        if agg.class("stage1_with_parser_diagnostics") * 4 < agg.class("stage1") {
            return Err("fewer than 25% of inputs exercised parser recovery".into());
        }
        if agg.class("stage2") == 0 {
            return Err("stage 2 never ran".into());
        }
        Ok(())
    }
}
