//! C01 — compiled programs compute what the source means (differential vs reference evaluator).

use cairo_lang_runner::{Arg, RunResultValue};
use num_bigint::BigInt;
use serde_json::{Value, json};

use crate::core::cairo::Plugins;
use crate::core::choices::{Choices, hash_str};
use crate::core::driver::{Agg, CaseCtx, Prop, Tier, Verdict, WorkerCtx, truncate};
use crate::core::exec::{self, CompileErr, Compiled, ExecErr, FrontCfg, MetaCfg};
use crate::gens::prog::{self, Param, Program, Ty};
use crate::oracle::eval::{Interp, Outcome};

pub struct C01;

pub const GAS: usize = 300_000_000;

/// Entry arguments as runner `Arg`s (u256 = low, high; negatives as P - |x|).
pub fn to_args(p: &Program, vals: &[BigInt]) -> Vec<Arg> {
    let prime = prog::prime();
    let mut out = vec![];
    let mut it = vals.iter();
    for pa in &p.funcs[p.entry].params {
        if let Param::Val(_, t) = pa {
            let v = it.next().unwrap();
            match t {
                Ty::U256 => {
                    let mask = (BigInt::from(1) << 128) - 1;
                    out.push(Arg::Value(exec::bigint_to_felt(&(v & &mask))));
                    out.push(Arg::Value(exec::bigint_to_felt(&(v >> 128))));
                }
                _ => {
                    let m = ((v % &prime) + &prime) % &prime;
                    out.push(Arg::Value(exec::bigint_to_felt(&m)));
                }
            }
        }
    }
    out
}

/// Observable outcome of a run of a generated program (`main` returns Array<felt252>).
pub fn observed(exec: &exec::Exec) -> Option<Outcome> {
    match &exec.value {
        RunResultValue::Success(v) => exec::read_felt_array(exec, v).map(Outcome::Success),
        RunResultValue::Panic(d) => Some(Outcome::Panic(d.iter().map(exec::felt_to_bigint).collect())),
    }
}

pub fn fmt_outcome(o: &Outcome) -> String {
    let f = |v: &Vec<BigInt>| v.iter().map(|x| {
        // Show short strings readably.
        let b = x.to_bytes_be().1;
        if b.len() > 3 && b.iter().all(|c| (32..127).contains(c)) { format!("'{}'", String::from_utf8_lossy(&b)) } else { x.to_string() }
    }).collect::<Vec<_>>().join(", ");
    match o {
        Outcome::Success(v) => format!("Success[{}]", f(v)),
        Outcome::Panic(v) => format!("Panic[{}]", f(v)),
        Outcome::Unknown => "Unknown".into(),
    }
}

pub struct ProgramCase {
    pub program: Program,
    pub source: String,
    pub stats: prog::GenStats,
    pub args: Vec<Vec<BigInt>>,
}

pub fn gen_case(ch: &mut Choices, n_args: usize) -> ProgramCase {
    // Argument choices are drawn first so that they never run dry behind a large program.
    let seeds: Vec<Vec<u32>> = (0..n_args).map(|_| (0..24).map(|_| ch.next()).collect()).collect();
    let (program, stats) = prog::generate(ch);
    let source = prog::print_program(&program);
    let args = seeds.into_iter().map(|s| prog::gen_args(&mut Choices::new(s), &program)).collect();
    ProgramCase { program, source, stats, args }
}

pub fn find_main(c: &Compiled) -> Option<cairo_lang_sierra::program::Function> {
    c.runner.find_function("::main").ok().cloned()
}

/// Judges (source, args) under a configuration against expected outcomes. Used by replay too.
pub fn judge_source(
    db: &mut cairo_lang_compiler::db::RootDatabase,
    name: &str,
    source: &str,
    cfg: &FrontCfg,
    meta: MetaCfg,
    args: &[Vec<Arg>],
    expected: &[Outcome],
) -> Result<Vec<Option<Outcome>>, (String, String)> {
    cfg.apply(db);
    let compiled = match exec::compile_source(db, name, source, meta) {
        Ok(c) => c,
        Err(CompileErr::Diagnostics(d)) => return Err(("generator:rejected".into(), d)),
        Err(CompileErr::Backend(e)) => return Err(("compile-error".into(), e)),
        Err(CompileErr::Panic(loc, msg)) => return Err((format!("compiler-panic@{loc}"), msg)),
    };
    let Some(main) = find_main(&compiled) else { return Err(("generator:no-main".into(), String::new())) };
    let mut out = vec![];
    for (a, exp) in args.iter().zip(expected) {
        match exec::run(&compiled, &main, a.clone(), Some(GAS)) {
            Ok(e) => {
                let o = observed(&e);
                if *exp != Outcome::Unknown {
                    if let Some(o) = &o {
                        if o != exp {
                            return Err((
                                "result-mismatch".into(),
                                format!("config [{}]: compiled program gives {} but the source semantics prescribe {}", cfg.describe(), fmt_outcome(o), fmt_outcome(exp)),
                            ));
                        }
                    } else {
                        return Err(("result-undecodable".into(), "result array could not be read from memory".into()));
                    }
                }
                out.push(o);
            }
            Err(ExecErr::Vm(e)) => return Err(("vm-error".into(), e)),
            Err(e) => return Err(("generator:run-setup".into(), format!("{e:?}"))),
        }
    }
    Ok(out)
}

fn args_json(args: &[Vec<BigInt>]) -> Value {
    json!(args.iter().map(|a| a.iter().map(|x| x.to_string()).collect::<Vec<_>>()).collect::<Vec<_>>())
}

impl Prop for C01 {
    fn id(&self) -> &'static str {
        "C01"
    }
    fn rule(&self) -> String {
        "Programs come from a type-directed generator over my own IR (felt252, bool, u8..u128, u256, i8..i128, \
         tuples, Copy structs/enums with derived PartialEq/Serde, Option, arrays, spans, Felt252Dict, if/match \
         (enum, Option, bool, numeric)/loop-break/while/for, early return, helper functions with value/ref/span \
         parameters, bounded recursion, consts, casts). Each program runs on 8 argument vectors (boundary + small \
         + random) under the default configuration and one configuration drawn from the C05 lattice; the \
         observable result (Serde array or panic data) must equal the independent BigInt reference evaluator's. \
         Non-trivial = program with >= 1 control-flow construct and >= 1 arithmetic operation whose 8 outcomes are \
         not all equal; distinct = source hash."
            .into()
    }
    fn assumptions(&self) -> Vec<String> {
        vec![
            "the reference evaluator (oracle/eval.rs) states the documented semantics: corelib panic strings, truncated signed division, left-to-right evaluation, Serde layout".into(),
            "cairo-vm executes CASM faithfully (C16 checks the encoding side)".into(),
            "programs outside the modelled subset are not generated".into(),
        ]
    }
    fn worker(&self, ctx: &mut WorkerCtx) {
        let cases = ctx.tier.pick(24, 320);
        let mut db = FrontCfg::default_cfg().new_db(Plugins::Default);
        let mut n = 0u64;
        ctx.shrink_iters = 150;
        ctx.minimize = Some(Box::new(|f| {
            // Source-level ddmin only for compiler failures (no reference outcome is needed).
            if !(f.sig.starts_with("compiler-panic") || f.sig == "compile-error") {
                return None;
            }
            let source = f.artefact["source"].as_str()?.to_string();
            let cfg = FrontCfg::from_json(&f.artefact["config"]);
            let mut db = cfg.new_db(Plugins::Default);
            let sig = f.sig.clone();
            let mut k = 0;
            let mut fails = |t: &str| -> Option<String> {
                k += 1;
                match judge_source(&mut db, &format!("m{k}"), t, &cfg, MetaCfg::linear(), &[], &[]) {
                    Err((s, w)) if s == sig => Some(w),
                    _ => None,
                }
            };
            let min = crate::core::shrink::ddmin_text(&source, |t| fails(t).is_some(), 400);
            let what = fails(&min)?;
            Some(crate::core::driver::Failure { sig: f.sig.clone(), what, artefact: json!({"source": min, "args": [], "config": cfg.to_json(), "minimised_from": f.artefact["source"]}) })
        }));
        ctx.run_shards(1200, cases, |cc: &mut CaseCtx<'_>, ch: &mut Choices| {
            n += 1;
            if n % 60 == 0 {
                db = FrontCfg::default_cfg().new_db(Plugins::Default);
            }
            // Configuration choices first: the program generator may exhaust the choice sequence.
            let cfg_b = FrontCfg::generate(ch);
            let case = gen_case(ch, 8);
            let expected: Vec<Outcome> = case.args.iter().map(|a| Interp::new(&case.program).run_entry(a)).collect();
            let rargs: Vec<Vec<Arg>> = case.args.iter().map(|a| to_args(&case.program, a)).collect();
            let name = format!("p{}", hash_str(&case.source) % 1_000_000);
            let art = |cfg: &FrontCfg| json!({"source": case.source, "args": args_json(&case.args), "config": cfg.to_json(),
                "expected": expected.iter().map(fmt_outcome).collect::<Vec<_>>()});
            let st = cc.stats();
            st.eval();
            let meta_b = if case.source.len() < 2500 && n % 2 == 0 { MetaCfg { linear_gas: false, linear_ap: false } } else { MetaCfg::linear() };
            for (cfg, meta) in [(FrontCfg::default_cfg(), MetaCfg::linear()), (cfg_b.clone(), meta_b)] {
                match judge_source(&mut db, &name, &case.source, &cfg, meta, &rargs, &expected) {
                    Ok(_) => {}
                    Err((sig, what)) if sig.starts_with("generator:") => {
                        cc.stats().count(&sig);
                        if sig == "generator:rejected" {
                            let errs: String = what.split("\n\n").filter(|b| b.trim_start().starts_with("error")).take(3).collect::<Vec<_>>().join("\n");
                            if std::env::var("VERIF_DEBUG").is_ok() {
                                eprintln!("REJECTED:\n{}\n", truncate(&errs, 900));
                            }
                            cc.stats().sample(4, || json!({"REJECTED": truncate(&errs, 900)}));
                        }
                        return Verdict::Skip("generator slip");
                    }
                    Err((sig, what)) if sig == "compile-error" && !meta.linear_gas => {
                        // The non-linear solver may fail where the linear one succeeds: no metadata.
                        let _ = what;
                        cc.stats().count("lp_solver_failed");
                    }
                    Err((sig, what)) => {
                        // Root-cause class of one known finding: the compiler materialises a place
                        // operand (variable / member path) only when the enclosing value is built, so
                        // `(v, { v = 0; 2 })` sees the later assignment - evaluation is not left to
                        // right there. Decided on the program's IR, not on the symptom.
                        if sig == "result-mismatch" && prog::lazy_read_hazard(&case.program) {
                            let mut a = art(&cfg);
                            a["class"] = json!("lazy-read");
                            return Verdict::fail("result-mismatch:place-operand-read-after-sibling-assignment", what, a);
                        }
                        return Verdict::fail(sig, what, art(&cfg));
                    }
                }
            }
            if prog::lazy_read_hazard(&case.program) {
                cc.stats().count("programs_with_place_operand_before_sibling_assignment");
            }
            let st = cc.stats();
            st.count("programs_judged");
            st.add("executions", 16);
            let npanic = expected.iter().filter(|o| matches!(o, Outcome::Panic(_))).count() as u64;
            st.add("expected_panics", npanic);
            st.add("expected_unknown", expected.iter().filter(|o| matches!(o, Outcome::Unknown)).count() as u64);
            let s = &case.stats;
            for (k, v) in [("with_loops", s.loops), ("with_matches", s.matches), ("with_calls", s.calls), ("with_arrays", s.arrays),
                ("with_dicts", s.dicts), ("with_ref_params", s.ref_params), ("with_casts", s.casts), ("with_recursion", s.recursion), ("with_early_return", s.early_return), ("with_shuffle_functions", s.shuffle_functions), ("with_specialisation_wrappers", s.wrappers), ("with_dispatcher_functions", s.dispatchers)] {
                if v > 0 {
                    st.count(k);
                }
            }
            let varied = expected.iter().any(|o| o != &expected[0]);
            if varied {
                st.count("input_dependent");
            }
            if varied && (s.loops + s.matches + s.ifs + s.calls) > 0 && s.arith > 0 {
                st.nontrivial(hash_str(&case.source));
            }
            st.sample(1, || json!({"source": truncate(&case.source, 1200), "args": args_json(&case.args[..2]), "expected": expected.iter().take(2).map(fmt_outcome).collect::<Vec<_>>(), "config_b": cfg_b.describe()}));
            Verdict::Pass
        });
    }
    fn replay(&self, artefact: &Value) -> Verdict {
        replay_source(artefact)
    }
    fn health(&self, _tier: Tier, agg: &Agg) -> Result<(), String> {
        let rejected = agg.class("generator:rejected");
        if rejected * 50 > agg.evaluations {
            return Err(format!("{rejected} of {} generated programs were rejected by the compiler (generator broken)", agg.evaluations));
        }
        let judged = agg.class("programs_judged");
        if judged == 0 {
            return Err("no program judged".into());
        }
        for k in ["with_loops", "with_matches", "with_calls", "with_arrays"] {
            if agg.class(k) * 20 < judged {
                return Err(format!("class {k} below 5%"));
            }
        }
        if agg.class("input_dependent") * 4 < judged {
            return Err("fewer than 25% of the programs are input dependent".into());
        }
        Ok(())
    }
}

/// Replay of a (source, args, config, expected?) artefact: without the IR the reference outcome
/// is taken from the artefact ("expected" strings) when present; otherwise only VM errors count.
pub fn replay_source(artefact: &Value) -> Verdict {
    let source = artefact["source"].as_str().unwrap_or("");
    let cfg = FrontCfg::from_json(&artefact["config"]);
    let mut db = cfg.new_db(Plugins::Default);
    let compiled = match exec::compile_source(&db, "replay", source, MetaCfg::linear()) {
        Ok(c) => c,
        Err(CompileErr::Diagnostics(_)) => return Verdict::Skip("source has error diagnostics"),
        Err(CompileErr::Backend(e)) => return Verdict::fail("compile-error", e, artefact.clone()),
        Err(CompileErr::Panic(loc, msg)) => return Verdict::fail(format!("compiler-panic@{loc}"), msg, artefact.clone()),
    };
    let _ = &mut db;
    let Some(main) = find_main(&compiled) else { return Verdict::Skip("no main") };
    let prime = prog::prime();
    let empty = vec![];
    for (i, a) in artefact["args"].as_array().unwrap_or(&empty).iter().enumerate() {
        // Raw scalars: each value becomes felts by its magnitude (u256 split is decided by the
        // parameter size the runner expects: try plain first, then split values >= 2^128).
        let vals: Vec<BigInt> = a.as_array().unwrap_or(&empty).iter().filter_map(|x| x.as_str().and_then(|s| s.parse().ok())).collect();
        let mut args = vec![];
        for v in &vals {
            let m = ((v % &prime) + &prime) % &prime;
            args.push(Arg::Value(exec::bigint_to_felt(&m)));
        }
        let r = exec::run(&compiled, &main, args.clone(), Some(GAS));
        let r = match r {
            Err(ExecErr::ArgShape(_)) => {
                // u256 parameters: split every value into (low, high).
                let mut a2 = vec![];
                let sizes: Vec<i16> = compiled.builder.generic_id_and_size_from_concrete(&main.signature.param_types).into_iter().filter(|(t, _)| compiled.builder.is_user_arg_type(t)).map(|(_, s)| s).collect();
                for (v, sz) in vals.iter().zip(sizes) {
                    if sz == 2 {
                        let mask = (BigInt::from(1) << 128) - 1;
                        a2.push(Arg::Value(exec::bigint_to_felt(&(v & &mask))));
                        a2.push(Arg::Value(exec::bigint_to_felt(&(v >> 128))));
                    } else {
                        let m = ((v % &prime) + &prime) % &prime;
                        a2.push(Arg::Value(exec::bigint_to_felt(&m)));
                    }
                }
                exec::run(&compiled, &main, a2, Some(GAS))
            }
            r => r,
        };
        match r {
            Ok(e) => {
                if let (Some(o), Some(exp)) = (observed(&e), artefact["expected"].get(i).and_then(|x| x.as_str())) {
                    if exp != "Unknown" && fmt_outcome(&o) != exp {
                        if artefact["class"].as_str() == Some("lazy-read") {
                            return Verdict::fail("result-mismatch:place-operand-read-after-sibling-assignment", format!("compiled program gives {} but the recorded reference outcome is {exp}", fmt_outcome(&o)), artefact.clone());
                        }
                        return Verdict::fail("result-mismatch", format!("compiled program gives {} but the recorded reference outcome is {exp}", fmt_outcome(&o)), artefact.clone());
                    }
                }
            }
            Err(ExecErr::Vm(e)) => return Verdict::fail("vm-error", e, artefact.clone()),
            Err(_) => {}
        }
    }
    Verdict::Pass
}
