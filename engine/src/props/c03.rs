//! C03 — results do not depend on prover-supplied hint values (soundness).
//!
//! A wrapper around the honest `CairoHintProcessor` lets every hint run honestly and then, at one
//! chosen dynamic occurrence, rewrites the hint's output cells with an alternative value. The run
//! must either fail in the VM or produce exactly the honest result.

use std::any::Any;
use std::collections::BTreeMap;
use std::sync::Arc;

use cairo_lang_casm::hints::{CoreHint, CoreHintBase, Hint};
use cairo_lang_casm::operand::{CellRef, ResOperand};
use cairo_lang_runner::casm_run::{self, CairoHintProcessor, StarknetHintProcessor, cell_ref_to_relocatable, get_val};
use cairo_lang_runner::{Arg, StarknetExecutionResources, StarknetState, initialize_vm};
use cairo_lang_sierra::program::Function;
use cairo_vm::hint_processor::hint_processor_definition::{HintProcessorLogic, HintReference};
use cairo_vm::serde::deserialize_program::ApTracking;
use cairo_vm::types::exec_scope::ExecutionScopes;
use cairo_vm::vm::errors::hint_errors::HintError;
use cairo_vm::vm::errors::vm_errors::VirtualMachineError;
use cairo_vm::vm::runners::cairo_runner::{ResourceTracker, RunResources};
use cairo_vm::vm::vm_core::VirtualMachine;
use num_bigint::BigUint;
use serde_json::{Value, json};
use starknet_types_core::felt::Felt as Felt252;

use crate::core::cairo::Plugins;
use crate::core::choices::{Choices, hash_str};
use crate::core::driver::{Agg, CaseCtx, Prop, Tier, Verdict, WorkerCtx, truncate};
use crate::core::exec::{self, Compiled, CompileErr, Exec, ExecErr, FrontCfg, MetaCfg};
use crate::core::panics;
use crate::oracle::value::{self, Norm};
use crate::props::execs;

pub struct C03;

/// Hint-rich corelib entry points called on directed arguments (rare hint kinds).
const CURATED: &str = "\
use core::num::traits::Sqrt;
use core::dict::{Felt252Dict, Felt252DictTrait};
use core::ec::{EcPointTrait, EcStateTrait};
fn h_sqrt256(a: u256) -> u128 {
    a.sqrt()
}
fn h_sqrt128(a: u128) -> u64 {
    a.sqrt()
}
fn h_sqrt64(a: u64) -> u32 {
    a.sqrt()
}
fn h_div256(a: u256, b: u256) -> u256 {
    if b == 0 {
        0
    } else {
        a / b + a % b
    }
}
fn h_inv(a: u256, n: u256) -> u256 {
    match n.try_into() {
        Option::Some(nz) => match core::math::u256_inv_mod(a, nz) {
            Option::Some(r) => r.into(),
            Option::None => 0,
        },
        Option::None => 1,
    }
}
fn h_mulmod(a: u256, b: u256, n: u256) -> u256 {
    match n.try_into() {
        Option::Some(nz) => core::math::u256_mul_mod_n(a, b, nz),
        Option::None => 1,
    }
}
fn h_wide(a: u128, b: u128) -> u128 {
    let (h, l) = core::integer::u128_wide_mul(a, b);
    h ^ l
}
fn h_downcast8(a: felt252) -> u8 {
    a.try_into().unwrap_or(7)
}
fn h_downcast128(a: felt252) -> u128 {
    a.try_into().unwrap_or(9)
}
fn h_downcast_i8(a: felt252) -> i8 {
    a.try_into().unwrap_or(3)
}
fn h_downcast_i64(a: felt252) -> i64 {
    a.try_into().unwrap_or(3)
}
fn h_dict(a: felt252, b: felt252, c: felt252) -> felt252 {
    let mut d: Felt252Dict<felt252> = Default::default();
    d.insert(a, 1);
    d.insert(b, 2);
    d.insert(a, 3);
    d.insert(c, 4);
    let r = d.get(a) + d.get(b);
    let _sq = d.squash();
    r
}
fn h_ec(x: felt252) -> felt252 {
    match EcPointTrait::new_nz_from_x(x) {
        Option::Some(p) => {
            let mut s = EcStateTrait::init();
            s.add_mul(5, p);
            s.add(p);
            match s.finalize_nz() {
                Option::Some(q) => q.x(),
                Option::None => 0,
            }
        },
        Option::None => 1,
    }
}
fn h_felt_div(a: felt252, b: felt252) -> felt252 {
    match b.try_into() {
        Option::Some(nz) => core::felt252_div(a, nz),
        Option::None => 0,
    }
}
fn h_u8_ops(a: u8, b: u8) -> u8 {
    let s = core::num::traits::WrappingAdd::wrapping_add(a, b);
    if b == 0 {
        s
    } else {
        s / b + s % b
    }
}
fn h_u256_mul(a: u256, b: u256) -> u256 {
    let (r, _o) = core::num::traits::OverflowingMul::overflowing_mul(a, b);
    r
}
fn h_u64_mul(a: u64, b: u64) -> u64 {
    let (r, _o) = core::num::traits::OverflowingMul::overflowing_mul(a, b);
    r
}
fn h_i32(a: i32, b: i32) -> i32 {
    let (r, _o) = core::num::traits::OverflowingAdd::overflowing_add(a, b);
    r
}
";

#[derive(Clone, Debug, PartialEq)]
pub struct Fault {
    /// Dynamic occurrence (among the eligible hints of the run).
    pub k: usize,
    /// 0..=9 single-cell faults, 10 swap, 11 / 12 numerically consistent alternative (-/+), 13 field wrap.
    pub variant: u8,
    pub cell: u8,
    pub seed: u64,
}

impl Fault {
    fn to_json(&self) -> Value {
        json!({"k": self.k, "variant": self.variant, "cell": self.cell, "seed": self.seed.to_string()})
    }
    fn from_json(v: &Value) -> Fault {
        Fault {
            k: v["k"].as_u64().unwrap_or(0) as usize,
            variant: v["variant"].as_u64().unwrap_or(0) as u8,
            cell: v["cell"].as_u64().unwrap_or(0) as u8,
            seed: v["seed"].as_str().and_then(|s| s.parse().ok()).unwrap_or(0),
        }
    }
}

pub const VARIANT_NAMES: &[&str] =
    &["v+1", "v-1", "1-v", "P-v", "0", "1", "2", "2^128", "2^128-1", "random felt", "swap two outputs", "consistent alternative (-)", "consistent alternative (+)", "field-wrap alternative ((a + P) div / mod b)"];

/// Name and output cells of an eligible hint (cell outputs a prover chooses). Pointer-producing
/// hints, memory-output hints, debug / circuit / syscall hints are not eligible (DESIGN.md).
fn outputs(h: &Hint) -> Option<(&'static str, Vec<CellRef>)> {
    let Hint::Core(CoreHintBase::Core(c)) = h else { return None };
    Some(match c {
        CoreHint::TestLessThan { dst, .. } => ("TestLessThan", vec![*dst]),
        CoreHint::TestLessThanOrEqual { dst, .. } => ("TestLessThanOrEqual", vec![*dst]),
        CoreHint::TestLessThanOrEqualAddress { dst, .. } => ("TestLessThanOrEqualAddress", vec![*dst]),
        CoreHint::WideMul128 { high, low, .. } => ("WideMul128", vec![*high, *low]),
        CoreHint::DivMod { quotient, remainder, .. } => ("DivMod", vec![*quotient, *remainder]),
        CoreHint::Uint256DivMod { quotient0, quotient1, remainder0, remainder1, .. } => ("Uint256DivMod", vec![*quotient0, *quotient1, *remainder0, *remainder1]),
        CoreHint::Uint512DivModByUint256 { quotient0, quotient1, quotient2, quotient3, remainder0, remainder1, .. } => {
            ("Uint512DivModByUint256", vec![*quotient0, *quotient1, *quotient2, *quotient3, *remainder0, *remainder1])
        }
        CoreHint::SquareRoot { dst, .. } => ("SquareRoot", vec![*dst]),
        CoreHint::Uint256SquareRoot { sqrt0, sqrt1, remainder_low, remainder_high, sqrt_mul_2_minus_remainder_ge_u128, .. } => {
            ("Uint256SquareRoot", vec![*sqrt0, *sqrt1, *remainder_low, *remainder_high, *sqrt_mul_2_minus_remainder_ge_u128])
        }
        CoreHint::LinearSplit { x, y, .. } => ("LinearSplit", vec![*x, *y]),
        CoreHint::GetSegmentArenaIndex { dict_index, .. } => ("GetSegmentArenaIndex", vec![*dict_index]),
        CoreHint::InitSquashData { big_keys, first_key, .. } => ("InitSquashData", vec![*big_keys, *first_key]),
        CoreHint::ShouldSkipSquashLoop { should_skip_loop } => ("ShouldSkipSquashLoop", vec![*should_skip_loop]),
        CoreHint::GetCurrentAccessDelta { index_delta_minus1 } => ("GetCurrentAccessDelta", vec![*index_delta_minus1]),
        CoreHint::ShouldContinueSquashLoop { should_continue } => ("ShouldContinueSquashLoop", vec![*should_continue]),
        CoreHint::GetNextDictKey { next_key } => ("GetNextDictKey", vec![*next_key]),
        CoreHint::AssertLeIsFirstArcExcluded { skip_exclude_a_flag } => ("AssertLeIsFirstArcExcluded", vec![*skip_exclude_a_flag]),
        CoreHint::AssertLeIsSecondArcExcluded { skip_exclude_b_minus_a } => ("AssertLeIsSecondArcExcluded", vec![*skip_exclude_b_minus_a]),
        CoreHint::RandomEcPoint { x, y } => ("RandomEcPoint", vec![*x, *y]),
        CoreHint::FieldSqrt { sqrt, .. } => ("FieldSqrt", vec![*sqrt]),
        CoreHint::U256InvModN { g0_or_no_inv, g1_option, s_or_r0, s_or_r1, t_or_k0, t_or_k1, .. } => {
            ("U256InvModN", vec![*g0_or_no_inv, *g1_option, *s_or_r0, *s_or_r1, *t_or_k0, *t_or_k1])
        }
        _ => return None,
    })
}

fn two128() -> Felt252 {
    Felt252::from(BigUint::from(1u8) << 128)
}

fn val(vm: &VirtualMachine, r: &ResOperand) -> Option<Felt252> {
    get_val(vm, r).ok()
}

/// The new values for the output cells (None = leave). `cur` are the honest values.
fn faulted(vm: &VirtualMachine, h: &Hint, cur: &[Felt252], f: &Fault) -> Option<Vec<Option<Felt252>>> {
    let n = cur.len();
    let mut out: Vec<Option<Felt252>> = vec![None; n];
    let one = Felt252::from(1u8);
    match f.variant {
        0..=9 => {
            let i = f.cell as usize % n;
            let v = cur[i];
            let nv = match f.variant {
                0 => v + one,
                1 => v - one,
                2 => one - v,
                3 => Felt252::from(0u8) - v,
                4 => Felt252::from(0u8),
                5 => one,
                6 => Felt252::from(2u8),
                7 => two128(),
                8 => two128() - one,
                _ => {
                    let mut z = f.seed;
                    let mut b = [0u8; 32];
                    for chunk in b.chunks_mut(8) {
                        z = crate::core::choices::mix64(z.wrapping_add(0x9e3779b97f4a7c15));
                        chunk.copy_from_slice(&z.to_le_bytes());
                    }
                    Felt252::from_bytes_le(&b)
                }
            };
            out[i] = Some(nv);
        }
        10 => {
            if n < 2 {
                return None;
            }
            let i = f.cell as usize % n;
            let j = (i + 1 + (f.seed as usize % (n - 1))) % n;
            out[i] = Some(cur[j]);
            out[j] = Some(cur[i]);
        }
        13 => {
            // The quotient / remainder of a + P: consistent in the field, not in the integers.
            let Hint::Core(CoreHintBase::Core(CoreHint::DivMod { lhs, rhs, .. })) = h else { return None };
            let (a, b) = (val(vm, lhs)?.to_biguint(), val(vm, rhs)?.to_biguint());
            if b == BigUint::from(0u8) {
                return None;
            }
            let p: BigUint = (BigUint::from(1u8) << 251) + (BigUint::from(17u8) << 192) + BigUint::from(1u8);
            let ap = a + &p;
            let (q, r) = (&ap / &b, &ap % &b);
            if q >= p {
                return None;
            }
            out[0] = Some(Felt252::from(q));
            out[1] = Some(Felt252::from(r));
        }
        _ => {
            // A numerically consistent alternative: the defining equation still holds, the
            // range condition does not.
            let minus = f.variant == 11;
            let Hint::Core(CoreHintBase::Core(c)) = h else { return None };
            let pm = |a: Felt252, b: Felt252| if minus { a - b } else { a + b };
            let mp = |a: Felt252, b: Felt252| if minus { a + b } else { a - b };
            match c {
                CoreHint::DivMod { rhs, .. } => {
                    let d = val(vm, rhs)?;
                    out[0] = Some(pm(cur[0], one));
                    out[1] = Some(mp(cur[1], d));
                }
                CoreHint::WideMul128 { .. } => {
                    out[0] = Some(pm(cur[0], one));
                    out[1] = Some(mp(cur[1], two128()));
                }
                CoreHint::LinearSplit { scalar, .. } => {
                    let s = val(vm, scalar)?;
                    out[0] = Some(pm(cur[0], one));
                    out[1] = Some(mp(cur[1], s));
                }
                CoreHint::Uint256DivMod { divisor0, divisor1, .. } => {
                    // q -= 1 (low limb), r += d limb-wise (no carry handling: limbs go out of range).
                    out[0] = Some(pm(cur[0], one));
                    out[2] = Some(mp(cur[2], val(vm, divisor0)?));
                    out[3] = Some(mp(cur[3], val(vm, divisor1)?));
                }
                CoreHint::Uint512DivModByUint256 { divisor0, divisor1, .. } => {
                    out[0] = Some(pm(cur[0], one));
                    out[4] = Some(mp(cur[4], val(vm, divisor0)?));
                    out[5] = Some(mp(cur[5], val(vm, divisor1)?));
                }
                CoreHint::FieldSqrt { .. } => out[0] = Some(Felt252::from(0u8) - cur[0]),
                CoreHint::SquareRoot { .. } => out[0] = Some(Felt252::from(0u8) - cur[0]),
                CoreHint::Uint256SquareRoot { .. } => {
                    // (s - 1)^2 + (r + 2s - 1) = s^2 + r
                    let two_s = cur[0] + cur[0];
                    out[0] = Some(pm(cur[0], one));
                    out[2] = Some(if minus { cur[2] + two_s - one } else { cur[2] - two_s - one });
                }
                CoreHint::RandomEcPoint { .. } => out[1] = Some(Felt252::from(0u8) - cur[1]),
                CoreHint::U256InvModN { .. } => {
                    out[2] = Some(pm(cur[2], one));
                }
                _ => return None,
            }
        }
    }
    Some(out)
}

pub enum Mode {
    Record,
    Inject(Fault),
}

pub struct Faulty<'a> {
    inner: CairoHintProcessor<'a>,
    mode: Mode,
    counter: usize,
    /// Record mode: the kind of every eligible occurrence.
    pub kinds: Vec<&'static str>,
    /// Inject mode: what happened at occurrence k.
    pub applied: Option<Result<String, &'static str>>,
}

impl HintProcessorLogic for Faulty<'_> {
    fn execute_hint(&mut self, vm: &mut VirtualMachine, exec_scopes: &mut ExecutionScopes, hint_data: &Box<dyn Any>) -> Result<(), HintError> {
        let hint = hint_data.downcast_ref::<Hint>().cloned();
        self.inner.execute_hint(vm, exec_scopes, hint_data)?;
        let Some(hint) = hint else { return Ok(()) };
        let Some((name, cells)) = outputs(&hint) else { return Ok(()) };
        let k = self.counter;
        self.counter += 1;
        match &self.mode {
            Mode::Record => self.kinds.push(name),
            Mode::Inject(f) if f.k == k => {
                let f = f.clone();
                let addrs: Vec<_> = cells.iter().map(|c| cell_ref_to_relocatable(c, vm)).collect();
                let cur: Option<Vec<Felt252>> = addrs.iter().map(|a| vm.get_integer(*a).ok().map(|x| *x)).collect();
                let Some(cur) = cur else {
                    self.applied = Some(Err("output cell is not a felt"));
                    return Ok(());
                };
                let Some(newv) = faulted(vm, &hint, &cur, &f) else {
                    self.applied = Some(Err("fault not applicable to this hint kind"));
                    return Ok(());
                };
                let mut changed = vec![];
                for (i, nv) in newv.iter().enumerate() {
                    if let Some(nv) = nv {
                        if *nv != cur[i] {
                            changed.push((i, *nv));
                        }
                    }
                }
                if changed.is_empty() {
                    self.applied = Some(Err("fault equals the honest value"));
                    return Ok(());
                }
                // All cells must be rewritable, otherwise nothing is touched.
                for (i, _) in &changed {
                    if vm.delete_unaccessed(addrs[*i]).is_err() {
                        // Restore what was deleted so far.
                        for (j, _) in changed.iter().take_while(|(j, _)| j != i) {
                            let _ = vm.insert_value(addrs[*j], cur[*j]);
                        }
                        self.applied = Some(Err("output cell already pinned"));
                        return Ok(());
                    }
                }
                for (i, nv) in &changed {
                    if vm.insert_value(addrs[*i], *nv).is_err() {
                        self.applied = Some(Err("rewrite refused"));
                        return Ok(());
                    }
                }
                self.applied = Some(Ok(format!("{name}: {} at occurrence {k}, cells {:?}", VARIANT_NAMES[f.variant as usize], changed.iter().map(|(i, _)| *i).collect::<Vec<_>>())));
            }
            _ => {}
        }
        Ok(())
    }

    #[allow(clippy::disallowed_types)]
    fn compile_hint(
        &self,
        hint_code: &str,
        ap_tracking_data: &ApTracking,
        reference_ids: &std::collections::HashMap<String, usize>,
        references: &[HintReference],
        accessible_scopes: &[String],
        constants: Arc<std::collections::HashMap<String, Felt252>>,
    ) -> Result<Box<dyn Any>, VirtualMachineError> {
        self.inner.compile_hint(hint_code, ap_tracking_data, reference_ids, references, accessible_scopes, constants)
    }
}

impl ResourceTracker for Faulty<'_> {
    fn consumed(&self) -> bool {
        self.inner.consumed()
    }
    fn consume_step(&mut self) {
        self.inner.consume_step()
    }
    fn get_n_steps(&self) -> Option<usize> {
        self.inner.get_n_steps()
    }
    fn run_resources(&self) -> &RunResources {
        self.inner.run_resources()
    }
}

impl StarknetHintProcessor for Faulty<'_> {
    fn take_starknet_state(&mut self) -> StarknetState {
        self.inner.take_starknet_state()
    }
    fn take_syscalls_used_resources(&mut self) -> StarknetExecutionResources {
        self.inner.take_syscalls_used_resources()
    }
}

/// Felt252 range reductions: `felt252 -> BoundedInt<L, U>` downcasts over boundary (L, U) pairs,
/// run on arguments around L, U, 2^128 and 2^128 + L (where the two range checks of the in-range
/// branch meet their limits).
pub fn range_reduction_case(ch: &mut Choices) -> execs::Case {
    use num_bigint::BigInt;
    let two128: BigInt = BigInt::from(1u8) << 128u32;
    let p: BigInt = (BigInt::from(1u8) << 251u32) + (BigInt::from(17u8) << 192u32) + BigInt::from(1u8);
    let lows: Vec<BigInt> = vec![
        BigInt::from(0),
        BigInt::from(1),
        BigInt::from(5),
        BigInt::from(1u64 << 40),
        BigInt::from(1u8) << 64u32,
        BigInt::from(1u8) << 127u32,
        BigInt::from(0xf8u8) << 120u32,
        two128.clone() - (BigInt::from(1u8) << 20u32),
        BigInt::from(-1),
        BigInt::from(-128),
        -(BigInt::from(1u8) << 127u32),
    ];
    let l = lows[ch.below(lows.len())].clone();
    let ups: Vec<BigInt> = vec![
        &l + 1,
        &l + 255,
        BigInt::from(255),
        BigInt::from(u64::MAX),
        &two128 - 2,
        &two128 - 1,
        two128.clone(),
        &two128 + 1,
        two128.clone() + (BigInt::from(1u8) << 64u32),
        l.clone() + (BigInt::from(1u8) << 100u32),
        l.clone() + (BigInt::from(1u8) << 122u32),
        BigInt::from(127),
    ];
    let mut u = ups[ch.below(ups.len())].clone();
    if u < l {
        u = &l + 3;
    }
    let mut cands: Vec<BigInt> = vec![
        &l - 1,
        l.clone(),
        &l + 1,
        &u - 1,
        u.clone(),
        &u + 1,
        &two128 - 1,
        two128.clone(),
        &two128 + 1,
        &two128 + 7,
        &two128 + &l - 1,
        &two128 + &l,
        &two128 + &u,
        BigInt::from(0),
        &p - 1,
        (&p - 1) / 2,
    ];
    for c in cands.iter_mut() {
        *c = num_integer::Integer::mod_floor(&*c, &p);
    }
    let n = 3;
    let args: Vec<Vec<Arg>> = (0..n).map(|_| vec![Arg::Value(exec::bigint_to_felt(&cands[ch.below(cands.len())]))]).collect();
    let source = format!(
        "use core::internal::bounded_int::BoundedInt;\nfn rr(a: felt252) -> felt252 {{\n    let r: Option<BoundedInt<{l}, {u}>> = a.try_into();\n    match r {{\n        Option::Some(x) => x.into(),\n        Option::None => 'none',\n    }}\n}}\n"
    );
    execs::Case {
        origin: format!("range reduction felt252 -> BoundedInt<{l}, {u}>"),
        source,
        settings: crate::core::cairo::SETTINGS_2023_01,
        func: Some("::rr".into()),
        func_choice: 0,
        gen_args: Some(args),
        arg_seeds: vec![],
        expected: None,
        generated: false,
    }
}

/// `bounded_int::div_rem(u128, NonZero<UnitInt<D>>)` for constant divisors D around the bounds where
/// the division scheme changes (2^123 + 17 * 2^64, 2^124, ..) - the libfunc's soundness argument
/// depends on which side of them D lies.
pub fn bounded_div_const_case(ch: &mut Choices) -> execs::Case {
    use num_bigint::BigInt;
    let one = BigInt::from(1u8);
    let edge: BigInt = (one.clone() << 123u32) + (BigInt::from(17u8) << 64u32);
    let ds: Vec<BigInt> = vec![
        edge.clone() - 1, edge.clone(), edge.clone() + 1, edge.clone() + (one.clone() << 100u32), (one.clone() << 124u32) - 2, (one.clone() << 124u32) - 1, one.clone() << 124u32,
        BigInt::from(2u8) * BigInt::from(10u8).pow(37), one.clone() << 123u32, one.clone() << 122u32, one.clone() << 100u32, (one.clone() << 64u32) + 1, one.clone() << 64u32,
        (one.clone() << 127u32) + 1, BigInt::from(10u8), BigInt::from(3u8),
    ];
    let d = ds[ch.below(ds.len())].clone();
    let max: BigInt = (one.clone() << 128u32) - 1;
    let qmax = &max / &d;
    let source = format!(
        "#[feature(\"bounded-int-utils\")]\nuse core::internal::bounded_int::{{self, BoundedInt, DivRemHelper, UnitInt}};\nconst D: felt252 = {d};\nconst NZ_D: NonZero<UnitInt<D>> = {d};\nimpl H of DivRemHelper<u128, UnitInt<D>> {{\n    type DivT = BoundedInt<0, {qmax}>;\n    type RemT = BoundedInt<0, {}>;\n}}\nfn dc(a: u128) -> (felt252, felt252) {{\n    let (q, r) = bounded_int::div_rem(a, NZ_D);\n    (q.into(), r.into())\n}}\n",
        d.clone() - 1
    );
    let cands: Vec<BigInt> = vec![BigInt::from(0u8), one.clone(), d.clone() - 1, d.clone(), d.clone() + 1, max.clone(), max.clone() - 1, &d * BigInt::from(6u8) + BigInt::from(12345u32), BigInt::from(ch.u128())];
    let args: Vec<Vec<Arg>> = (0..3)
        .map(|_| {
            let a = cands[ch.below(cands.len())].clone();
            let a = if a > max { max.clone() } else { a };
            vec![Arg::Value(exec::bigint_to_felt(&a))]
        })
        .collect();
    execs::Case {
        origin: format!("bounded division u128 / UnitInt<{d}>"),
        source,
        settings: crate::core::cairo::SETTINGS_2024_07,
        func: Some("::dc".into()),
        func_choice: 0,
        gen_args: Some(args),
        arg_seeds: vec![],
        expected: None,
        generated: false,
    }
}

/// `bounded_int::constrain::<T, B>` for every integer type and boundaries of both signs (the
/// under / over proofs compare against constants derived from B; added after seeded change
/// C03-r3, which weakened the proof for negative boundaries only).
pub fn bounded_constrain_case(ch: &mut Choices) -> execs::Case {
    use num_bigint::BigInt;
    let one = BigInt::from(1u8);
    let bits = *ch.pick(&[8u32, 16, 32, 64, 128]);
    let signed = ch.chance(2, 3);
    let (min, max): (BigInt, BigInt) = if signed { (-(one.clone() << (bits - 1)), (one.clone() << (bits - 1)) - 1) } else { (BigInt::from(0u8), (one.clone() << bits) - 1) };
    let tname = format!("{}{bits}", if signed { "i" } else { "u" });
    let mut bs: Vec<BigInt> = vec![one.clone(), BigInt::from(5u8), BigInt::from(100u8), max.clone(), one.clone() << (bits - 2), (one.clone() << (bits - 2)) + 1];
    if signed {
        bs.extend([BigInt::from(0u8), BigInt::from(-1), BigInt::from(-5), BigInt::from(-100), min.clone() + 1, -(one.clone() << (bits - 2)), -(one.clone() << (bits - 2)) - 1]);
    }
    let b = bs[ch.below(bs.len())].clone();
    let source = format!(
        "#[feature(\"bounded-int-utils\")]\nuse core::internal::bounded_int::{{self, BoundedInt, ConstrainHelper}};\nimpl H of ConstrainHelper<{tname}, {b}> {{\n    type LowT = BoundedInt<{min}, {}>;\n    type HighT = BoundedInt<{b}, {max}>;\n}}\nfn cn(x: {tname}) -> (felt252, felt252) {{\n    match bounded_int::constrain::<{tname}, {b}>(x) {{\n        Ok(l) => (0, l.into()),\n        Err(h) => (1, h.into()),\n    }}\n}}\n",
        b.clone() - 1
    );
    let absb = if b < BigInt::from(0u8) { -b.clone() } else { b.clone() };
    let cands: Vec<BigInt> = vec![b.clone(), b.clone() - 1, b.clone() + 1, absb.clone(), absb.clone() - 1, -absb.clone(), BigInt::from(0u8), one.clone(), -one.clone(), min.clone(), max.clone(), BigInt::from(3u8), BigInt::from(-6)];
    let args: Vec<Vec<Arg>> = (0..3)
        .map(|_| {
            let a = cands[ch.below(cands.len())].clone();
            let a = if a > max { max.clone() } else if a < min { min.clone() } else { a };
            vec![Arg::Value(exec::bigint_to_felt(&a))]
        })
        .collect();
    execs::Case {
        origin: format!("bounded constrain {tname} at {b}"),
        source,
        settings: crate::core::cairo::SETTINGS_2024_07,
        func: Some("::cn".into()),
        func_choice: 0,
        gen_args: Some(args),
        arg_seeds: vec![],
        expected: None,
        generated: false,
    }
}

pub struct RunOut {
    pub result: Result<Exec, ExecErr>,
    pub kinds: Vec<&'static str>,
    pub applied: Option<Result<String, &'static str>>,
}

pub fn run_with(c: &Compiled, func: &Function, args: &[Arg], gas: Option<usize>, mode: Mode) -> RunOut {
    let (hp, ctx) = match c.runner.prepare_starknet_context(func, args.to_vec(), gas, StarknetState::default()) {
        Ok(x) => x,
        Err(e) => return RunOut { result: Err(ExecErr::Build(format!("{e}"))), kinds: vec![], applied: None },
    };
    let gas_initial = gas.and_then(|g| c.runner.initial_required_gas(func).map(|r| g - r));
    let data_len = ctx.bytecode.len();
    let mut w = Faulty { inner: hp, mode, counter: 0, kinds: vec![], applied: None };
    let r = casm_run::run_function(ctx.bytecode.iter(), ctx.builtins, |vm| initialize_vm(vm, data_len), &mut w, ctx.hints_dict);
    let result = exec::finish(c, func, r, gas_initial);
    RunOut { result, kinds: w.kinds, applied: w.applied }
}

#[derive(Debug, PartialEq)]
pub enum Kill {
    VmFailure,
    SameResult,
    ProcessorAbort,
    NotApplied(&'static str),
}

/// Judges one fault against the honest outcome. Err = violation.
pub fn judge_fault(c: &Compiled, func: &Function, args: &[Arg], gas: Option<usize>, honest: &Norm, f: &Fault) -> Result<(Kill, String), (String, String)> {
    let r = panics::catch(|| run_with(c, func, args, gas, Mode::Inject(f.clone())));
    let out = match r {
        Ok(o) => o,
        Err(_) => return Ok((Kill::ProcessorAbort, String::new())),
    };
    let desc = match &out.applied {
        Some(Ok(d)) => d.clone(),
        Some(Err(why)) => return Ok((Kill::NotApplied(why), String::new())),
        None => return Ok((Kill::NotApplied("occurrence not reached"), String::new())),
    };
    match out.result {
        Err(_) => Ok((Kill::VmFailure, desc)),
        Ok(e) => {
            let n = value::normalize(c, func, &e);
            if n == *honest {
                Ok((Kill::SameResult, desc))
            } else if n == Norm::Undecodable {
                Ok((Kill::NotApplied("result not decodable"), desc))
            } else {
                let kind = desc.split(':').next().unwrap_or("?").to_string();
                Err((format!("hint-changes-result:{kind}"), format!("{desc}: the run succeeds with {:?} while the honest run gives {:?}", n, honest)))
            }
        }
    }
}

impl Prop for C03 {
    fn id(&self) -> &'static str {
        "C03"
    }
    fn rule(&self) -> String {
        "Programs: e2e snippet functions (libfunc-level: integer division, wide multiplication, square roots, u256 / \
         u512 division, inverse mod n, casts and range reductions, EC, dictionaries), example files, felt252 -> BoundedInt<L, U> range reductions over boundary (L, U) pairs on arguments around L, U, 2^128 and 2^128 + L, bounded_int::div_rem(u128, constant D) for D around the bounds where the division scheme changes, a curated file of hint-rich corelib calls (square roots, u256 division / inverse / mul-mod, wide multiplication, felt downcasts, dictionary squash, EC, felt division) and \
         generated typed programs, with arguments directed by the Sierra parameter types. The honest run records every \
         dynamic occurrence of a hint whose outputs are cells a prover chooses (23 kinds: TestLessThan*, WideMul128, \
         DivMod, Uint256DivMod, Uint512DivModByUint256, SquareRoot, Uint256SquareRoot, LinearSplit, \
         GetSegmentArenaIndex, InitSquashData, ShouldSkipSquashLoop, GetCurrentAccessDelta, \
         ShouldContinueSquashLoop, GetNextDictKey, AssertLeIs{First,Second}ArcExcluded, RandomEcPoint, FieldSqrt, \
         U256InvModN). Faults, drawn kind-first over the kinds present: at one occurrence, after the honest hint \
         ran, one output cell := v+1, v-1, 1-v, P-v, 0, 1, 2, 2^128, 2^128-1, a random felt; two outputs swapped; \
         numerically consistent but out-of-range alternatives ((q-+1, r+-d) for divisions, (hi-+1, lo+-2^128), \
         (x-+1, y+-scalar), the other square root, the mirrored curve point, (s-+1, rem+-(2s-+1)); for DivMod also the quotient / remainder of a + P). The rewrite uses \
         delete_unaccessed + insert_value; a cell already pinned leaves the fault unapplied (counted). Oracle: the \
         faulted run fails in the VM, or its pointer-aware normalised result equals the honest one; a panic of \
         the honest hint code after the divergence counts as rejection. Non-trivial = an applied fault; distinct = \
         hash(program, function, arguments, fault)."
            .into()
    }
    fn assumptions(&self) -> Vec<String> {
        vec![
            "pointer-producing hints (AllocSegment, AllocFelt252Dict, AllocConstantSize), hints whose outputs are memory cells in builtin or dictionary segments (Felt252DictEntryInit, GetCurrentAccessIndex, AssertLeFindSmallArcs), DebugPrint, EvalCircuit, deprecated hints, syscalls and cheatcodes are not faulted: aliasing segments needs a memory model this harness does not have, and cairo-vm validates a builtin cell only on first write".into(),
            "gas differences between the honest and the faulted run are not violations (the statement is about what the program computes)".into(),
        ]
    }
    fn worker(&self, ctx: &mut WorkerCtx) {
        let snippets = execs::load_snippets();
        let curated = vec![execs::Snippet { origin: "curated hint-rich corelib calls".into(), code: CURATED.to_string(), settings: crate::core::cairo::SETTINGS_2024_07 }];
        let cases = ctx.tier.pick(30, 500);
        let per_case = ctx.tier.pick(10usize, 40);
        ctx.shrink_iters = 100;
        let mut db = FrontCfg::default_cfg().new_db(Plugins::Default);
        let mut n = 0u64;
        ctx.run_shards(1400, cases, |cc: &mut CaseCtx<'_>, ch: &mut Choices| {
            n += 1;
            if n % 50 == 0 {
                db = FrontCfg::default_cfg().new_db(Plugins::Default);
            }
            // Fault choices first (choice starvation).
            let plan: Vec<(u32, u32, u8, u8, u64)> = (0..per_case).map(|_| (ch.next(), ch.next(), ch.below(14) as u8, ch.below(6) as u8, ch.u64())).collect();
            let case = match ch.weighted(&[2, 3, 5, 1, 1]) {
                0 => range_reduction_case(ch),
                3 => bounded_div_const_case(ch),
                4 => bounded_constrain_case(ch),
                1 => execs::pick_case(ch, &curated, 0, 3),
                _ => execs::pick_case(ch, &snippets, 3, 2),
            };
            if case.origin.starts_with("bounded division") {
                cc.stats().count("bounded_division_cases");
            }
            if case.origin.starts_with("bounded constrain") {
                cc.stats().count("bounded_constrain_cases");
            }
            if case.origin.starts_with("range reduction") {
                cc.stats().count("range_reduction_cases");
            }
            let cfg = FrontCfg::default_cfg();
            let meta = MetaCfg::linear();
            let c = match execs::compile_case(&mut db, &case, &cfg, meta) {
                Ok(c) => c,
                Err(CompileErr::Diagnostics(_)) => return Verdict::Skip("does not compile standalone"),
                Err(_) => return Verdict::Skip("compile failure (C08)"),
            };
            let Some((f, args_list)) = execs::resolve(&case, &c) else { return Verdict::Skip("no runnable function") };
            let gas = Some(execs::BIG_GAS);
            for args in &args_list {
                let honest = match panics::catch(|| run_with(&c, &f, args, gas, Mode::Record)) {
                    Ok(o) => o,
                    Err(_) => continue,
                };
                let Ok(he) = &honest.result else {
                    cc.stats().count("honest_run_fails(C02)");
                    continue;
                };
                let hn = value::normalize(&c, &f, he);
                if hn == Norm::Undecodable {
                    cc.stats().count("honest_result_undecodable");
                    continue;
                }
                if honest.kinds.is_empty() {
                    cc.stats().count("runs_without_eligible_hints");
                    continue;
                }
                cc.stats().count("honest_runs_with_hints");
                cc.stats().add("eligible_hint_occurrences", honest.kinds.len() as u64);
                let mut by_kind: BTreeMap<&'static str, Vec<usize>> = BTreeMap::new();
                for (k, name) in honest.kinds.iter().enumerate() {
                    by_kind.entry(name).or_default().push(k);
                }
                let kinds: Vec<&'static str> = by_kind.keys().copied().collect();
                for (a, b, variant, cell, seed) in &plan {
                    let kind: &'static str = kinds[(*a as usize) % kinds.len()];
                    let occ = &by_kind[kind];
                    let k = occ[(*b as usize) % occ.len()];
                    let fault = Fault { k, variant: *variant, cell: *cell, seed: *seed };
                    let mut art = execs::artefact(&case, &f, args, &cfg, meta, gas);
                    art["fault"] = fault.to_json();
                    cc.start(|| art.clone());
                    match judge_fault(&c, &f, args, gas, &hn, &fault) {
                        Ok((kill, desc)) => {
                            let st = cc.stats();
                            st.eval();
                            match kill {
                                Kill::VmFailure => {
                                    st.count("killed:vm_failure");
                                    st.count(&format!("applied:{kind}"));
                                    st.nontrivial(hash_str(&art.to_string()));
                                }
                                Kill::SameResult => {
                                    st.count("killed:same_result");
                                    st.count(&format!("applied:{kind}"));
                                    st.count(&format!("same_result:{kind}"));
                                    st.nontrivial(hash_str(&art.to_string()));
                                }
                                Kill::ProcessorAbort => {
                                    st.count("killed:processor_abort");
                                    st.count(&format!("applied:{kind}"));
                                }
                                Kill::NotApplied(why) => st.count(&format!("not_applied:{why}")),
                            }
                            if !desc.is_empty() {
                                st.sample(1, || json!({"origin": case.origin, "function": f.id.debug_name.as_ref().map(|s| s.to_string()), "fault": desc}));
                            }
                        }
                        Err((sig, what)) => return Verdict::fail(sig, what, art),
                    }
                }
            }
            Verdict::Pass
        });
    }
    fn replay(&self, a: &Value) -> Verdict {
        let Ok((c, f, args, gas)) = execs::from_artefact(a) else { return Verdict::Skip("does not compile") };
        let fault = Fault::from_json(&a["fault"]);
        let honest = run_with(&c, &f, &args, gas, Mode::Record);
        let Ok(he) = &honest.result else { return Verdict::Skip("honest run fails") };
        let hn = value::normalize(&c, &f, he);
        if hn == Norm::Undecodable {
            return Verdict::Skip("undecodable");
        }
        match judge_fault(&c, &f, &args, gas, &hn, &fault) {
            Ok(_) => Verdict::Pass,
            Err((sig, what)) => Verdict::fail(sig, truncate(&what, 1500), a.clone()),
        }
    }
    fn health(&self, _tier: Tier, agg: &Agg) -> Result<(), String> {
        let applied = agg.class("killed:vm_failure") + agg.class("killed:same_result") + agg.class("killed:processor_abort");
        if applied * 3 < agg.evaluations {
            return Err("fewer than a third of the faults could be applied".into());
        }
        let kinds = agg.classes.keys().filter(|k| k.starts_with("applied:")).count();
        if kinds < 8 {
            return Err(format!("faults were applied to only {kinds} hint kinds"));
        }
        Ok(())
    }
}
