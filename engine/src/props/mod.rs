use crate::core::driver::Prop;

pub mod c01;
pub mod c02;
pub mod c03;
pub mod c04;
pub mod c05;
pub mod c06;
pub mod c07;
pub mod c08;
pub mod c17;
pub mod c18;
pub mod c19;
pub mod c20;
pub mod execs;
pub mod c09;
pub mod c10;
pub mod c11;
pub mod c12;
pub mod c13;
pub mod c14;
pub mod c15;
pub mod c16;

pub fn all() -> Vec<Box<dyn Prop>> {
    vec![Box::new(c01::C01), Box::new(c02::C02), Box::new(c04::C04), Box::new(c05::C05), Box::new(c06::C06), Box::new(c07::C07), Box::new(c17::C17), Box::new(c18::C18), Box::new(c09::C09), Box::new(c10::C10), Box::new(c11::C11), Box::new(c14::C14), Box::new(c15::C15), Box::new(c16::C16), Box::new(c08::C08), Box::new(c13::C13), Box::new(c12::C12), Box::new(c20::C20), Box::new(c19::C19), Box::new(c03::C03)]
}

/// Developer utilities (`verif dbg <what> ...`).
pub fn debug_cmd(args: &[String]) {
    match args.first().map(|s| s.as_str()) {
        Some("tree") => {
            use cairo_lang_parser::utils::SimpleParserDatabase;
            use cairo_lang_syntax::node::green::GreenNodeDetails;
            let text = args[1].replace("\\n", "\n");
            let db = SimpleParserDatabase::default();
            let (root, diags) = db.parse_virtual_with_diagnostics(&text);
            fn rec(db: &SimpleParserDatabase, n: cairo_lang_syntax::node::SyntaxNode<'_>, d: usize) {
                let g = n.green_node(db);
                match &g.details {
                    GreenNodeDetails::Token(t) => println!("{}{:?} @{} w{} {:?}", "  ".repeat(d), n.kind(db), n.offset(db).as_u32(), n.width(db).as_u32(), t.long(db)),
                    GreenNodeDetails::Node { .. } => {
                        println!("{}{:?} @{} w{}", "  ".repeat(d), n.kind(db), n.offset(db).as_u32(), n.width(db).as_u32());
                        for c in n.get_children(db) {
                            rec(db, *c, d + 1);
                        }
                    }
                }
            }
            rec(&db, root, 0);
            println!("{}", diags.format(&db));
        }
        Some("diag") => {
            // dbg diag <file> [2023_01]
            let src = std::fs::read_to_string(&args[1]).unwrap();
            let settings = if args.get(2).map(|s| s.as_str()) == Some("2023_01") { crate::core::cairo::SETTINGS_2023_01 } else { crate::core::cairo::SETTINGS_2024_07 };
            let db = crate::core::exec::FrontCfg::default_cfg().new_db(crate::core::cairo::Plugins::Default);
            let input = crate::core::cairo::virtual_crate_input("test", &src, settings, None);
            let (d, e) = crate::core::cairo::diagnostics_string(&db, &input);
            println!("diagnostics found={e}:\n{d}");
            match c08::front(&db, "test", &src, settings) {
                Ok(c08::Front::Rejected(_)) => println!("front: rejected"),
                Ok(c08::Front::Program(p)) => {
                    if std::env::var("VERIF_PRINT_SIERRA").is_ok() {
                        println!("{p}");
                    }
                    println!("front: program with {} statements; back: {:?}", p.statements.len(), c08::back(&p))
                }
                Err(e) => println!("front: VIOLATION {e:?}"),
            }
        }
        Some("run") => {
            // dbg run <file>: compiles under the default and the unoptimised configuration and runs `main()`.
            let src = std::fs::read_to_string(&args[1]).unwrap();
            for cfg in [crate::core::exec::FrontCfg::default_cfg(), crate::core::exec::FrontCfg { optimizations: false, inlining: 0, skip_const_folding: true, match_threshold: None }] {
                let db = cfg.new_db(crate::core::cairo::Plugins::Default);
                match crate::core::exec::compile_source(&db, "test", &src, crate::core::exec::MetaCfg::linear()) {
                    Ok(c) => {
                        let f = c.runner.find_function("::main").unwrap().clone();
                        match crate::core::exec::run(&c, &f, vec![], Some(execs::BIG_GAS)) {
                            Ok(e) => println!("[{}] -> {:?}", cfg.describe(), e.value),
                            Err(e) => println!("[{}] run error {:?}", cfg.describe(), e),
                        }
                    }
                    Err(e) => println!("[{}] compile error {:?}", cfg.describe(), e),
                }
            }
        }
        Some("c20lib") => {
            let mut ch = crate::core::choices::Choices::new((0..3000u32).map(|i| i.wrapping_mul(2654435761) >> 7).collect());
            let mut pc = c01::gen_case(&mut ch, 0);
            pc.source = pc.source.replace("\nfn main(", "\npub fn main(");
            let dep = c20::dependent_of(&pc, "libx1");
            println!("{dep}");
            let cfg = crate::core::exec::FrontCfg::default_cfg();
            println!("{:?}", c20::judge_lib(&pc.source, &dep, "libx1", &cfg, false).map(|(o, n)| (o.diagnostics, o.sierra.map(|s| s.len()), n)));
        }
        Some("elide") => {
            // dbg elide <file>: every store elision of `main(100, 7)`.
            let src = std::fs::read_to_string(&args[1]).unwrap();
            let cfg = crate::core::exec::FrontCfg::default_cfg();
            let db = cfg.new_db(crate::core::cairo::Plugins::Default);
            let meta = crate::core::exec::MetaCfg::linear();
            let c = crate::core::exec::compile_source(&db, "test", &src, meta).unwrap();
            let f = c.runner.find_function("::main").unwrap().clone();
            let a = vec![cairo_lang_runner::Arg::Value(100.into()), cairo_lang_runner::Arg::Value(7.into())];
            let e = crate::core::exec::run(&c, &f, a.clone(), Some(execs::BIG_GAS)).unwrap();
            let honest = crate::oracle::value::normalize(&c, &f, &e);
            println!("honest {honest:?}\n{}", c.builder.sierra_program());
            for idx in c17::store_positions(c.builder.sierra_program()) {
                let r = match c17::judge_elision(&c, &f, &a, Some(execs::BIG_GAS), meta, &honest, idx) {
                    c17::Elision::Rejected => "rejected".to_string(),
                    c17::Elision::Same => "same".to_string(),
                    c17::Elision::Differs(s, w) => format!("{s}: {w}"),
                };
                println!("elide {idx}: {r}");
            }
        }
        Some("c13") => {
            // dbg c13 <replay.json>: prints incremental and fresh diagnostics of the last step.
            let v: serde_json::Value = serde_json::from_str(&std::fs::read_to_string(&args[1]).unwrap()).unwrap();
            let a = if v.get("artefact").is_some() { v["artefact"].clone() } else { v };
            let steps = a["steps"].as_array().unwrap();
            let mut sut = c13::Sut::new();
            let mut last = [None, None];
            for st in steps {
                let c = [st["lib"].as_str().map(|s| s.to_string()), st["m"].as_str().map(|s| s.to_string())];
                for (i, f) in ["lib.cairo", "m.cairo"].iter().enumerate() {
                    if c[i] != last[i] {
                        sut.set(f, c[i].as_deref());
                    }
                }
                last = c;
                if st["query"].as_str() != Some("None") {
                    let _ = sut.observe(st["query"].as_str() == Some("Sierra"));
                }
            }
            let inc = sut.observe(true).unwrap();
            let mut fresh = c13::Sut::new();
            for (i, f) in ["lib.cairo", "m.cairo"].iter().enumerate() {
                if let Some(c) = &last[i] {
                    fresh.set(f, Some(c));
                }
            }
            let fr = fresh.observe(true).unwrap();
            std::fs::write("/tmp/c13_inc.txt", &inc.0).unwrap();
            std::fs::write("/tmp/c13_fresh.txt", &fr.0).unwrap();
            println!("equal: {}", inc.0 == fr.0);
        }
        Some("c14felts") => {
            c14::debug_felts();
        }
        Some("cfg") => {
            use crate::core::exec::{FrontCfg, MetaCfg};
            let src = std::fs::read_to_string(&args[1]).unwrap();
            let mut db = FrontCfg::default_cfg().new_db(crate::core::cairo::Plugins::Default);
            let mut cfgs = vec![FrontCfg::default_cfg()];
            cfgs.push(FrontCfg { optimizations: false, inlining: 0, skip_const_folding: true, match_threshold: None });
            cfgs.push(FrontCfg { optimizations: true, inlining: 1, skip_const_folding: false, match_threshold: None });
            cfgs.push(FrontCfg { optimizations: true, inlining: 202, skip_const_folding: true, match_threshold: Some(1) });
            cfgs.push(FrontCfg::default_cfg());
            for c in cfgs {
                c.apply(&mut db);
                let input = crate::core::cairo::virtual_crate_input("x", &src, crate::core::cairo::SETTINGS_2024_07, None);
                match crate::core::exec::sierra_of_crate(&db, &input) {
                    Ok(p) => println!("{} -> {} statements, hash {:x}", c.describe(), p.statements.len(), crate::core::choices::hash_str(&p.to_string())),
                    Err(e) => println!("{} -> error {}", c.describe(), &e[..e.len().min(3000)]),
                }
                let _ = MetaCfg::linear();
            }
        }
        Some("c18") => {
            // dbg c18 <file.cairo> [2023_01]: all C18 round trips of the compiled file.
            let src = std::fs::read_to_string(&args[1]).unwrap();
            let settings = if args.get(2).map(|s| s.as_str()) == Some("2023_01") { crate::core::cairo::SETTINGS_2023_01 } else { crate::core::cairo::SETTINGS_2024_07 };
            println!("{:?}", c18::debug_file(&src, settings));
        }
        Some("c14count") => {
            // dbg c14count: size of the enumerated mutant space (mutants, mutants x statements) per tier.
            for (name, max_stmts, thin) in [("quick", 400usize, 3usize), ("thorough", 3000, 1), ("thorough-1500", 1500, 1), ("thorough-1000", 1000, 1)] {
                let corpus = crate::core::sierra::load_corpus(max_stmts);
                let (mut n, mut w) = (0u64, 0u64);
                for it in &corpus {
                    let k = crate::gens::sierramut::enumerate(&it.program, thin).len() as u64;
                    n += k;
                    w += k * it.program.statements.len() as u64;
                }
                println!("{name}: programs {} mutants {n} work {w}", corpus.len());
            }
        }
        Some("bl") => {
            // dbg bl: every operation x shape of gens/builtin_loops compiles, runs and passes the gas check.
            use crate::gens::builtin_loops as bl;
            let db = crate::core::exec::FrontCfg::default_cfg().new_db(crate::core::cairo::Plugins::Default);
            for k in 0..bl::N_OPS {
                for shape in 0..6 {
                    let mut ch = crate::core::choices::Choices::new(vec![k as u32 * 7919 + shape as u32; 8]);
                    let p = bl::build(&mut ch, shape, vec![k]);
                    let meta = crate::core::exec::MetaCfg::linear();
                    match crate::core::exec::compile_source(&db, &format!("bl{k}x{shape}"), &p.source, meta) {
                        Err(e) => {
                            println!("op {} shape {shape}: DOES NOT COMPILE\n{}\n{}", bl::OP_NAMES[k], &format!("{e:?}")[..1500.min(format!("{e:?}").len())], p.source);
                            break;
                        }
                        Ok(c) => {
                            let f = c.runner.find_function("::run").unwrap().clone();
                            let a = vec![cairo_lang_runner::Arg::Value(7.into()), cairo_lang_runner::Arg::Value(5.into())];
                            match crate::core::exec::run(&c, &f, a, Some(execs::BIG_GAS)) {
                                Ok(e) => println!(
                                    "op {} shape {shape}: {:?} builtins {:?} gas {:?}",
                                    bl::OP_NAMES[k],
                                    match &e.value { cairo_lang_runner::RunResultValue::Success(v) => format!("ok {}", v.len()), cairo_lang_runner::RunResultValue::Panic(d) => format!("panic {d:?}") },
                                    e.resources.builtin_instance_counter,
                                    crate::oracle::trace::check_gas(&e, execs::BIG_GAS).map(|r| r.map(|x| x.slack).map_err(|(_, m)| m))
                                ),
                                Err(e) => println!("op {} shape {shape}: RUN ERROR {e:?}", bl::OP_NAMES[k]),
                            }
                        }
                    }
                }
            }
        }
        Some("rare") => {
            let db = cairo_lang_parser::utils::SimpleParserDatabase::default();
            for (i, item) in crate::gens::rare::RARE_ITEMS.iter().enumerate() {
                if let Err(d) = crate::oracle::fmt::lex(&db, item) {
                    println!("--- item {i}: {}\n{}", item.trim(), d.lines().take(6).collect::<Vec<_>>().join("\n"));
                }
            }
        }
        Some("fmt") => {
            let v: serde_json::Value = serde_json::from_str(&std::fs::read_to_string(&args[1]).unwrap()).unwrap();
            let art = v.get("artefact").cloned().unwrap_or(v);
            c11::debug_fmt(&art);
        }
        _ => eprintln!("dbg: tree <text> | fmt <artefact.json>"),
    }
}
