//! C17 — static ap-change metadata equals run-time ap movement; statement ranges tile the code.

use serde_json::{Value, json};

use crate::core::cairo::Plugins;
use crate::core::choices::{Choices, hash_str};
use crate::core::driver::{Agg, CaseCtx, Prop, Tier, Verdict, WorkerCtx};
use crate::core::exec::{FrontCfg, MetaCfg};
use crate::oracle::trace;
use crate::props::execs;

pub struct C17;

/// Positions of `store_temp` / `store_local` statements (candidates for elision), ordered by how
/// likely the stored value is a *deferred* expression: stores of values produced by felt252
/// arithmetic first (locals before temporaries), then the other locals, then the other temporaries.
pub fn store_positions(p: &cairo_lang_sierra::program::Program) -> Vec<usize> {
    use cairo_lang_sierra::program::Statement;
    let generic: std::collections::HashMap<u64, &str> = p.libfunc_declarations.iter().map(|d| (d.id.id, d.long_id.generic_id.0.as_str())).collect();
    // Variables produced by deferred arithmetic (per whole program: variable ids are per function,
    // a collision only changes the ordering).
    let mut deferred: std::collections::HashSet<u64> = Default::default();
    for s in &p.statements {
        if let Statement::Invocation(inv) = s {
            if matches!(generic.get(&inv.libfunc_id.id), Some(g) if g.starts_with("felt252_add") || g.starts_with("felt252_sub") || g.starts_with("felt252_mul") || g.starts_with("bounded_int_add") || g.starts_with("bounded_int_sub") || g.starts_with("bounded_int_mul")) {
                for b in &inv.branches {
                    for r in &b.results {
                        deferred.insert(r.id);
                    }
                }
            }
        }
    }
    let mut ranked: Vec<(u8, usize)> = vec![];
    for (i, s) in p.statements.iter().enumerate() {
        if let Statement::Invocation(inv) = s {
            let g = generic.get(&inv.libfunc_id.id).copied().unwrap_or("");
            let local = g == "store_local";
            if !(local || g == "store_temp") {
                continue;
            }
            let input = if local { inv.args.get(1) } else { inv.args.first() };
            let d = input.map(|v| deferred.contains(&v.id)).unwrap_or(false);
            ranked.push((match (d, local) { (true, true) => 0, (true, false) => 2, (false, true) => 1, (false, false) => 3 }, i));
        }
    }
    ranked.sort();
    ranked.into_iter().map(|(_, i)| i).collect()
}

fn libfunc_id_for(
    q: &mut cairo_lang_sierra::program::Program,
    generic: &str,
    args: Vec<cairo_lang_sierra::program::GenericArg>,
) -> cairo_lang_sierra::ids::ConcreteLibfuncId {
    use cairo_lang_sierra::ids::ConcreteLibfuncId;
    use cairo_lang_sierra::program::{ConcreteLibfuncLongId, LibfuncDeclaration};
    if let Some(d) = q.libfunc_declarations.iter().find(|d| d.long_id.generic_id.0 == generic && d.long_id.generic_args == args) {
        return d.id.clone();
    }
    let long_id = ConcreteLibfuncLongId { generic_id: generic.into(), generic_args: args };
    let id = ConcreteLibfuncId::from_string(format!("{long_id}"));
    q.libfunc_declarations.push(LibfuncDeclaration { id: id.clone(), long_id });
    id
}

/// The program with the store at `idx` elided: `store_temp<T>(x) -> (y)` becomes `rename<T>(x) -> (y)`;
/// `store_local<T>(loc, x) -> (y)` becomes `drop<Uninitialized<T>>(loc); rename<T>(x) -> (y)`. The
/// value is the same, but it is no longer materialised - whatever reference expression it had (a
/// deferred operation over ap-based cells, ..) must stay valid until its use, or the compiler must
/// refuse the program.
pub fn elide_store(p: &cairo_lang_sierra::program::Program, idx: usize) -> Option<cairo_lang_sierra::program::Program> {
    use cairo_lang_sierra::program::{BranchInfo, BranchTarget, GenericArg, Invocation, Statement, StatementIdx};
    let mut q = p.clone();
    let Statement::Invocation(inv) = p.statements.get(idx)? else { return None };
    let decl = p.libfunc_declarations.iter().find(|d| d.id == inv.libfunc_id)?;
    let args = decl.long_id.generic_args.clone();
    let rename = libfunc_id_for(&mut q, "rename", args.clone());
    if decl.long_id.generic_id.0 == "store_temp" {
        let Statement::Invocation(m) = q.statements.get_mut(idx)? else { return None };
        m.libfunc_id = rename;
        return Some(q);
    }
    // store_local: two statements replace one.
    let GenericArg::Type(t) = args.first()? else { return None };
    let uninit = p.type_declarations.iter().find(|d| d.long_id.generic_id.0 == "Uninitialized" && d.long_id.generic_args == vec![GenericArg::Type(t.clone())])?.id.clone();
    let drop = libfunc_id_for(&mut q, "drop", vec![GenericArg::Type(uninit)]);
    if inv.args.len() != 2 || inv.branches.len() != 1 {
        return None;
    }
    let drop_stmt = Statement::Invocation(Invocation {
        libfunc_id: drop,
        args: vec![inv.args[0].clone()],
        branches: vec![BranchInfo { target: BranchTarget::Fallthrough, results: vec![] }],
    });
    let rename_stmt = Statement::Invocation(Invocation { libfunc_id: rename, args: vec![inv.args[1].clone()], branches: inv.branches.clone() });
    q.statements[idx] = drop_stmt;
    q.statements.insert(idx + 1, rename_stmt);
    // Everything after idx moved down by one.
    for (i, s) in q.statements.iter_mut().enumerate() {
        if i == idx + 1 {
            // The rename keeps the original branches: their absolute targets shift as well.
        }
        if let Statement::Invocation(m) = s {
            for b in m.branches.iter_mut() {
                if let BranchTarget::Statement(StatementIdx(t)) = &mut b.target {
                    if *t > idx {
                        *t += 1;
                    }
                }
            }
        }
    }
    for f in q.funcs.iter_mut() {
        if f.entry_point.0 > idx {
            f.entry_point = StatementIdx(f.entry_point.0 + 1);
        }
    }
    Some(q)
}

// ---- generated Sierra data-flow programs ----------------------------------------------------------

const SUM_TO: &str = "\
disable_ap_tracking() -> ();
dup<felt252>([0]) -> ([0], [1]);
felt252_is_zero([1]) { fallthrough() 8([2]) };
branch_align() -> ();
drop<felt252>([0]) -> ();
felt252_const<0>() -> ([3]);
store_temp<felt252>([3]) -> ([3]);
return([3]);
branch_align() -> ();
drop<NonZero<felt252>>([2]) -> ();
dup<felt252>([0]) -> ([0], [4]);
felt252_const<1>() -> ([5]);
felt252_sub([4], [5]) -> ([6]);
store_temp<felt252>([6]) -> ([6]);
function_call<user@sum_to>([6]) -> ([7]);
felt252_add([0], [7]) -> ([8]);
store_temp<felt252>([8]) -> ([8]);
return([8]);
";

/// A hand-written-style Sierra program: `main(a, b)` is a random data flow over felt252 values
/// (constants, dup, add / sub / mul, optional store_temp, drops) with calls to the recursive
/// `sum_to` (a call with unknown ap change) in between, so that deferred and temporary values
/// are alive across calls. Returns (program text, reference value of main(a, b)).
pub fn gen_dataflow(ch: &mut Choices, a: &num_bigint::BigInt, b: &num_bigint::BigInt) -> (String, num_bigint::BigInt) {
    use num_bigint::BigInt;
    use num_integer::Integer;
    let p = crate::gens::prog::prime();
    let mut body = String::new();
    let mut live: Vec<(u64, BigInt)> = vec![(0, a.mod_floor(&p)), (1, b.mod_floor(&p))];
    let mut next = 2u64;
    let mut consts: std::collections::BTreeSet<u64> = Default::default();
    let n = 4 + ch.below(10);
    let mut calls = 0;
    for _ in 0..n {
        match ch.weighted(&[2, 3, 5, 3, 2, 1]) {
            0 => {
                let k = ch.below(9) as u64;
                consts.insert(k);
                body.push_str(&format!("felt252_const<{k}>() -> ([{next}]);\n"));
                live.push((next, BigInt::from(k)));
                next += 1;
            }
            1 => {
                let i = ch.below(live.len());
                let (v, x) = live[i].clone();
                body.push_str(&format!("dup<felt252>([{v}]) -> ([{v}], [{next}]);\n"));
                live.push((next, x));
                next += 1;
            }
            2 if live.len() >= 2 => {
                let i = ch.below(live.len());
                let (va, xa) = live.remove(i);
                let j = ch.below(live.len());
                let (vb, xb) = live.remove(j);
                let (op, r) = match ch.below(3) {
                    0 => ("felt252_add", (&xa + &xb).mod_floor(&p)),
                    1 => ("felt252_sub", (&xa - &xb).mod_floor(&p)),
                    _ => ("felt252_mul", (&xa * &xb).mod_floor(&p)),
                };
                body.push_str(&format!("{op}([{va}], [{vb}]) -> ([{next}]);\n"));
                live.push((next, r));
                next += 1;
            }
            3 => {
                let i = ch.below(live.len());
                let v = live[i].0;
                body.push_str(&format!("store_temp<felt252>([{v}]) -> ([{v}]);\n"));
            }
            4 if calls < 3 => {
                calls += 1;
                let k = ch.below(5) as u64;
                consts.insert(k);
                body.push_str(&format!("felt252_const<{k}>() -> ([{next}]);\nstore_temp<felt252>([{next}]) -> ([{next}]);\nfunction_call<user@sum_to>([{next}]) -> ([{}]);\n", next + 1));
                live.push((next + 1, BigInt::from(k * (k + 1) / 2)));
                next += 2;
            }
            _ if live.len() >= 2 => {
                let i = ch.below(live.len());
                let (v, _) = live.remove(i);
                body.push_str(&format!("drop<felt252>([{v}]) -> ();\n"));
            }
            _ => {}
        }
    }
    // Fold what is left into one value.
    while live.len() >= 2 {
        let (va, xa) = live.remove(0);
        let (vb, xb) = live.remove(0);
        if ch.chance(1, 3) {
            body.push_str(&format!("store_temp<felt252>([{va}]) -> ([{va}]);\n"));
        }
        body.push_str(&format!("felt252_add([{va}], [{vb}]) -> ([{next}]);\n"));
        live.insert(0, (next, (&xa + &xb).mod_floor(&p)));
        next += 1;
    }
    let (v, x) = live[0].clone();
    body.push_str(&format!("store_temp<felt252>([{v}]) -> ([{v}]);\nreturn([{v}]);\n"));
    consts.insert(0);
    consts.insert(1);
    let mut text = String::from(
        "type felt252 = felt252 [storable: true, drop: true, dup: true, zero_sized: false];\ntype NonZero<felt252> = NonZero<felt252> [storable: true, drop: true, dup: true, zero_sized: false];\n\nlibfunc disable_ap_tracking = disable_ap_tracking;\nlibfunc dup<felt252> = dup<felt252>;\nlibfunc felt252_is_zero = felt252_is_zero;\nlibfunc branch_align = branch_align;\nlibfunc drop<felt252> = drop<felt252>;\nlibfunc store_temp<felt252> = store_temp<felt252>;\nlibfunc drop<NonZero<felt252>> = drop<NonZero<felt252>>;\nlibfunc felt252_sub = felt252_sub;\nlibfunc felt252_add = felt252_add;\nlibfunc felt252_mul = felt252_mul;\nlibfunc function_call<user@sum_to> = function_call<user@sum_to>;\n",
    );
    for k in &consts {
        text.push_str(&format!("libfunc felt252_const<{k}> = felt252_const<{k}>;\n"));
    }
    text.push('\n');
    text.push_str(SUM_TO);
    text.push_str(&body);
    text.push_str("\nsum_to@0([0]: felt252) -> (felt252);\nmain@18([0]: felt252, [1]: felt252) -> (felt252);\n");
    (text, x)
}

/// Ok(Some(true)) accepted and equal, Ok(Some(false)) rejected, Err = violation.
pub fn judge_dataflow(text: &str, a: &num_bigint::BigInt, b: &num_bigint::BigInt, want: &num_bigint::BigInt) -> Result<Option<bool>, (String, String)> {
    use cairo_lang_runner::{Arg, RunResultValue, SierraCasmRunner};
    let Some(program) = crate::core::sierra::parse(text) else { return Ok(None) };
    let runner = match crate::core::panics::catch(|| SierraCasmRunner::new(program, None, Default::default(), None)) {
        Ok(Ok(r)) => r,
        Ok(Err(_)) => return Ok(Some(false)),
        Err(_) => return Ok(None), // panics on untrusted Sierra are C14's subject
    };
    let Ok(f) = runner.find_function("main") else { return Ok(None) };
    let args = vec![Arg::Value(crate::core::exec::bigint_to_felt(a)), Arg::Value(crate::core::exec::bigint_to_felt(b))];
    match crate::core::panics::catch(|| runner.run_function_with_starknet_context(f, args, None, Default::default())) {
        Ok(Ok(r)) => match r.value {
            RunResultValue::Success(v) if v.len() == 1 => {
                let got = crate::core::exec::felt_to_bigint(&v[0]);
                if got == *want {
                    Ok(Some(true))
                } else {
                    Err(("accepted-sierra-computes-wrong-value".into(), format!("the compiler accepts the program but main({a}, {b}) returns {got}; its data flow prescribes {want} (a value did not stay reachable across a call)")))
                }
            }
            other => Err(("accepted-sierra-unexpected-result".into(), format!("main returns {other:?}"))),
        },
        Ok(Err(e)) => Err(("accepted-sierra-run-fails".into(), format!("the compiler accepts the program but the run fails: {}", crate::core::driver::truncate(&format!("{e}"), 200)))),
        Err(_) => Ok(None),
    }
}

pub enum Elision {
    Rejected,
    Same,
    /// (signature, description)
    Differs(String, String),
}

/// Compiles and runs one store-elision mutant and compares with the original's result.
pub fn judge_elision(
    c: &crate::core::exec::Compiled,
    f: &cairo_lang_sierra::program::Function,
    args: &[cairo_lang_runner::Arg],
    gas: Option<usize>,
    meta: MetaCfg,
    honest: &crate::oracle::value::Norm,
    idx: usize,
) -> Elision {
    use crate::oracle::value::{self, Norm};
    let Some(q) = elide_store(c.builder.sierra_program(), idx) else { return Elision::Rejected };
    let built = crate::core::panics::catch(|| crate::core::exec::build(q, meta));
    let Ok(Ok(cq)) = built else { return Elision::Rejected };
    let Some(fq) = cq.builder.sierra_program().funcs.iter().find(|g| g.id == f.id).cloned() else { return Elision::Rejected };
    match execs::run(&cq, &fq, args, gas) {
        Ok(e) => {
            let n = value::normalize(&cq, &fq, &e);
            if n == *honest || n == Norm::Undecodable || value::is_out_of_gas(&n) || value::is_out_of_gas(honest) {
                Elision::Same
            } else {
                Elision::Differs(
                    "store-elision-changes-result".into(),
                    format!("with the store at statement {idx} elided (store_temp -> rename, store_local -> drop + rename) the program is still accepted but gives {:?} instead of {:?}: a value addressed relative to ap did not stay reachable", n, honest),
                )
            }
        }
        Err(crate::core::exec::ExecErr::Vm(m)) => Elision::Differs(
            "store-elision-breaks-run".into(),
            format!("with the store at statement {idx} elided the program is still accepted but the VM fails: {}", crate::core::driver::truncate(&m, 200)),
        ),
        Err(_) => Elision::Rejected,
    }
}

impl Prop for C17 {
    fn id(&self) -> &'static str {
        "C17"
    }
    fn rule(&self) -> String {
        "Same execution sources as C02, both ap-change solvers. Static: the recorded statement ranges tile \
         the bytecode, start on instruction boundaries and agree with instruction_idx. Dynamic: the relocated \
         trace is walked with a call stack driven by the instructions (call pushes, ret pops; pcs beyond the \
         instruction list - const segments, footer - are bare rets); for every popped frame of a function \
         with a declared ap change k: ap_at_ret - ap_at_entry == k; every executed code pc is an instruction \
         boundary inside exactly one statement range. Reachability: per case, up to 10 (quick) / 40 (thorough) mutants in which one store is elided (store_temp<T> -> rename<T>; \
         store_local<T> -> drop of the local + rename<T>: the value is no longer materialised); if the compiler still accepts the program it must \
         return the same result on the same arguments (a stale ap-relative reference would not); functions that \
         read the gas counter are excluded (a saved step legitimately changes what they return). A third of the cases are generated hand-written-style Sierra programs: main(a, b) is a random \
         felt252 data flow (constants, dup, add / sub / mul, optional store_temp, drops) with up to three calls \
         to a recursive function (unknown ap change) in between; if the compiler accepts the program, running \
         it must give the value an own evaluation of the data flow prescribes. Non-trivial = \
         a run with >= 1 checked frame at call depth >= 2; distinct = hash(source, function, arguments)."
            .into()
    }
    fn assumptions(&self) -> Vec<String> {
        vec!["frames are delimited by call/ret instructions of the compiled program (the compiler emits no other control transfer into functions)".into()]
    }
    fn worker(&self, ctx: &mut WorkerCtx) {
        let snippets = execs::load_snippets();
        let cases = ctx.tier.pick(40, 500);
        let elisions = ctx.tier.pick(10usize, 40);
        let mut db = FrontCfg::default_cfg().new_db(Plugins::Default);
        let mut n = 0u64;
        ctx.shrink_iters = 150;
        ctx.run_shards(1300, cases, |cc: &mut CaseCtx<'_>, ch: &mut Choices| {
            n += 1;
            if n % 60 == 0 {
                db = FrontCfg::default_cfg().new_db(Plugins::Default);
            }
            if ch.chance(1, 3) {
                // Generated Sierra data-flow program (values alive across calls with unknown ap change).
                let vals = [num_bigint::BigInt::from(ch.below(50)), num_bigint::BigInt::from(100 + ch.below(1000)), crate::gens::prog::prime() - 1, num_bigint::BigInt::from(ch.u64())];
                let a = vals[ch.below(4)].clone();
                let b = vals[ch.below(4)].clone();
                let (text, want) = gen_dataflow(ch, &a, &b);
                let art = json!({"kind": "dataflow", "sierra": text, "a": a.to_string(), "b": b.to_string(), "want": want.to_string()});
                cc.start(|| art.clone());
                return match judge_dataflow(&text, &a, &b, &want) {
                    Ok(Some(true)) => {
                        cc.stats().eval();
                        cc.stats().count("dataflow_programs_accepted_and_correct");
                        if text.matches("function_call<user@sum_to>").count() > 2 {
                            cc.stats().count("dataflow_programs_with_calls_accepted");
                        }
                        Verdict::Pass
                    }
                    Ok(Some(false)) => {
                        cc.stats().count("dataflow_programs_rejected_by_compiler");
                        Verdict::Pass
                    }
                    Ok(None) => Verdict::Skip("not judged"),
                    Err((sig, what)) => Verdict::fail(sig, what, art),
                };
            }
            let cfg = if ch.bool() { FrontCfg::default_cfg() } else { FrontCfg::generate(ch) };
            let solver_choice = ch.below(6);
            let sweep_seed: Vec<u32> = (0..40).map(|_| ch.next()).collect();
            let case = execs::pick_case_bl(ch, &snippets, 7, 5, 2);
            let meta = if case.source.len() < 2500 && solver_choice % 2 == 0 { MetaCfg { linear_gas: true, linear_ap: false } } else { MetaCfg::linear() };
            let src_hash = hash_str(&case.source);
            let mut layout_cache: Option<Result<trace::Layout, String>> = None;
            let mut sampled = false;
            let mut elided = false;
            execs::drive(cc, &mut Choices::new(sweep_seed.clone()), &mut db, &case, &cfg, meta, 0, &mut |cc, c, f, args, _gas, r| {
                let Ok(e) = r else { return None };
                if layout_cache.is_none() {
                    layout_cache = Some(trace::check_layout(c));
                    cc.stats().count("layouts_checked");
                }
                let layout = match layout_cache.as_ref().unwrap() {
                    Ok(l) => l,
                    Err(m) => return Some(("statement-ranges".to_string(), m.clone())),
                };
                match trace::check_ap(c, layout, e, f) {
                    Ok(rep) => {
                        let st = cc.stats();
                        st.add("frames_checked", rep.frames_checked);
                        if !meta.linear_ap {
                            st.count("runs_nonlinear_ap_solver");
                        }
                        if rep.frames_checked >= 1 && rep.max_depth >= 2 {
                            st.count("runs_with_nested_checked_frames");
                            st.nontrivial(src_hash ^ hash_str(&format!("{:?}{:?}", f.id, crate::gens::sierra_args::args_to_json(args))));
                        }
                        if rep.max_depth >= 5 {
                            st.count("depth_ge_5");
                        }
                        if !sampled && rep.frames_checked > 0 {
                            sampled = true;
                            st.sample(1, || json!({"case": execs::describe(&case, f, args), "frames_checked": rep.frames_checked, "max_depth": rep.max_depth}));
                        }
                        // Store-elision mutants (once per case, on its first successful run).
                        if !elided && meta.linear_ap && !crate::oracle::value::uses_gas_introspection(c) {
                            elided = true;
                            let honest = crate::oracle::value::normalize(c, f, e);
                            if honest != crate::oracle::value::Norm::Undecodable {
                                let pos = store_positions(c.builder.sierra_program());
                                let mut pick = Choices::new(sweep_seed.clone());
                                // `pos` is ranked (deferred values and locals first): most of the budget
                                // follows the ranking, the rest goes to random positions.
                                for k in 0..elisions.min(pos.len()) {
                                    let idx = if k < elisions * 7 / 10 { pos[k] } else { pos[pick.below(pos.len())] };
                                    match judge_elision(c, f, args, _gas, meta, &honest, idx) {
                                        Elision::Rejected => cc.stats().count("store_elision_rejected_by_compiler"),
                                        Elision::Same => cc.stats().count("store_elision_accepted_same_result"),
                                        Elision::Differs(sig, what) => return Some((sig, what)),
                                    }
                                }
                            }
                        }
                        None
                    }
                    Err(m) => Some((if m.contains("declared ap change") { "ap-change-mismatch".to_string() } else { "pc-outside-statements".to_string() }, m)),
                }
            })
        });
    }
    fn replay(&self, artefact: &Value) -> Verdict {
        if artefact["kind"].as_str() == Some("dataflow") {
            let g = |k: &str| -> num_bigint::BigInt { artefact[k].as_str().and_then(|s| s.parse().ok()).unwrap_or_default() };
            return match judge_dataflow(artefact["sierra"].as_str().unwrap_or(""), &g("a"), &g("b"), &g("want")) {
                Ok(_) => Verdict::Pass,
                Err((sig, what)) => Verdict::fail(sig, what, artefact.clone()),
            };
        }
        match execs::from_artefact(artefact) {
            Ok((c, f, args, gas)) => {
                let layout = match trace::check_layout(&c) {
                    Ok(l) => l,
                    Err(m) => return Verdict::fail("statement-ranges", m, json!({})),
                };
                match execs::run(&c, &f, &args, gas) {
                    Ok(e) => match trace::check_ap(&c, &layout, &e, &f) {
                        Err(m) => Verdict::fail(if m.contains("declared ap change") { "ap-change-mismatch" } else { "pc-outside-statements" }, m, json!({})),
                        Ok(_) => {
                            let meta = MetaCfg { linear_gas: artefact["linear_gas"].as_bool().unwrap_or(true), linear_ap: artefact["linear_ap"].as_bool().unwrap_or(true) };
                            let honest = crate::oracle::value::normalize(&c, &f, &e);
                            if honest != crate::oracle::value::Norm::Undecodable && !crate::oracle::value::uses_gas_introspection(&c) {
                                for idx in store_positions(c.builder.sierra_program()).into_iter().take(400) {
                                    if let Elision::Differs(sig, what) = judge_elision(&c, &f, &args, gas, meta, &honest, idx) {
                                        return Verdict::fail(sig, what, json!({}));
                                    }
                                }
                            }
                            Verdict::Pass
                        }
                    },
                    _ => Verdict::Pass,
                }
            }
            Err(_) => Verdict::Skip("artefact does not compile"),
        }
    }
    fn health(&self, _tier: Tier, agg: &Agg) -> Result<(), String> {
        if agg.class("frames_checked") < 500 {
            return Err("fewer than 500 call frames were checked".into());
        }
        if agg.class("runs_with_nested_checked_frames") == 0 {
            return Err("no nested frame was checked".into());
        }
        Ok(())
    }
}
