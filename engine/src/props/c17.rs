//! C17 — static ap-change metadata equals run-time ap movement; statement ranges tile the code.

use serde_json::{Value, json};

use crate::core::cairo::Plugins;
use crate::core::choices::{Choices, hash_str};
use crate::core::driver::{Agg, CaseCtx, Prop, Tier, Verdict, WorkerCtx};
use crate::core::exec::{FrontCfg, MetaCfg};
use crate::oracle::trace;
use crate::props::execs;

pub struct C17;

impl Prop for C17 {
    fn id(&self) -> &'static str {
        "C17"
    }
    fn rule(&self) -> String {
        "Same execution sources as C02, both ap-change solvers. Static: the recorded statement ranges tile \
         the bytecode, start on instruction boundaries and agree with instruction_idx. Dynamic: the relocated \
         trace is walked with a call stack driven by the instructions (call pushes, ret pops; pcs beyond the \
         instruction list - const segments, footer - are bare rets); for every popped frame of a function \
         with a declared ap change k: ap_at_ret - ap_at_entry == k; every executed code pc is an instruction \
         boundary inside exactly one statement range. Non-trivial = a run with >= 1 checked frame at call \
         depth >= 2; distinct = hash(source, function, arguments)."
            .into()
    }
    fn assumptions(&self) -> Vec<String> {
        vec!["frames are delimited by call/ret instructions of the compiled program (the compiler emits no other control transfer into functions)".into()]
    }
    fn worker(&self, ctx: &mut WorkerCtx) {
        let snippets = execs::load_snippets();
        let cases = ctx.tier.pick(40, 500);
        let mut db = FrontCfg::default_cfg().new_db(Plugins::Default);
        let mut n = 0u64;
        ctx.shrink_iters = 150;
        ctx.run_shards(1300, cases, |cc: &mut CaseCtx<'_>, ch: &mut Choices| {
            n += 1;
            if n % 60 == 0 {
                db = FrontCfg::default_cfg().new_db(Plugins::Default);
            }
            let cfg = if ch.bool() { FrontCfg::default_cfg() } else { FrontCfg::generate(ch) };
            let solver_choice = ch.below(6);
            let sweep_seed: Vec<u32> = (0..40).map(|_| ch.next()).collect();
            let case = execs::pick_case(ch, &snippets, 7, 5);
            let meta = if case.source.len() < 2500 && solver_choice % 2 == 0 { MetaCfg { linear_gas: true, linear_ap: false } } else { MetaCfg::linear() };
            let src_hash = hash_str(&case.source);
            let mut layout_cache: Option<Result<trace::Layout, String>> = None;
            let mut sampled = false;
            execs::drive(cc, &mut Choices::new(sweep_seed.clone()), &mut db, &case, &cfg, meta, 0, &mut |cc, c, f, args, _gas, r| {
                let Ok(e) = r else { return None };
                if layout_cache.is_none() {
                    layout_cache = Some(trace::check_layout(c));
                    cc.stats().count("layouts_checked");
                }
                let layout = match layout_cache.as_ref().unwrap() {
                    Ok(l) => l,
                    Err(m) => return Some(("statement-ranges".to_string(), m.clone())),
                };
                match trace::check_ap(c, layout, e, f) {
                    Ok(rep) => {
                        let st = cc.stats();
                        st.add("frames_checked", rep.frames_checked);
                        if !meta.linear_ap {
                            st.count("runs_nonlinear_ap_solver");
                        }
                        if rep.frames_checked >= 1 && rep.max_depth >= 2 {
                            st.count("runs_with_nested_checked_frames");
                            st.nontrivial(src_hash ^ hash_str(&format!("{:?}{:?}", f.id, crate::gens::sierra_args::args_to_json(args))));
                        }
                        if rep.max_depth >= 5 {
                            st.count("depth_ge_5");
                        }
                        if !sampled && rep.frames_checked > 0 {
                            sampled = true;
                            st.sample(1, || json!({"case": execs::describe(&case, f, args), "frames_checked": rep.frames_checked, "max_depth": rep.max_depth}));
                        }
                        None
                    }
                    Err(m) => Some((if m.contains("declared ap change") { "ap-change-mismatch".to_string() } else { "pc-outside-statements".to_string() }, m)),
                }
            })
        });
    }
    fn replay(&self, artefact: &Value) -> Verdict {
        match execs::from_artefact(artefact) {
            Ok((c, f, args, gas)) => {
                let layout = match trace::check_layout(&c) {
                    Ok(l) => l,
                    Err(m) => return Verdict::fail("statement-ranges", m, json!({})),
                };
                match execs::run(&c, &f, &args, gas) {
                    Ok(e) => match trace::check_ap(&c, &layout, &e, &f) {
                        Err(m) => Verdict::fail(if m.contains("declared ap change") { "ap-change-mismatch" } else { "pc-outside-statements" }, m, json!({})),
                        Ok(_) => Verdict::Pass,
                    },
                    _ => Verdict::Pass,
                }
            }
            Err(_) => Verdict::Skip("artefact does not compile"),
        }
    }
    fn health(&self, _tier: Tier, agg: &Agg) -> Result<(), String> {
        if agg.class("frames_checked") < 500 {
            return Err("fewer than 500 call frames were checked".into());
        }
        if agg.class("runs_with_nested_checked_frames") == 0 {
            return Err("no nested frame was checked".into());
        }
        Ok(())
    }
}
