//! C10 — the syntax tree is lossless.

use cairo_lang_parser::utils::SimpleParserDatabase;
use serde_json::{Value, json};

use crate::core::choices::{Choices, hash_str};
use crate::core::corpus;
use crate::core::driver::{CaseCtx, Prop, Tier, Verdict, WorkerCtx, truncate, Agg};
use crate::core::panics;
use crate::gens::textmut;
use crate::oracle::lossless;

pub struct C10;

pub const MAX_BYTES: usize = 16 * 1024;

pub fn judge(db: &SimpleParserDatabase, text: &str) -> (Verdict, Option<lossless::TreeInfo>) {
    match panics::catch(|| lossless::check_lossless(db, text)) {
        Ok(Ok(info)) => (Verdict::Pass, Some(info)),
        Ok(Err(f)) => (Verdict::fail(f.sig, f.what, json!({"text": text})), None),
        // A panic while parsing is C09's business; here the tree does not exist, so the
        // property is not judged on this input.
        Err(_) => (Verdict::Skip("parser panicked (C09)"), None),
    }
}

impl Prop for C10 {
    fn id(&self) -> &'static str {
        "C10"
    }
    fn rule(&self) -> String {
        "Inputs: byte/token/subtree-level mutants of windows of every .cairo file under /repo, \
         token soups from a terminal dictionary and nesting stressors (depth <= 200), decoded from \
         proptest choice sequences. Every input is parsed and all four clauses are checked \
         (leaves concat == input, children tile each node, root spans the file, get_text == \
         slice). Non-trivial = the parser reported >= 1 diagnostic (recovery paths ran) and the \
         text is not a verbatim corpus file; distinct = hash of the text."
            .into()
    }
    fn assumptions(&self) -> Vec<String> {
        vec![
            "SimpleParserDatabase::parse_virtual_with_diagnostics is the parser entry point users reach (same Parser::parse_file as the compiler db)".into(),
            "inputs are valid UTF-8 and <= 16 KiB".into(),
        ]
    }
    fn worker(&self, ctx: &mut WorkerCtx) {
        let corpus = corpus::cairo_corpus(256 * 1024);
        let cases = ctx.tier.pick(1000, 12000);
        let mut db = SimpleParserDatabase::default();
        let mut n = 0u32;
        ctx.minimize = Some(Box::new(|f| {
            let text = f.artefact["text"].as_str()?.to_string();
            let clause = f.sig.clone();
            let db = SimpleParserDatabase::default();
            let min = crate::core::shrink::ddmin_text(
                &text,
                |t| match judge(&db, t).0 {
                    Verdict::Fail(g) => g.sig == clause,
                    _ => false,
                },
                3000,
            );
            match judge(&db, &min).0 {
                Verdict::Fail(mut g) => {
                    g.artefact = json!({"text": min, "minimised_from": f.artefact});
                    Some(g)
                }
                _ => None,
            }
        }));
        ctx.run_shards(96, cases, |cc: &mut CaseCtx<'_>, ch: &mut Choices| {
            n += 1;
            if n % 500 == 0 {
                db = SimpleParserDatabase::default();
            }
            let case = textmut::gen_text(ch, &corpus, MAX_BYTES);
            let (v, info) = judge(&db, &case.text);
            let st = cc.stats();
            st.eval();
            if let Some(info) = info {
                st.count(case.mutations.first().map(|m| m.split('@').next().unwrap_or("?").split(' ').next().unwrap_or("?")).unwrap_or("none"));
                if info.parser_diags > 0 {
                    st.count("with_parser_diagnostics");
                    st.nontrivial(hash_str(&case.text));
                }
                if info.has_missing {
                    st.count("with_missing_nodes");
                }
                if info.has_skipped {
                    st.count("with_skipped_tokens");
                }
                if info.max_depth > 60 {
                    st.count("tree_depth_gt_60");
                }
                if !case.text.is_ascii() {
                    st.count("non_ascii");
                }
                st.sample(2, || json!({"origin": case.origin, "mutations": case.mutations, "text": truncate(&case.text, 300), "parser_diags": info.parser_diags}));
            }
            match v {
                Verdict::Fail(mut f) => {
                    f.artefact = json!({"text": case.text, "origin": case.origin, "mutations": case.mutations});
                    Verdict::Fail(f)
                }
                v => v,
            }
        });
    }
    fn replay(&self, artefact: &Value) -> Verdict {
        let text = artefact["text"].as_str().unwrap_or("");
        let db = SimpleParserDatabase::default();
        judge(&db, text).0
    }
    fn health(&self, _tier: Tier, agg: &Agg) -> Result<(), String> {
        if agg.class("with_parser_diagnostics") * 4 < agg.evaluations {
            return Err("fewer than 25% of inputs exercised parser recovery".into());
        }
        Ok(())
    }
}
