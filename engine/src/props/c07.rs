//! C07 — compile-time evaluation agrees with run-time evaluation.

use cairo_lang_runner::{Arg, RunResultValue};
use num_bigint::BigInt;
use num_integer::Integer;
use serde_json::{Value, json};

use crate::core::cairo::{self, Plugins};
use crate::core::choices::{Choices, hash_str};
use crate::core::driver::{Agg, CaseCtx, Prop, Tier, Verdict, WorkerCtx, truncate};
use crate::core::exec::{self, CompileErr, Compiled, FrontCfg, MetaCfg};
use crate::core::panics;
use crate::gens::constexpr::{self, ConstCase};
use crate::gens::prog::{self, Ty, prime};
use crate::oracle::eval::{Interp, Outcome, Val};
use crate::props::c01::{fmt_outcome, observed};

pub struct C07;

const HEADER: &str = "use core::option::OptionTrait;\nuse core::traits::{Into, TryInto};\n";

fn ser_main(name: &str, params: &str, ty: &str, value: &str) -> String {
    format!("fn {name}({params}) -> Array<felt252> {{\n    let r_: {ty} = {value};\n    let mut o_: Array<felt252> = array![];\n    r_.serialize(ref o_);\n    o_\n}}\n")
}

pub struct Sources {
    pub const_src: String,
    pub rt_src: String,
}

pub fn sources(c: &ConstCase) -> Sources {
    let p = &c.program;
    let mut common = String::from(HEADER);
    common.push_str(&prog::print_types(p));
    for i in 0..p.funcs.len() {
        common.push_str(&prog::print_func(p, i, "const "));
    }
    let tyname = c.ty.name(p);
    let lit_expr = prog::print_expr(p, &constexpr::with_literals(&c.expr, &c.leaves));
    let var_expr = prog::print_expr(p, &c.expr);
    let mut const_src = common.clone();
    const_src.push_str(&format!("const C: {tyname} = {lit_expr};\n"));
    const_src.push_str(&ser_main("main_const", "", &tyname, "C"));
    let mut rt_src = common;
    let params: Vec<String> = c.leaves.iter().map(|l| format!("{}: {}", l.name, l.ty.name(p))).collect();
    rt_src.push_str(&format!("#[inline(never)]\nfn rt({}) -> {tyname} {{\n    {var_expr}\n}}\n", params.join(", ")));
    let args: Vec<String> = c.leaves.iter().map(|l| l.name.clone()).collect();
    rt_src.push_str(&ser_main("main_rt", &params.join(", "), &tyname, &format!("rt({})", args.join(", "))));
    rt_src.push_str(&ser_main("main_folded", "", &tyname, &lit_expr));
    Sources { const_src, rt_src }
}

fn leaf_args(c: &ConstCase) -> Vec<Arg> {
    let p = prime();
    let mut out = vec![];
    for l in &c.leaves {
        match l.ty {
            Ty::U256 => {
                let mask = (BigInt::from(1) << 128) - 1;
                out.push(Arg::Value(exec::bigint_to_felt(&(&l.value & &mask))));
                out.push(Arg::Value(exec::bigint_to_felt(&(&l.value >> 128))));
            }
            _ => out.push(Arg::Value(exec::bigint_to_felt(&l.value.mod_floor(&p)))),
        }
    }
    out
}

#[derive(Debug, Clone, PartialEq)]
pub enum ConstResult {
    Value(Outcome),
    /// The const item was rejected with an evaluation failure (E2128/E2130/E2131/E2008).
    EvalFailed(String),
    /// The generator left the documented subset (E2127 or anything else).
    Unsupported(String),
    CompilerPanic(String, String),
}

fn run_named(c: &Compiled, name: &str, args: Vec<Arg>) -> Result<Outcome, String> {
    let f = c.runner.find_function(&format!("::{name}")).map_err(|e| format!("{e}"))?.clone();
    match exec::run(c, &f, args, Some(200_000_000)) {
        Ok(e) => observed(&e).ok_or_else(|| "undecodable".to_string()),
        Err(e) => Err(format!("{e:?}")),
    }
}

pub fn eval_const(db: &cairo_lang_compiler::db::RootDatabase, name: &str, src: &str) -> ConstResult {
    match exec::compile_source(db, name, src, MetaCfg::linear()) {
        Ok(c) => match run_named(&c, "main_const", vec![]) {
            Ok(o) => ConstResult::Value(o),
            Err(e) => ConstResult::Unsupported(format!("run of main_const failed: {e}")),
        },
        Err(CompileErr::Diagnostics(d)) => {
            let errs: Vec<&str> = d.split("\n\n").filter(|b| b.trim_start().starts_with("error")).collect();
            let eval_codes = ["E2128", "E2130", "E2131", "E2008"];
            // A failed evaluation leaves the const without a type, which adds a follow-up E3002 at
            // its use; E2127 means the expression is outside the const-evaluable subset.
            let unsupported = errs.iter().any(|e| e.contains("E2127"));
            let ok_codes = ["E2128", "E2130", "E2131", "E2008", "E3002"];
            if !errs.is_empty() && !unsupported && errs.iter().any(|e| eval_codes.iter().any(|c| e.contains(c))) && errs.iter().all(|e| ok_codes.iter().any(|c| e.contains(c))) {
                ConstResult::EvalFailed(errs.first().unwrap().lines().next().unwrap_or("").to_string())
            } else {
                ConstResult::Unsupported(errs.iter().take(2).map(|s| s.to_string()).collect::<Vec<_>>().join("\n"))
            }
        }
        Err(CompileErr::Backend(e)) => ConstResult::Unsupported(format!("backend: {e}")),
        Err(CompileErr::Panic(loc, msg)) => ConstResult::CompilerPanic(loc, msg),
    }
}

pub struct Judged {
    pub rt: Outcome,
    pub konst: ConstResult,
}

/// Judges the three programs of one expression. Returns Err((sig, what)).
pub fn judge(db: &mut cairo_lang_compiler::db::RootDatabase, tag: &str, s: &Sources, args: Vec<Arg>) -> Result<Option<Judged>, (String, String)> {
    // Run time (default configuration): the reference behaviour.
    FrontCfg::default_cfg().apply(db);
    let rt_c = match exec::compile_source(db, &format!("{tag}r"), &s.rt_src, MetaCfg::linear()) {
        Ok(c) => c,
        Err(CompileErr::Diagnostics(_)) => return Ok(None),
        Err(CompileErr::Backend(e)) => return Err(("compile-error".into(), e)),
        Err(CompileErr::Panic(loc, msg)) => return Err((format!("compiler-panic@{loc}"), msg)),
    };
    let rt = run_named(&rt_c, "main_rt", args).map_err(|e| ("vm-error".to_string(), e))?;
    // Folded, with const folding on (same compilation) ...
    let folded_on = run_named(&rt_c, "main_folded", vec![]).map_err(|e| ("vm-error".to_string(), e))?;
    if folded_on != rt {
        return Err((
            "folded-differs-from-runtime".into(),
            format!("with constant folding the expression gives {} but at run time (opaque arguments) it gives {}", fmt_outcome(&folded_on), fmt_outcome(&rt)),
        ));
    }
    // ... and off.
    let off = FrontCfg { optimizations: true, inlining: 0, skip_const_folding: true, match_threshold: None };
    off.apply(db);
    if let Ok(c2) = exec::compile_source(db, &format!("{tag}r"), &s.rt_src, MetaCfg::linear()) {
        let folded_off = run_named(&c2, "main_folded", vec![]).map_err(|e| ("vm-error".to_string(), e))?;
        if folded_off != rt {
            return Err((
                "unfolded-literal-differs-from-runtime".into(),
                format!("literal operands without folding give {} but opaque arguments give {}", fmt_outcome(&folded_off), fmt_outcome(&rt)),
            ));
        }
    }
    FrontCfg::default_cfg().apply(db);
    // Const item.
    let konst = eval_const(db, &format!("{tag}c"), &s.const_src);
    match (&konst, &rt) {
        (ConstResult::Value(v), r) if v != r => Err((
            format!("const-value-differs:{}", if matches!(r, Outcome::Panic(_)) { "runtime-panics" } else { "values" }),
            format!("the const item evaluates to {} but the same expression at run time gives {}", fmt_outcome(v), fmt_outcome(r)),
        )),
        (ConstResult::EvalFailed(d), Outcome::Success(_)) => Err((
            "const-rejected-but-runtime-succeeds".into(),
            format!("the const item is rejected ({d}) but the same expression at run time gives {}", fmt_outcome(&rt)),
        )),
        (ConstResult::CompilerPanic(loc, msg), _) => Err((format!("compiler-panic@{loc}"), msg.clone())),
        _ => Ok(Some(Judged { rt, konst })),
    }
}

impl Prop for C07 {
    fn id(&self) -> &'static str {
        "C07"
    }
    fn rule(&self) -> String {
        "Expression trees over the documented const-evaluable constructs (integer/felt/bool arithmetic, bitwise, \
         comparisons, && || !, unary -, into / try_into().unwrap() / try_into() between all integer types and \
         felt252, tuples, structs, enums, Option, if, match on enum/Option/bool/integer literals, blocks with let, \
         calls to generated const fns) with named leaves whose values come from boundary sets. Three programs per \
         tree: `const C: T = E[v]`, `fn rt(x..) -> T { E[x] }` called with v (opaque), and `fn folded() -> T { E[v] }` \
         compiled with constant folding on and off. Oracle: const evaluation fails iff rt panics; otherwise the \
         values are equal; folded == rt exactly incl. panic data. UnsupportedConstant = generator left the subset \
         (counted, not judged). Non-trivial = >= 2 operators and >= 1 boundary leaf; distinct = hash(source)."
            .into()
    }
    fn assumptions(&self) -> Vec<String> {
        vec![
            "const-evaluation failure kinds are recognised by their diagnostic codes E2128 (FailedConstantCalculation), E2130 (inner), E2131 (DivisionByZero), E2008 (literal out of range)".into(),
            "run-time behaviour with opaque arguments under the default configuration is the reference".into(),
        ]
    }
    fn worker(&self, ctx: &mut WorkerCtx) {
        let cases = ctx.tier.pick(40, 500);
        ctx.shrink_iters = 200;
        let mut db = FrontCfg::default_cfg().new_db(Plugins::Default);
        let mut n = 0u64;
        ctx.run_shards(600, cases, |cc: &mut CaseCtx<'_>, ch: &mut Choices| {
            n += 1;
            if n % 80 == 0 {
                db = FrontCfg::default_cfg().new_db(Plugins::Default);
            }
            let case = constexpr::generate(ch);
            if case.leaves.len() > 12 {
                return Verdict::Skip("too many leaves");
            }
            let s = sources(&case);
            let tag = format!("k{}", hash_str(&s.const_src) % 10_000_000);
            let art = json!({"const_source": s.const_src, "rt_source": s.rt_src, "args": crate::gens::sierra_args::args_to_json(&leaf_args(&case))});
            // The reference evaluator's view (information; C01's business if it disagrees with rt).
            let vars: Vec<(String, Val)> = case.leaves.iter().map(|l| (l.name.clone(), Val::Int(l.value.clone()))).collect();
            let model = Interp::new(&case.program).eval_with(&vars, &case.expr, &case.ty);
            let r = panics::catch(|| judge(&mut db, &tag, &s, leaf_args(&case)));
            let st = cc.stats();
            st.eval();
            match r {
                Err(p) => Verdict::fail(format!("compiler-panic@{}", p.loc), p.msg, art),
                Ok(Err((sig, what))) => Verdict::fail(sig, what, art),
                Ok(Ok(None)) => {
                    st.count("generator:rt_rejected");
                    st.sample(3, || json!({"RT-REJECTED": truncate(&s.rt_src, 900)}));
                    Verdict::Skip("rt program rejected")
                }
                Ok(Ok(Some(j))) => {
                    match &j.konst {
                        ConstResult::Unsupported(d) => {
                            st.count("generator:unsupported_constant");
                            if std::env::var("VERIF_DEBUG").is_ok() {
                                eprintln!("UNSUPPORTED: {}\n", truncate(d, 500));
                            }
                            return Verdict::Skip("unsupported constant");
                        }
                        ConstResult::EvalFailed(_) => st.count("const_rejected_and_runtime_panics"),
                        ConstResult::Value(Outcome::Success(_)) => st.count("const_value_equals_runtime"),
                        _ => {}
                    }
                    if matches!(j.rt, Outcome::Panic(_)) {
                        st.count("runtime_panics");
                    }
                    if model != Outcome::Unknown && model != j.rt {
                        st.count("reference_model_disagrees_with_runtime(C01)");
                    }
                    if case.n_ops >= 2 && case.boundary_leaf {
                        st.nontrivial(hash_str(&s.const_src));
                    }
                    st.sample(1, || json!({"const": truncate(s.const_src.lines().rev().nth(6).unwrap_or(""), 400), "runtime": fmt_outcome(&j.rt), "const_result": format!("{:?}", j.konst).chars().take(200).collect::<String>()}));
                    Verdict::Pass
                }
            }
        });
    }
    fn replay(&self, artefact: &Value) -> Verdict {
        let s = Sources { const_src: artefact["const_source"].as_str().unwrap_or("").to_string(), rt_src: artefact["rt_source"].as_str().unwrap_or("").to_string() };
        let args = crate::gens::sierra_args::args_from_json(&artefact["args"]);
        let mut db = FrontCfg::default_cfg().new_db(Plugins::Default);
        match panics::catch(|| judge(&mut db, "replay", &s, args)) {
            Err(p) => Verdict::fail(format!("compiler-panic@{}", p.loc), p.msg, artefact.clone()),
            Ok(Err((sig, what))) => Verdict::fail(sig, what, artefact.clone()),
            Ok(Ok(_)) => Verdict::Pass,
        }
    }
    fn health(&self, _tier: Tier, agg: &Agg) -> Result<(), String> {
        let unsupported = agg.class("generator:unsupported_constant") + agg.class("generator:rt_rejected");
        if unsupported * 10 > agg.evaluations {
            return Err(format!("{unsupported} of {} expressions left the const-evaluable subset", agg.evaluations));
        }
        if agg.class("const_rejected_and_runtime_panics") == 0 || agg.class("const_value_equals_runtime") == 0 {
            return Err("one of the two agreement classes is empty".into());
        }
        Ok(())
    }
}

#[allow(dead_code)]
fn _unused(_: RunResultValue, _: &dyn Fn() -> &'static str) {
    let _ = cairo::SETTINGS_2024_07;
}
