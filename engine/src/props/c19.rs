//! C19 — a compiled Starknet class is consistent and reproducible from its Sierra.

use std::collections::{BTreeMap, BTreeSet};

use cairo_lang_compiler::CompilerConfig;
use cairo_lang_compiler::db::RootDatabase;
use cairo_lang_compiler::diagnostics::DiagnosticsReporter;
use cairo_lang_compiler::project::setup_project;
use cairo_lang_defs::ids::TopLevelLanguageElementId;
use cairo_lang_filesystem::ids::CrateInput;
use cairo_lang_sierra::extensions::gas::CostTokenType;
use cairo_lang_sierra::program::{GenericArg, Program};
use cairo_lang_sierra_to_casm::compiler::SierraToCasmConfig;
use cairo_lang_sierra_to_casm::metadata::{MetadataComputationConfig, calc_metadata};
use cairo_lang_sierra_type_size::ProgramRegistryInfo;
use cairo_lang_starknet::contract::find_contracts;
use cairo_lang_starknet_classes::casm_contract_class::{CasmContractClass, CasmContractEntryPoint, ENTRY_POINT_COST};
use cairo_lang_starknet_classes::contract_class::{ContractClass, ContractEntryPoint};
use cairo_lang_starknet_classes::keccak::starknet_keccak;
use cairo_lang_starknet_classes::NestedIntList;
use cairo_lang_utils::ordered_hash_map::OrderedHashMap;
use num_bigint::BigUint;
use serde_json::{Value, json};

use crate::core::cairo::{self, Plugins};
use crate::core::choices::{Choices, hash_str};
use crate::core::driver::{Agg, CaseCtx, Prop, Tier, Verdict, WorkerCtx, repo_root, truncate};
use crate::core::panics;

pub struct C19;

/// My own copy of the protocol order of entry-point builtins and of their class names.
const PROTOCOL_ORDER: &[(&str, &str)] = &[
    ("Pedersen", "pedersen"),
    ("RangeCheck", "range_check"),
    ("Bitwise", "bitwise"),
    ("EcOp", "ec_op"),
    ("Poseidon", "poseidon"),
    ("SegmentArena", "segment_arena"),
    ("RangeCheck96", "range_check96"),
    ("AddMod", "add_mod"),
    ("MulMod", "mul_mod"),
];

fn prime() -> BigUint {
    (BigUint::from(1u8) << 251) + (BigUint::from(17u8) << 192) + BigUint::from(1u8)
}

fn generic_name(p: &Program, ty: &cairo_lang_sierra::ids::ConcreteTypeId) -> String {
    p.type_declarations.iter().find(|d| d.id == *ty).map(|d| d.long_id.generic_id.0.to_string()).unwrap_or_default()
}

fn is_felt_span(p: &Program, ty: &cairo_lang_sierra::ids::ConcreteTypeId) -> bool {
    // Struct<ut@core::array::Span<felt252>, Snapshot<Array<felt252>>>
    let Some(d) = p.type_declarations.iter().find(|d| d.id == *ty) else { return false };
    d.long_id.generic_id.0 == "Struct" && matches!(d.long_id.generic_args.first(), Some(GenericArg::UserType(_)))
}

fn flatten(l: &NestedIntList, out: &mut Vec<usize>) {
    match l {
        NestedIntList::Leaf(n) => out.push(*n),
        NestedIntList::Node(v) => v.iter().for_each(|x| flatten(x, out)),
    }
}

/// Names of the entry points the ABI declares: (externals, l1 handlers, constructors).
fn abi_names(class: &ContractClass) -> Option<(BTreeSet<String>, BTreeSet<String>, BTreeSet<String>)> {
    let abi = class.abi.as_ref()?;
    let v: Value = serde_json::from_str(&abi.json()).ok()?;
    let items = v.as_array()?;
    let mut ext = BTreeSet::new();
    let mut l1 = BTreeSet::new();
    let mut ctor = BTreeSet::new();
    let mut interfaces: BTreeMap<String, Vec<String>> = BTreeMap::new();
    let mut impls = vec![];
    for it in items {
        let name = it["name"].as_str().unwrap_or("").to_string();
        match it["type"].as_str() {
            Some("function") => {
                ext.insert(name);
            }
            Some("l1_handler") => {
                l1.insert(name);
            }
            Some("constructor") => {
                ctor.insert(name);
            }
            Some("interface") => {
                let fns = it["items"].as_array().map(|a| a.iter().filter(|x| x["type"].as_str() == Some("function")).filter_map(|x| x["name"].as_str().map(|s| s.to_string())).collect()).unwrap_or_default();
                interfaces.insert(name, fns);
            }
            Some("impl") => impls.push(it["interface_name"].as_str().unwrap_or("").to_string()),
            _ => {}
        }
    }
    for i in impls {
        if let Some(fns) = interfaces.get(&i) {
            ext.extend(fns.iter().cloned());
        }
    }
    Some((ext, l1, ctor))
}

pub struct Facts {
    pub entry_points: usize,
    pub builtin_sets: BTreeSet<Vec<String>>,
    pub builtins_seen: BTreeSet<String>,
    pub hints: usize,
    pub bytecode_len: usize,
}

/// All invariants on one contract class. Err = (signature, description).
pub fn check_class(class: &ContractClass, name: &str) -> Result<Facts, (String, String)> {
    let fail = |sig: &str, what: String| -> Result<Facts, (String, String)> { Err((sig.to_string(), format!("[{name}] {what}"))) };
    let ext = match panics::catch(|| class.extract_sierra_program(false)) {
        Ok(Ok(e)) => e,
        Ok(Err(e)) => return fail("own-class-does-not-decode", format!("extract_sierra_program fails on the compiler's own class: {e}")),
        Err(p) => return fail("panic", format!("extract_sierra_program panicked at {}: {}", p.loc, truncate(&p.msg, 200))),
    };
    let program = ext.program.clone();
    let casm = match panics::catch(|| CasmContractClass::from_contract_class_with_debug_info(class.clone(), class.extract_sierra_program(false).unwrap(), false, usize::MAX)) {
        Ok(Ok(c)) => c,
        Ok(Err(e)) => return fail("casm-compilation-fails", format!("from_contract_class fails on the compiler's own class: {e}")),
        Err(p) => return fail("panic", format!("from_contract_class panicked at {}: {}", p.loc, truncate(&p.msg, 200))),
    };
    let (casm, _dbg) = casm;

    // (1) Reproducible: through JSON, and with pythonic hints on, the same class comes out.
    let class_json = serde_json::to_string(class).unwrap_or_default();
    let class2: ContractClass = match serde_json::from_str(&class_json) {
        Ok(c) => c,
        Err(e) => return fail("class-json-roundtrip", format!("the contract class JSON does not parse back: {e}")),
    };
    let casm2 = match panics::catch(|| CasmContractClass::from_contract_class(class2.clone(), class2.extract_sierra_program(false).unwrap(), false, usize::MAX)) {
        Ok(Ok(c)) => c,
        Ok(Err(e)) => return fail("casm-from-published-class-fails", format!("{e}")),
        Err(p) => return fail("panic", format!("from_contract_class (published class) panicked at {}", p.loc)),
    };
    if casm2 != casm {
        return fail("casm-differs-for-published-class", "the CASM class compiled from the JSON-published contract class differs from the one compiled from the in-memory class".into());
    }
    let casm_json = serde_json::to_string(&casm).unwrap_or_default();
    let casm3: CasmContractClass = match serde_json::from_str(&casm_json) {
        Ok(c) => c,
        Err(e) => return fail("casm-json-roundtrip", format!("the CASM class JSON does not parse back: {e}")),
    };
    if casm3.compiled_class_hash() != casm.compiled_class_hash() || casm3.legacy_compiled_class_hash() != casm.legacy_compiled_class_hash() {
        return fail("class-hash-unstable", "the compiled class hash changes under a JSON round trip".into());
    }
    if serde_json::to_string(&casm3).unwrap_or_default() != casm_json {
        return fail("casm-json-unstable", "CASM class JSON is not a fixpoint of parse + print".into());
    }
    let with_py = match panics::catch(|| CasmContractClass::from_contract_class(class.clone(), class.extract_sierra_program(false).unwrap(), true, usize::MAX)) {
        Ok(Ok(c)) => c,
        Ok(Err(e)) => return fail("pythonic-hints-change-outcome", format!("with pythonic hints compilation fails: {e}")),
        Err(p) => return fail("panic", format!("from_contract_class (pythonic hints) panicked at {}", p.loc)),
    };
    if with_py.bytecode != casm.bytecode || with_py.entry_points_by_type != casm.entry_points_by_type || with_py.hints != casm.hints {
        return fail("pythonic-hints-change-class", "adding pythonic hints changes bytecode, entry points or hints".into());
    }
    match &with_py.pythonic_hints {
        Some(ph) => {
            if ph.len() != casm.hints.len() || ph.iter().zip(&casm.hints).any(|(a, b)| a.0 != b.0 || a.1.len() != b.1.len()) {
                return fail("pythonic-hints-misaligned", "pythonic hints are not aligned with the hints (offsets / counts)".into());
            }
        }
        None => return fail("pythonic-hints-missing", "pythonic hints requested but absent".into()),
    }

    // (2) My own compilation of the decoded program gives the same bytecode.
    let all_eps: Vec<&ContractEntryPoint> = class.entry_points_by_type.constructor.iter().chain(&class.entry_points_by_type.external).chain(&class.entry_points_by_type.l1_handler).collect();
    let own = panics::catch(|| -> Result<_, String> {
        let info = ProgramRegistryInfo::new(&program).map_err(|e| format!("{e}"))?;
        let mut costs = OrderedHashMap::default();
        for ep in &all_eps {
            let f = program.funcs.get(ep.function_idx).ok_or("function index out of range")?;
            costs.insert(f.id.clone(), [(CostTokenType::Const, ENTRY_POINT_COST)].into_iter().collect());
        }
        let meta = calc_metadata(
            &program,
            &info,
            MetadataComputationConfig { function_set_costs: costs, linear_gas_solver: true, linear_ap_change_solver: true, skip_non_linear_solver_comparisons: true, compute_runtime_costs: false },
        )
        .map_err(|e| format!("{e}"))?;
        let cp = cairo_lang_sierra_to_casm::compiler::compile(&program, &info, &meta, SierraToCasmConfig { gas_usage_check: true, max_bytecode_size: usize::MAX }).map_err(|e| format!("{e}"))?;
        Ok(cp)
    });
    let cp = match own {
        Ok(Ok(c)) => c,
        Ok(Err(e)) => return fail("own-compilation-fails", e),
        Err(p) => return fail("panic", format!("own compilation panicked at {}", p.loc)),
    };
    let p = prime();
    let mut own_bytecode: Vec<BigUint> = vec![];
    let mut instruction_starts: BTreeSet<usize> = BTreeSet::new();
    for ins in &cp.instructions {
        instruction_starts.insert(own_bytecode.len());
        for w in ins.assemble().encode() {
            let m = w.magnitude() % &p;
            own_bytecode.push(if w.sign() == num_bigint::Sign::Minus && m != BigUint::from(0u8) { &p - m } else { m });
        }
    }
    let code_len = own_bytecode.len();
    // Each constants segment is preceded by a `ret` word.
    let ret_word = cairo_lang_casm::instructions::Instruction::new(cairo_lang_casm::instructions::InstructionBody::Ret(cairo_lang_casm::instructions::RetInstruction {}), false).assemble().encode();
    for seg in cp.consts_info.segments.values() {
        for w in &ret_word {
            own_bytecode.push(w.magnitude() % &p);
        }
        for v in &seg.values {
            let m = v.magnitude() % &p;
            own_bytecode.push(if v.sign() == num_bigint::Sign::Minus && m != BigUint::from(0u8) { &p - m } else { m });
        }
    }
    let got: Vec<BigUint> = casm.bytecode.iter().map(|b| b.value.clone()).collect();
    if got != own_bytecode {
        let at = got.iter().zip(&own_bytecode).position(|(a, b)| a != b).unwrap_or(got.len().min(own_bytecode.len()));
        return fail("bytecode-differs-from-own-compilation", format!("bytecode has {} words, my own compilation of the decoded program {} words; first difference at {at}", got.len(), own_bytecode.len()));
    }
    // (3) Canonical words.
    if let Some(i) = got.iter().position(|w| *w >= p) {
        return fail("non-canonical-bytecode-word", format!("bytecode word {i} is not below the prime"));
    }
    // (4) Entry points.
    let mut builtin_sets = BTreeSet::new();
    let mut builtins_seen = BTreeSet::new();
    let groups: [(&str, &Vec<ContractEntryPoint>, &Vec<CasmContractEntryPoint>); 3] = [
        ("external", &class.entry_points_by_type.external, &casm.entry_points_by_type.external),
        ("l1_handler", &class.entry_points_by_type.l1_handler, &casm.entry_points_by_type.l1_handler),
        ("constructor", &class.entry_points_by_type.constructor, &casm.entry_points_by_type.constructor),
    ];
    for (kind, sierra_eps, casm_eps) in groups {
        if sierra_eps.len() != casm_eps.len() {
            return fail("entry-point-count", format!("{kind}: {} Sierra entry points, {} CASM entry points", sierra_eps.len(), casm_eps.len()));
        }
        for w in casm_eps.windows(2) {
            if w[0].selector >= w[1].selector {
                return fail("entry-points-not-sorted", format!("{kind} entry points are not strictly sorted by selector"));
            }
        }
        for (s, c) in sierra_eps.iter().zip(casm_eps.iter()) {
            if s.selector != c.selector {
                return fail("entry-point-selector", format!("{kind}: selector mismatch between the Sierra and CASM entry point lists"));
            }
            let Some(f) = program.funcs.get(s.function_idx) else { return fail("entry-point-function-index", format!("{kind}: function index {} out of range", s.function_idx)) };
            let want_offset = cp.debug_info.sierra_statement_info[f.entry_point.0].start_offset;
            if c.offset != want_offset {
                return fail("entry-point-offset", format!("{kind} entry point of function #{} ({}) has offset {}, the function's first instruction is at {want_offset}", s.function_idx, f.id, c.offset));
            }
            if !instruction_starts.contains(&c.offset) {
                return fail("entry-point-offset-not-instruction", format!("{kind} entry point offset {} is not an instruction boundary", c.offset));
            }
            // Builtins: the function's parameters minus [gas, system, calldata span], mapped by my table.
            let n = f.signature.param_types.len();
            if n < 3 || !is_felt_span(&program, &f.signature.param_types[n - 1]) {
                return fail("entry-point-signature", format!("function #{} does not have the entry point shape", s.function_idx));
            }
            let mut want: Vec<String> = vec![];
            let mut last_rank = None;
            for t in &f.signature.param_types[..n - 3] {
                let g = generic_name(&program, t);
                let Some(rank) = PROTOCOL_ORDER.iter().position(|(ty, _)| *ty == g) else {
                    return fail("entry-point-unknown-builtin", format!("function #{} takes {g} which is not a protocol builtin", s.function_idx));
                };
                if let Some(l) = last_rank {
                    if rank <= l {
                        return fail("entry-point-builtins-out-of-order", format!("function #{}: builtin {g} breaks the protocol order", s.function_idx));
                    }
                }
                last_rank = Some(rank);
                want.push(PROTOCOL_ORDER[rank].1.to_string());
            }
            if generic_name(&program, &f.signature.param_types[n - 3]) != "GasBuiltin" || generic_name(&program, &f.signature.param_types[n - 2]) != "System" {
                return fail("entry-point-signature", format!("function #{}: gas / system parameters are not where the protocol expects them", s.function_idx));
            }
            if c.builtins != want {
                return fail("entry-point-builtins", format!("{kind} entry point of function #{} lists builtins {:?}, the function's builtin parameters are {:?}", s.function_idx, c.builtins, want));
            }
            builtins_seen.extend(want.iter().cloned());
            builtin_sets.insert(want);
        }
    }
    // (5) Selectors are the keccak of the ABI names.
    if let Some((ext, l1, ctor)) = abi_names(class) {
        let sel = |names: &BTreeSet<String>| -> BTreeSet<BigUint> { names.iter().map(|n| starknet_keccak(n.as_bytes())).collect() };
        let have = |eps: &Vec<CasmContractEntryPoint>| -> BTreeSet<BigUint> { eps.iter().map(|e| e.selector.clone()).collect() };
        if sel(&ext) != have(&casm.entry_points_by_type.external) {
            return fail("selectors-differ-from-abi", format!("external selectors are not the starknet_keccak of the ABI's external function names {:?}", ext));
        }
        if sel(&l1) != have(&casm.entry_points_by_type.l1_handler) {
            return fail("selectors-differ-from-abi", "l1_handler selectors are not the keccak of the ABI's handler names".into());
        }
        if sel(&ctor) != have(&casm.entry_points_by_type.constructor) {
            return fail("selectors-differ-from-abi", "constructor selector is not the keccak of the ABI's constructor name".into());
        }
    }
    // (6) Hints point at instructions, in increasing order.
    let mut last = None;
    for (off, hs) in &casm.hints {
        if !instruction_starts.contains(off) || *off >= code_len {
            return fail("hint-offset-not-instruction", format!("hint offset {off} is not the start of an instruction"));
        }
        if hs.is_empty() {
            return fail("empty-hint-list", format!("empty hint list at {off}"));
        }
        if let Some(l) = last {
            if *off <= l {
                return fail("hints-not-sorted", "hint offsets are not strictly increasing".into());
            }
        }
        last = Some(*off);
    }
    // (7) Segments.
    if let Some(l) = &casm.bytecode_segment_lengths {
        let mut flat = vec![];
        flatten(l, &mut flat);
        let total: usize = flat.iter().sum();
        if total != casm.bytecode.len() {
            return fail("segment-lengths-sum", format!("bytecode segment lengths sum to {total}, bytecode has {} words", casm.bytecode.len()));
        }
        let stmt_starts: BTreeSet<usize> = cp.debug_info.sierra_statement_info.iter().map(|s| s.start_offset).chain([code_len]).collect();
        let mut at = 0;
        let mut segments_inside_statements = 0usize;
        for len in &flat {
            // (Informational only: the property states the sum, not where segments start.)
            if at < code_len && !stmt_starts.contains(&at) {
                segments_inside_statements += 1;
            }
            at += len;
        }
        let _ = segments_inside_statements;
    }
    // (8) Size limits.
    let n = casm.bytecode.len();
    match panics::catch(|| CasmContractClass::from_contract_class(class.clone(), class.extract_sierra_program(false).unwrap(), false, n)) {
        Ok(Ok(c)) => {
            if c != casm {
                return fail("exact-size-limit-changes-class", "max_bytecode_size == size changes the class".into());
            }
        }
        Ok(Err(e)) => return fail("exact-size-limit-rejected", format!("max_bytecode_size equal to the bytecode size is rejected: {e}")),
        Err(p) => return fail("panic", format!("from_contract_class (exact limit) panicked at {}", p.loc)),
    }
    if n > 0 {
        match panics::catch(|| CasmContractClass::from_contract_class(class.clone(), class.extract_sierra_program(false).unwrap(), false, n - 1)) {
            Ok(Ok(_)) => return fail("size-limit-not-enforced", format!("max_bytecode_size = {} accepted a class of {n} words", n - 1)),
            Ok(Err(_)) => {}
            Err(p) => return fail("panic", format!("from_contract_class (limit - 1) panicked at {}: {}", p.loc, truncate(&p.msg, 200))),
        }
    }
    Ok(Facts { entry_points: all_eps.len(), builtin_sets, builtins_seen, hints: casm.hints.len(), bytecode_len: n })
}

// ---- contract sources ----------------------------------------------------------------------------

fn corpus_db() -> (RootDatabase, Vec<CrateInput>) {
    let mut db = cairo::new_db(Plugins::Starknet, None);
    let inputs = setup_project(&mut db, &repo_root().join("crates/cairo-lang-starknet/cairo_level_tests")).expect("contracts project");
    (db, inputs)
}

pub fn compile_all(db: &RootDatabase, inputs: &[CrateInput]) -> Result<Vec<(String, ContractClass)>, String> {
    let ids = CrateInput::into_crate_ids(db, inputs.to_vec());
    let mut contracts = find_contracts(db, &ids);
    contracts.sort_by_key(|c| c.submodule_id.full_path(db));
    let refs: Vec<_> = contracts.iter().collect();
    let mut diag = String::new();
    let rep = DiagnosticsReporter::write_to_string(&mut diag).with_crates(inputs).allow_warnings();
    let classes = cairo_lang_starknet::compile::compile_prepared_db(db, &refs, CompilerConfig { diagnostics_reporter: rep, replace_ids: true, ..CompilerConfig::default() });
    match classes {
        Ok(cs) => Ok(cs.into_iter().zip(contracts.iter()).map(|(c, d)| (d.submodule_id.full_path(db), c)).collect()),
        Err(e) => Err(format!("{e}\n{diag}")),
    }
}

const BODIES: &[(&str, &str)] = &[
    ("pedersen", "core::pedersen::pedersen(a, 1)"),
    ("poseidon", "core::poseidon::poseidon_hash_span(array![a, 2].span())"),
    ("bitwise", "{ let x: u128 = a.try_into().unwrap_or(5); ((x & 0xff) | 3).into() }"),
    ("range_check", "{ let x: u128 = a.try_into().unwrap_or(7); (x / 3 + 1).into() }"),
    ("u256", "{ let x: u256 = a.into(); let y = x * 3 + 1; y.low.into() }"),
    ("dict", "{ let mut d: core::dict::Felt252Dict<felt252> = Default::default(); d.insert(a, 5); d.get(a) + d.get(1) }"),
    ("storage", "{ self.v.write(a); self.v.read() + 1 }"),
    ("map", "{ self.m.write(a, 9); self.m.read(a).into() }"),
    ("plain", "a + 1"),
    ("ec", "{ match core::ec::EcPointTrait::new_nz_from_x(a) { Option::Some(p) => { let mut st = core::ec::EcStateTrait::init(); st.add_mul(3, p); match st.finalize_nz() { Option::Some(q) => core::ec::EcPointTrait::x(q), Option::None => 1 } }, Option::None => 0 } }"),
];

fn ident(ch: &mut Choices, used: &mut BTreeSet<String>) -> String {
    for attempt in 0..1000 {
        if attempt >= 3 {
            // Choices ran dry (or keep colliding): a counter keeps names distinct.
            let s = format!("n{}_{attempt}", used.len());
            if used.insert(s.clone()) {
                return s;
            }
            continue;
        }
        let n = 1 + ch.below(9);
        let mut s = String::new();
        for i in 0..n {
            let c = if i == 0 { b'a' + ch.below(26) as u8 } else { *ch.pick(b"abcdefghijklmnopqrstuvwxyz0123456789_") };
            s.push(c as char);
        }
        if !["self", "fn", "mod", "let", "ref", "mut", "use", "if", "else", "match", "loop", "while", "for", "in", "as", "of", "impl", "trait", "struct", "enum", "const", "type", "pub", "return", "break", "continue", "true", "false", "extern", "super", "crate", "nopanic", "implicits", "constructor", "static", "do", "macro", "unsafe", "where", "dyn", "move", "try", "typeof", "box", "become", "final", "abstract", "override", "priv", "virtual", "yield", "async", "await", "union"].contains(&s.as_str())
            && used.insert(s.clone())
        {
            return s;
        }
    }
    unreachable!()
}

pub fn gen_contract(ch: &mut Choices) -> (String, Vec<&'static str>) {
    let mut used = BTreeSet::new();
    let n_iface = ch.below(7);
    let n_ext = ch.below(4);
    let n_l1 = ch.below(3);
    let ctor = ch.bool();
    let mut feats = vec![];
    let body = |ch: &mut Choices, feats: &mut Vec<&'static str>, view: bool| -> String {
        loop {
            let (k, b) = *ch.pick(BODIES);
            if view && (k == "storage" || k == "map") {
                continue;
            }
            if !feats.contains(&k) {
                feats.push(k);
            }
            return b.to_string();
        }
    };
    let mut iface = String::new();
    let mut imp = String::new();
    for _ in 0..n_iface {
        let name = ident(ch, &mut used);
        let view = ch.bool();
        let selfp = if view { "self: @T" } else { "ref self: T" };
        let selfi = if view { "self: @ContractState" } else { "ref self: ContractState" };
        iface.push_str(&format!("    fn {name}({selfp}, a: felt252) -> felt252;\n"));
        let b = body(ch, &mut feats, view);
        imp.push_str(&format!("        fn {name}({selfi}, a: felt252) -> felt252 {{\n            {b}\n        }}\n"));
    }
    let mut free = String::new();
    for _ in 0..n_ext {
        let name = ident(ch, &mut used);
        let b = body(ch, &mut feats, false);
        free.push_str(&format!("    #[external(v0)]\n    fn {name}(ref self: ContractState, a: felt252) -> felt252 {{\n        {b}\n    }}\n"));
    }
    for _ in 0..n_l1 {
        let name = ident(ch, &mut used);
        let b = body(ch, &mut feats, false);
        free.push_str(&format!("    #[l1_handler]\n    fn {name}(ref self: ContractState, from_address: felt252, a: felt252) {{\n        let _r: felt252 = {b};\n    }}\n"));
    }
    if ctor {
        let b = body(ch, &mut feats, false);
        free.push_str(&format!("    #[constructor]\n    fn constructor(ref self: ContractState, a: felt252) {{\n        let _r: felt252 = {b};\n    }}\n"));
    }
    let src = format!(
        "#[starknet::interface]\ntrait IGen<T> {{\n{iface}}}\n\n#[starknet::contract]\nmod gen_contract {{\n    use starknet::storage::{{Map, StorageMapReadAccess, StorageMapWriteAccess, StoragePointerReadAccess, StoragePointerWriteAccess}};\n    use core::dict::Felt252DictTrait;\n    use core::ec::{{EcPointTrait, EcStateTrait}};\n    #[storage]\n    struct Storage {{\n        v: felt252,\n        m: Map<felt252, u128>,\n    }}\n{}{free}}}\n",
        if n_iface > 0 { format!("    #[abi(embed_v0)]\n    impl GenImpl of super::IGen<ContractState> {{\n{imp}    }}\n") } else { String::new() }
    );
    (src, feats)
}

pub fn compile_generated(db: &RootDatabase, src: &str) -> Result<ContractClass, String> {
    let name = format!("g{}", hash_str(src) % 1_000_000);
    let input = cairo::virtual_crate_input(&name, src, cairo::SETTINGS_2024_07, None);
    let inputs = vec![input];
    let r = compile_all(db, &inputs)?;
    r.into_iter().next().map(|(_, c)| c).ok_or_else(|| "no contract found".to_string())
}

impl Prop for C19 {
    fn id(&self) -> &'static str {
        "C19"
    }
    fn rule(&self) -> String {
        "Contracts: every contract of the Starknet test crate (crates/cairo-lang-starknet/cairo_level_tests, \
         compiled from source in this run; shard 0) and generated contracts from a template grammar: 0-6 interface \
         functions (view / external) in an embedded impl, 0-3 standalone #[external(v0)] functions, 0-2 l1 \
         handlers, optional constructor, random identifiers as names (hence selector order), bodies drawn from \
         pedersen, poseidon, bitwise, range-check arithmetic, u256, Felt252Dict (segment arena), storage variable, \
         storage map, EC point, plain felt. For each class: CasmContractClass::from_contract_class must (1) give \
         the same class for the JSON-published contract class as for the in-memory one, with stable class hashes \
         and JSON under a round trip, and identical bytecode / entry points / hints with pythonic hints on \
         (aligned with the hints); (2) have bytecode equal to my own calc_metadata + compile + assemble + encode of \
         the decoded program (canonical words < P); (3) give each entry point the offset of its function's first \
         instruction (an instruction boundary of my own assembly), the builtin list of the function's builtin \
         parameters mapped through my own copy of the protocol order (strictly increasing), selectors strictly \
         sorted, equal to the Sierra entry points' and to starknet_keccak of the ABI's names; (4) hint offsets on \
         instruction starts, strictly increasing; segment lengths summing to the bytecode length; (5) max_bytecode_size = size accepted with the same class, size-1 rejected by \
         an error, never a panic. Non-trivial = class with >= 2 entry points having different builtin lists; \
         distinct = hash of the class JSON."
            .into()
    }
    fn assumptions(&self) -> Vec<String> {
        vec!["a generated contract the front end rejects is skipped and counted (bounded by the health check)".into()]
    }
    fn worker(&self, ctx: &mut WorkerCtx) {
        let tier = ctx.tier;
        // Part 1 (shard 0 only): the corpus contracts.
        if ctx.shards.contains(&0) && ctx.only.is_none() {
            let (db, inputs) = corpus_db();
            match panics::catch(|| compile_all(&db, &inputs)) {
                Ok(Ok(classes)) => {
                    for (name, class) in classes {
                        match check_class(&class, &name) {
                            Ok(f) => record(&mut ctx.stats, &class, &f, "corpus"),
                            Err((sig, what)) => {
                                let fl = crate::core::driver::Failure { sig, what, artefact: json!({"kind": "corpus", "contract": name}) };
                                ctx.report(&fl, 0);
                            }
                        }
                    }
                }
                Ok(Err(e)) => ctx.inconclusive(&format!("the contracts crate does not compile: {}", truncate(&e, 300))),
                Err(p) => ctx.inconclusive(&format!("compiling the contracts crate panicked at {}", p.loc)),
            }
        }
        let cases = tier.pick(12, 150);
        ctx.shrink_iters = 60;
        let mut db = cairo::new_db(Plugins::Starknet, None);
        let mut n = 0u64;
        ctx.run_shards(400, cases, |cc: &mut CaseCtx<'_>, ch: &mut Choices| {
            n += 1;
            if n % 25 == 0 {
                db = cairo::new_db(Plugins::Starknet, None);
            }
            let (src, feats) = gen_contract(ch);
            let a = json!({"kind": "generated", "source": src});
            cc.start(|| a.clone());
            let class = match panics::catch(|| compile_generated(&db, &src)) {
                Ok(Ok(c)) => c,
                Ok(Err(e)) => {
                    cc.stats().count("generated_contract_rejected(generator)");
                    if std::env::var("VERIF_DBG").is_ok() {
                        eprintln!("REJECTED:\n{src}\n{e}");
                    }
                    return Verdict::Skip("generated contract rejected");
                }
                Err(_) => return Verdict::Skip("front end panic (C08/C09)"),
            };
            match check_class(&class, "generated") {
                Ok(f) => {
                    record(cc.stats(), &class, &f, "generated");
                    for k in feats {
                        cc.stats().count(&format!("body:{k}"));
                    }
                    Verdict::Pass
                }
                Err((sig, what)) => Verdict::fail(sig, what, a),
            }
        });
    }
    fn replay(&self, a: &Value) -> Verdict {
        if a["kind"].as_str() == Some("corpus") {
            let (db, inputs) = corpus_db();
            let Ok(classes) = compile_all(&db, &inputs) else { return Verdict::Skip("contracts crate does not compile") };
            let want = a["contract"].as_str().unwrap_or("");
            for (name, class) in classes {
                if name == want {
                    return match check_class(&class, &name) {
                        Ok(_) => Verdict::Pass,
                        Err((sig, what)) => Verdict::fail(sig, what, a.clone()),
                    };
                }
            }
            return Verdict::Skip("contract not found");
        }
        let db = cairo::new_db(Plugins::Starknet, None);
        let Ok(class) = compile_generated(&db, a["source"].as_str().unwrap_or("")) else { return Verdict::Skip("rejected") };
        match check_class(&class, "generated") {
            Ok(_) => Verdict::Pass,
            Err((sig, what)) => Verdict::fail(sig, what, a.clone()),
        }
    }
    fn health(&self, _tier: Tier, agg: &Agg) -> Result<(), String> {
        let rej = agg.class("generated_contract_rejected(generator)");
        let ok = agg.class("classes:generated");
        if rej * 5 > ok + rej {
            return Err(format!("{rej} of {} generated contracts were rejected by the front end", ok + rej));
        }
        if agg.class("classes:corpus") < 10 {
            return Err("fewer than 10 corpus contracts were checked".into());
        }
        Ok(())
    }
}

fn record(st: &mut crate::core::driver::Stats, class: &ContractClass, f: &Facts, origin: &str) {
    st.eval();
    st.count(&format!("classes:{origin}"));
    st.add("entry_points", f.entry_points as u64);
    st.add("hints", f.hints as u64);
    st.add("bytecode_words", f.bytecode_len as u64);
    for b in &f.builtins_seen {
        st.count(&format!("builtin:{b}"));
    }
    if f.builtin_sets.len() >= 2 {
        st.nontrivial(hash_str(&serde_json::to_string(class).unwrap_or_default()));
    }
    st.sample(1, || json!({"origin": origin, "entry_points": f.entry_points, "distinct_builtin_lists": f.builtin_sets.len(), "bytecode_words": f.bytecode_len, "hints": f.hints}));
}
