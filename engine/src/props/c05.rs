//! C05 — observable behaviour is invariant under optimisation / lowering configuration.

use serde_json::{Value, json};

use crate::core::cairo::Plugins;
use crate::core::choices::{Choices, hash_str};
use crate::core::driver::{Agg, CaseCtx, Prop, Tier, Verdict, WorkerCtx};
use crate::core::exec::{CompileErr, FrontCfg, MetaCfg};
use crate::oracle::value::{self, Norm};
use crate::props::execs;

pub struct C05;

impl Prop for C05 {
    fn id(&self) -> &'static str {
        "C05"
    }
    fn rule(&self) -> String {
        "Programs: generated programs, e2e snippet functions and example files (arguments directed by the \
         Sierra parameter types). Each is compiled under two configurations drawn from {optimisations \
         disabled} U {enabled x inlining {Default, Avoid, Small(0/5/50/200)} x skip_const_folding x \
         numeric-match threshold {unset,1,2,3,100}} x {linear, non-linear solver} (one side is the default \
         in half of the cases) and run on the same inputs with the same gas; results are compared \
         pointer-aware (arrays/boxes by content, enum padding ignored, dictionaries opaque). Excluded by the \
         statement: functions reaching gas introspection libfuncs, and pairs where a side ends 'Out of gas'. \
         Non-trivial = the two configurations produced different Sierra for the program; distinct = \
         hash(source, configs, function, args)."
            .into()
    }
    fn assumptions(&self) -> Vec<String> {
        vec!["only gas and step counts may differ between configurations (statement of C05)".into()]
    }
    fn worker(&self, ctx: &mut WorkerCtx) {
        let snippets = execs::load_snippets();
        let cases = ctx.tier.pick(30, 400);
        ctx.shrink_iters = 150;
        let mut db = FrontCfg::default_cfg().new_db(Plugins::Default);
        let mut n = 0u64;
        ctx.run_shards(1300, cases, |cc: &mut CaseCtx<'_>, ch: &mut Choices| {
            n += 1;
            if n % 50 == 0 {
                db = FrontCfg::default_cfg().new_db(Plugins::Default);
            }
            let cfg_a = if ch.bool() { FrontCfg::default_cfg() } else { FrontCfg::generate(ch) };
            let cfg_b = FrontCfg::generate(ch);
            let nonlinear_b = ch.chance(1, 3);
            let case = execs::pick_case_bl(ch, &snippets, 6, 6, 2);
            let small = case.source.len() < 2500;
            let meta_a = MetaCfg::linear();
            let meta_b = if small && nonlinear_b { MetaCfg { linear_gas: false, linear_ap: false } } else { MetaCfg::linear() };
            let ca = match execs::compile_case(&mut db, &case, &cfg_a, meta_a) {
                Ok(c) => c,
                Err(CompileErr::Diagnostics(_)) => return Verdict::Skip("does not compile standalone"),
                Err(_) => return Verdict::Skip("compile failure (C08)"),
            };
            let cb = match execs::compile_case(&mut db, &case, &cfg_b, meta_b) {
                Ok(c) => c,
                Err(CompileErr::Diagnostics(_)) => return Verdict::Skip("does not compile standalone"),
                Err(_) => {
                    cc.stats().count("side_b_compile_failure");
                    return Verdict::Skip("compile failure (C08) or no metadata");
                }
            };
            if value::uses_gas_introspection(&ca) || value::uses_gas_introspection(&cb) {
                cc.stats().count("excluded_gas_introspection");
                return Verdict::Skip("gas introspection");
            }
            let Some((fa, args)) = execs::resolve(&case, &ca) else { return Verdict::Skip("no runnable function") };
            let fname = fa.id.debug_name.clone();
            let Some(fb) = cb.builder.sierra_program().funcs.iter().find(|f| f.id.debug_name == fname).cloned() else {
                return Verdict::Skip("function missing on side b");
            };
            let sierra_differs = ca.builder.sierra_program().to_string() != cb.builder.sierra_program().to_string();
            let st = cc.stats();
            st.count("pairs");
            if sierra_differs {
                st.count("pairs_with_different_sierra");
            }
            st.count(if case.generated { "pairs_generated" } else { "pairs_corpus" });
            if sierra_differs && case.generated {
                st.count("pairs_generated_with_different_sierra");
            }
            for a in &args {
                let ra = execs::run(&ca, &fa, a, Some(execs::BIG_GAS));
                let rb = execs::run(&cb, &fb, a, Some(execs::BIG_GAS));
                cc.stats().eval();
                let (Ok(ea), Ok(eb)) = (&ra, &rb) else {
                    cc.stats().count("run_error(C02)");
                    continue;
                };
                let na = value::normalize(&ca, &fa, ea);
                let nb = value::normalize(&cb, &fb, eb);
                if value::is_out_of_gas(&na) || value::is_out_of_gas(&nb) {
                    cc.stats().count("excluded_out_of_gas");
                    continue;
                }
                if na == Norm::Undecodable || nb == Norm::Undecodable {
                    cc.stats().count("undecodable");
                    continue;
                }
                if sierra_differs {
                    cc.stats().nontrivial(hash_str(&case.source) ^ hash_str(&format!("{}{}{:?}{:?}", cfg_a.describe(), cfg_b.describe(), fname, crate::gens::sierra_args::args_to_json(a))));
                }
                if matches!(na, Norm::Panic(_)) {
                    cc.stats().count("panic_results_compared");
                }
                if na != nb {
                    let mut art = execs::artefact(&case, &fa, a, &cfg_a, meta_a, Some(execs::BIG_GAS));
                    art["config_b"] = cfg_b.to_json();
                    art["linear_b"] = json!(meta_b.linear_gas);
                    return Verdict::fail(
                        "result-differs-across-configurations",
                        format!("[{}] gives {:?} but [{}] gives {:?}", cfg_a.describe(), na, cfg_b.describe(), nb),
                        art,
                    );
                }
            }
            cc.stats().sample(1, || json!({"origin": case.origin, "config_a": cfg_a.describe(), "config_b": cfg_b.describe(), "function": fname.as_ref().map(|s| s.to_string()), "sierra_differs": sierra_differs}));
            Verdict::Pass
        });
    }
    fn replay(&self, artefact: &Value) -> Verdict {
        let Ok((ca, fa, args, gas)) = execs::from_artefact(artefact) else { return Verdict::Skip("does not compile") };
        let mut b = artefact.clone();
        b["config"] = artefact["config_b"].clone();
        b["linear_gas"] = artefact["linear_b"].clone();
        b["linear_ap"] = artefact["linear_b"].clone();
        let Ok((cb, fb, _, _)) = execs::from_artefact(&b) else { return Verdict::Skip("side b does not compile") };
        let (Ok(ea), Ok(eb)) = (execs::run(&ca, &fa, &args, gas), execs::run(&cb, &fb, &args, gas)) else { return Verdict::Skip("run error") };
        let na = value::normalize(&ca, &fa, &ea);
        let nb = value::normalize(&cb, &fb, &eb);
        if value::is_out_of_gas(&na) || value::is_out_of_gas(&nb) || na == Norm::Undecodable || nb == Norm::Undecodable {
            return Verdict::Skip("excluded");
        }
        if na != nb {
            return Verdict::fail("result-differs-across-configurations", format!("{na:?} vs {nb:?}"), json!({}));
        }
        Verdict::Pass
    }
    fn health(&self, _tier: Tier, agg: &Agg) -> Result<(), String> {
        if agg.class("pairs_with_different_sierra") * 3 < agg.class("pairs") {
            return Err("fewer than a third of the configuration pairs changed the generated Sierra".into());
        }
        Ok(())
    }
}
