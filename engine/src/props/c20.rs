//! C20 — compiling against a crate cache equals compiling the crate from source.
//!
//! Differential check: the same dependent program is compiled in two databases that differ only in
//! the `cache_file` of one crate — the core library (blob from `generate_crate_cache`), or a
//! generated library crate the dependent calls into. Diagnostics, Sierra and CASM must be equal
//! under every optimisation configuration.

use std::path::PathBuf;

use cairo_lang_compiler::db::RootDatabase;
use cairo_lang_filesystem::db::{
    CrateConfiguration, CrateSettings, DependencySettings, Edition, ExperimentalFeaturesConfig, FilesGroup, files_group_input,
    set_crate_configs_input,
};
use cairo_lang_filesystem::ids::{BlobLongId, CrateId, CrateInput, Directory, FileLongId, SmolStrId};
use cairo_lang_filesystem::{override_file_content, set_crate_config};
use cairo_lang_lowering::cache::generate_crate_cache;
use cairo_lang_utils::Intern;
use salsa::Database;
use serde_json::{Value, json};

use crate::core::cairo::{self, Plugins};
use crate::core::choices::{Choices, hash_str};
use crate::core::driver::{Agg, CaseCtx, Prop, Tier, Verdict, WorkerCtx, truncate};
use crate::core::exec::{self, FrontCfg};
use crate::core::panics;
use crate::core::sierra;
use crate::gens::prog::Param;
use crate::props::{c01, execs};

pub struct C20;

/// The corelib cache blob, generated once per process from /repo's corelib.
fn core_blob() -> Option<&'static Vec<u8>> {
    static CELL: std::sync::OnceLock<Option<Vec<u8>>> = std::sync::OnceLock::new();
    CELL.get_or_init(|| {
        panics::catch(|| {
            let db = cairo::new_db(Plugins::Default, None);
            generate_crate_cache(&db, CrateId::core(&db)).ok()
        })
        .ok()
        .flatten()
    })
    .as_ref()
}

fn with_core_cache(db: &mut RootDatabase, blob: &[u8]) {
    let crt = db.crate_input(CrateId::core(db)).clone();
    let mut configs = files_group_input(db).crate_configs(db).clone().unwrap();
    configs.get_mut(&crt).unwrap().cache_file = Some(BlobLongId::Virtual(blob.to_vec()));
    set_crate_configs_input(db, Some(configs));
}

#[derive(Debug, PartialEq, Clone)]
pub struct Out {
    pub diagnostics: String,
    pub sierra: Option<String>,
    pub casm: Option<String>,
}

fn observe(db: &RootDatabase, input: &CrateInput) -> Result<Out, panics::PanicRec> {
    panics::catch(|| {
        let (diagnostics, _) = cairo::diagnostics_string(db, input);
        let program = exec::sierra_of_crate(db, input).ok();
        let casm = program.as_ref().and_then(|p| sierra::pipeline(p, false).ok()).and_then(|r| r.casm.map(|c| c.to_string()));
        Out { diagnostics, sierra: program.map(|p| p.to_string()), casm }
    })
}

fn diff(a: &Out, b: &Out) -> Option<(String, String)> {
    let first = |x: &str, y: &str| -> String {
        for (i, (p, q)) in x.lines().zip(y.lines()).enumerate() {
            if p != q {
                return format!("line {i}: from source {:?} / from cache {:?}", truncate(p, 200), truncate(q, 200));
            }
        }
        format!("{} lines from source / {} lines from cache", x.lines().count(), y.lines().count())
    };
    if a.diagnostics != b.diagnostics {
        return Some(("diagnostics-differ".into(), format!("diagnostics of the dependent differ: {}", first(&a.diagnostics, &b.diagnostics))));
    }
    match (&a.sierra, &b.sierra) {
        (Some(x), Some(y)) if x != y => return Some(("sierra-differs".into(), format!("Sierra of the dependent differs: {}", first(x, y)))),
        (Some(_), None) | (None, Some(_)) => {
            return Some(("sierra-presence-differs".into(), format!("from source: Sierra {}, from cache: Sierra {}", a.sierra.is_some(), b.sierra.is_some())));
        }
        _ => {}
    }
    match (&a.casm, &b.casm) {
        (Some(x), Some(y)) if x != y => Some(("casm-differs".into(), format!("CASM of the dependent differs: {}", first(x, y)))),
        (Some(_), None) | (None, Some(_)) => Some(("casm-presence-differs".into(), "CASM produced on one side only".into())),
        _ => None,
    }
}

/// Counts Sierra functions whose debug name starts with the prefix.
fn funcs_with_prefix(sierra: &Option<String>, prefix: &str) -> usize {
    let Some(s) = sierra else { return 0 };
    s.lines().rev().take_while(|l| !l.is_empty()).filter(|l| l.starts_with(prefix)).count()
}

// ---- mode A: corelib from cache ------------------------------------------------------------------

pub fn judge_core(src_db: &mut RootDatabase, cache_db: &mut RootDatabase, source: &str, settings: &str, cfg: &FrontCfg) -> Result<(Out, usize), (String, String)> {
    cfg.apply(src_db);
    cfg.apply(cache_db);
    let name = format!("p{}", hash_str(source) % 1_000_000);
    let input = cairo::virtual_crate_input(&name, source, settings, None);
    let a = observe(src_db, &input);
    let b = observe(cache_db, &input);
    match (a, b) {
        (Ok(a), Ok(b)) => match diff(&a, &b) {
            Some(v) => Err(v),
            None => {
                let n = funcs_with_prefix(&a.sierra, "core::");
                Ok((a, n))
            }
        },
        (Err(_), Err(_)) => Err(("skip".into(), "both sides panic (C08 / C09)".into())),
        (Ok(_), Err(p)) => Err(("cache-side-panics".into(), format!("with the corelib from cache the compiler panics at {}: {}", p.loc, truncate(&p.msg, 200)))),
        (Err(p), Ok(_)) => Err(("source-side-panics".into(), format!("with the corelib from source the compiler panics at {} while the cache side answers: {}", p.loc, truncate(&p.msg, 200)))),
    }
}

// ---- mode B: a generated library crate from cache ---------------------------------------------

const LIB_SETTINGS: fn() -> CrateSettings = || CrateSettings {
    edition: Edition::V2024_07,
    experimental_features: ExperimentalFeaturesConfig {
        negative_impls: true,
        associated_item_constraints: true,
        coupons: true,
        user_defined_inline_macros: true,
        repr_ptrs: true,
    },
    ..CrateSettings::default()
};

fn add_real_crate(db: &mut RootDatabase, name: &str, content: &str, settings: CrateSettings, cache: Option<Vec<u8>>) -> CrateInput {
    let root = PathBuf::from(format!("/verif-c20-virtual-root/{name}"));
    let db_mut: &mut dyn Database = db;
    let crate_id = CrateId::plain(db_mut, SmolStrId::from(db_mut, name));
    let cfg = CrateConfiguration { root: Directory::Real(root.clone()), settings, cache_file: None };
    set_crate_config!(db_mut, crate_id, Some(cfg));
    if let Some(blob) = cache {
        let crate_id = CrateId::plain(db_mut, SmolStrId::from(db_mut, name));
        let crt = crate_id.long(db_mut).clone().into_crate_input(db_mut);
        let mut configs = files_group_input(db_mut).crate_configs(db_mut).clone().unwrap();
        configs.get_mut(&crt).unwrap().cache_file = Some(BlobLongId::Virtual(blob));
        set_crate_configs_input(db_mut, Some(configs));
    }
    let file_id = FileLongId::OnDisk(root.join("lib.cairo")).intern(db_mut);
    override_file_content!(db_mut, file_id, Some(content.to_string().into()));
    let crate_id = CrateId::plain(db_mut, SmolStrId::from(db_mut, name));
    crate_id.long(db_mut).clone().into_crate_input(db_mut)
}

/// Library = a generated program; dependent = a crate (old edition: no visibility) that calls the
/// library's `main` and one more function through the crate path.
pub fn judge_lib(lib_src: &str, dep_src: &str, lib_name: &str, cfg: &FrontCfg, core_cached: bool) -> Result<(Out, usize), (String, String)> {
    let dep_settings = || {
        let mut s = CrateSettings { edition: Edition::V2023_01, ..CrateSettings::default() };
        s.dependencies.insert(lib_name.to_string(), DependencySettings { discriminator: None });
        s
    };
    let r = panics::catch(|| {
        // Blob from a database of its own.
        let mut gen_db = cfg.new_db(Plugins::Default);
        let lib_in = add_real_crate(&mut gen_db, lib_name, lib_src, LIB_SETTINGS(), None);
        let (d, err) = cairo::has_errors(&gen_db, &lib_in);
        if err {
            return Err(("skip".to_string(), format!("library does not compile: {}", truncate(&d, 200))));
        }
        let lib_id = cairo::crate_id(&gen_db, &lib_in);
        let blob = match generate_crate_cache(&gen_db, lib_id) {
            Ok(b) => b,
            Err(e) => return Err(("cache-generation-fails".to_string(), format!("generate_crate_cache fails on an error-free crate: {e}"))),
        };
        drop(gen_db);
        let mut src_db = cfg.new_db(Plugins::Default);
        add_real_crate(&mut src_db, lib_name, lib_src, LIB_SETTINGS(), None);
        let dep_a = add_real_crate(&mut src_db, "dep", dep_src, dep_settings(), None);
        let a = observe(&src_db, &dep_a);
        drop(src_db);
        let mut cache_db = cfg.new_db(Plugins::Default);
        if core_cached {
            if let Some(cb) = core_blob() {
                with_core_cache(&mut cache_db, cb);
            }
        }
        add_real_crate(&mut cache_db, lib_name, lib_src, LIB_SETTINGS(), Some(blob));
        let dep_b = add_real_crate(&mut cache_db, "dep", dep_src, dep_settings(), None);
        let b = observe(&cache_db, &dep_b);
        Ok((a, b))
    });
    let (a, b) = match r {
        Ok(Ok(x)) => x,
        Ok(Err(e)) => return Err(e),
        Err(p) => return Err((format!("panic@{}", p.loc), format!("panic while preparing the cache comparison at {}: {}", p.loc, truncate(&p.msg, 200)))),
    };
    match (a, b) {
        (Ok(a), Ok(b)) => match diff(&a, &b) {
            Some(v) => Err(v),
            None => {
                let n = funcs_with_prefix(&a.sierra, lib_name);
                Ok((a, n))
            }
        },
        (Err(_), Err(_)) => Err(("skip".into(), "both sides panic".into())),
        (Ok(_), Err(p)) => Err(("cache-side-panics".into(), format!("with the library from cache the compiler panics at {}: {}", p.loc, truncate(&p.msg, 200)))),
        (Err(p), Ok(_)) => Err(("source-side-panics".into(), format!("panic at {} with the library from source only: {}", p.loc, truncate(&p.msg, 200)))),
    }
}

const LIB_EXTRA: &str = "
pub fn lib_sum(n: u32) -> u32 {
    array![1_u32, 2, n].into_iter().map(|x| x + 1).sum()
}
pub fn lib_closure(n: u32) -> u32 {
    let add = |x: u32| x + n;
    let twice = |x: u32| add(x) * 2;
    twice(3) + array![n, 5].into_iter().fold(0, |a, b| a + b)
}
pub fn lib_match(n: u8) -> felt252 {
    match n {
        0 => 'zero',
        1 => 'one',
        2 => 'two',
        _ => format!(\"{}\", n).len().into(),
    }
}
";

pub fn dependent_of(pc: &c01::ProgramCase, lib: &str) -> String {
    let e = &pc.program.funcs[pc.program.entry];
    let params: Vec<String> = e.params.iter().filter_map(|pa| if let Param::Val(n, t) = pa { Some(format!("{n}: {}", t.name(&pc.program))) } else { None }).collect();
    let args: Vec<String> = e.params.iter().filter_map(|pa| if let Param::Val(n, _) = pa { Some(n.clone()) } else { None }).collect();
    format!(
        "fn dep_main({}) -> Array<felt252> {{\n    let mut out = {lib}::main({});\n    out.append(7);\n    out\n}}\nfn dep_extra(n: u32) -> felt252 {{\n    ({lib}::lib_sum(n) + {lib}::lib_closure(n)).into() + {lib}::lib_match(3)\n}}\n",
        params.join(", "),
        args.join(", ")
    )
}

impl Prop for C20 {
    fn id(&self) -> &'static str {
        "C20"
    }
    fn rule(&self) -> String {
        "Mode A (2/3 of the cases): the dependent is a generated typed program, an e2e snippet, an example file, or (a third) a corelib-heavy program of 4-10 functions drawn from 39 that each lean on another corelib facility (iterator adapters, ByteArray / format!, Option / Result combinators, dictionaries, spans, integer traits, u256, hashes, EC, keccak, sha256, Serde, boxes, fixed arrays, ..), \
         compiled as a virtual crate in two databases that differ only in the core library's cache_file (blob from \
         generate_crate_cache on /repo's corelib, generated once per process). Mode B: the cached crate is a \
         generated library (a generated program as a real crate with overridden contents, edition 2024_07), its \
         blob made by generate_crate_cache in a database of its own; the dependent is a second crate that calls the \
         library's entry function through the crate path (in half of these cases the corelib comes from its cache \
         as well). Both under a random optimisation configuration (C05 lattice: the blob holds pre-optimisation \
         lowerings, so one blob must serve all). Compared: diagnostics text of the dependent, Sierra text (debug \
         names), CASM text. Non-trivial = the dependent's Sierra contains >= 10 functions of the cached crate \
         (mode A) / >= 1 (mode B); distinct = hash(dependent, configuration, mode)."
            .into()
    }
    fn assumptions(&self) -> Vec<String> {
        vec!["dependents whose compilation panics on both sides are skipped (C08 / C09)".into()]
    }
    fn worker(&self, ctx: &mut WorkerCtx) {
        let Some(blob) = core_blob() else {
            ctx.inconclusive("generate_crate_cache on the core library failed");
            return;
        };
        let snippets = execs::load_snippets();
        let cases = ctx.tier.pick(10, 150);
        ctx.shrink_iters = 60;
        let mk = |blob: &Vec<u8>| {
            let a = cairo::new_db(Plugins::Default, None);
            let mut b = cairo::new_db(Plugins::Default, None);
            with_core_cache(&mut b, blob);
            (a, b)
        };
        let (mut src_db, mut cache_db) = mk(blob);
        let mut n = 0u64;
        ctx.run_shards(1400, cases, |cc: &mut CaseCtx<'_>, ch: &mut Choices| {
            n += 1;
            if n % 40 == 0 {
                (src_db, cache_db) = mk(blob);
            }
            // The blob records the global flags it was compiled under and refuses others (a
            // documented precondition), so the numeric-match flag stays unset as at blob generation.
            let mut cfg = if ch.chance(1, 3) { FrontCfg::default_cfg() } else { FrontCfg::generate(ch) };
            cfg.match_threshold = None;
            if ch.chance(1, 3) {
                // Mode B.
                let core_cached = ch.bool();
                let mut pc = c01::gen_case(ch, 0);
                pc.source = pc.source.replace("\nfn main(", "\npub fn main(");
                // The library also carries functions whose own bodies define closures and use
                // iterator adapters (their lowered bodies, closure types included, come from the blob).
                pc.source.push_str(LIB_EXTRA);
                let lib = format!("libx{}", hash_str(&pc.source) % 100_000);
                let dep = dependent_of(&pc, &lib);
                let a = json!({"mode": "library", "lib": pc.source, "dep": dep, "lib_name": lib, "config": cfg.to_json(), "core_cached": core_cached});
                cc.start(|| a.clone());
                return match judge_lib(&pc.source, &dep, &lib, &cfg, core_cached) {
                    Ok((out, nlib)) => {
                        let st = cc.stats();
                        st.eval();
                        st.count("library_cases");
                        if out.sierra.is_some() {
                            st.count("library_cases_with_sierra");
                        }
                        if nlib >= 1 {
                            st.nontrivial(hash_str(&a.to_string()));
                        }
                        st.add("library_functions_in_dependents", nlib as u64);
                        st.sample(1, || json!({"mode": "library from cache", "config": cfg.describe(), "library_functions_in_dependent_sierra": nlib, "corelib_cached_too": core_cached}));
                        Verdict::Pass
                    }
                    Err((sig, _)) if sig == "skip" => Verdict::Skip("not comparable"),
                    Err((sig, what)) => Verdict::fail(sig, what, a),
                };
            }
            let (origin, source, settings) = if ch.chance(1, 3) {
                // A corelib-heavy dependent: 4-10 functions, each leaning on another corelib facility
                // (iterators and their adapters, ByteArray / format!, Option / Result combinators,
                // dictionaries, spans, integer traits, u256, hashes, EC, keccak, sha256, Serde, ..).
                use crate::gens::corelib_heavy::{FUNCS, HEADER};
                let k = 4 + ch.below(7);
                let mut picked: Vec<usize> = (0..k).map(|_| ch.below(FUNCS.len())).collect();
                picked.sort();
                picked.dedup();
                let mut src = HEADER.to_string();
                for i in &picked {
                    src.push_str(FUNCS[*i]);
                }
                ("corelib-heavy".to_string(), src, cairo::SETTINGS_2024_07)
            } else if snippets.is_empty() || ch.chance(1, 2) {
                let c = execs::pick_case(ch, &[], 10, 0);
                ("generated".to_string(), c.source, cairo::SETTINGS_2024_07)
            } else {
                let s = &snippets[ch.below(snippets.len())];
                (s.origin.clone(), s.code.clone(), s.settings)
            };
            let a = json!({"mode": "corelib", "origin": origin, "source": source, "edition": if settings == cairo::SETTINGS_2023_01 { "2023_01" } else { "2024_07" }, "config": cfg.to_json()});
            cc.start(|| a.clone());
            match judge_core(&mut src_db, &mut cache_db, &source, settings, &cfg) {
                Ok((out, ncore)) => {
                    let st = cc.stats();
                    st.eval();
                    st.count("corelib_cases");
                    if out.sierra.is_some() {
                        st.count("corelib_cases_with_sierra");
                    } else {
                        st.count("corelib_cases_diagnostics_only");
                    }
                    if ncore >= 10 {
                        st.nontrivial(hash_str(&a.to_string()));
                    }
                    st.add("core_functions_in_dependents", ncore as u64);
                    st.sample(1, || json!({"mode": "corelib from cache", "origin": origin, "config": cfg.describe(), "core_functions_in_dependent_sierra": ncore}));
                    Verdict::Pass
                }
                Err((sig, _)) if sig == "skip" => Verdict::Skip("not comparable"),
                Err((sig, what)) => Verdict::fail(sig, what, a),
            }
        });
    }
    fn replay(&self, a: &Value) -> Verdict {
        let cfg = FrontCfg::from_json(&a["config"]);
        let r = if a["mode"].as_str() == Some("library") {
            judge_lib(a["lib"].as_str().unwrap_or(""), a["dep"].as_str().unwrap_or(""), a["lib_name"].as_str().unwrap_or("libx"), &cfg, a["core_cached"].as_bool().unwrap_or(false)).map(|_| ())
        } else {
            let Some(blob) = core_blob() else { return Verdict::Skip("no corelib blob") };
            let mut s = cairo::new_db(Plugins::Default, None);
            let mut c = cairo::new_db(Plugins::Default, None);
            with_core_cache(&mut c, blob);
            let settings = if a["edition"].as_str() == Some("2023_01") { cairo::SETTINGS_2023_01 } else { cairo::SETTINGS_2024_07 };
            judge_core(&mut s, &mut c, a["source"].as_str().unwrap_or(""), settings, &cfg).map(|_| ())
        };
        match r {
            Ok(()) => Verdict::Pass,
            Err((sig, _)) if sig == "skip" => Verdict::Skip("not comparable"),
            Err((sig, what)) => Verdict::fail(sig, what, a.clone()),
        }
    }
    fn health(&self, _tier: Tier, agg: &Agg) -> Result<(), String> {
        if agg.class("corelib_cases_with_sierra") * 2 < agg.class("corelib_cases") {
            return Err("fewer than half of the corelib-cache cases reached Sierra".into());
        }
        if agg.class("library_cases") > 0 && agg.class("library_cases_with_sierra") * 2 < agg.class("library_cases") {
            return Err("fewer than half of the library-cache cases reached Sierra".into());
        }
        Ok(())
    }
}
