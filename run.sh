#!/bin/bash
# ./run.sh <ID> quick|thorough            run the check for one property
# ./run.sh <ID> --replay <path>           re-judge a replay file
# Rebuilds the engine against /repo's current working tree first (exit 2 if it does not build).
set -u
cd "$(dirname "$0")"
export VERIF_ROOT="$PWD"
export CARGO_NET_OFFLINE=true
ID="${1:?usage: run.sh <ID> quick|thorough|--replay <path>}"
MODE="${2:-quick}"
LOG="engine/target/build-$$.log"
mkdir -p engine/target
(
  flock 9
  cd engine && cargo build --release >"../$LOG" 2>&1
) 9>engine/target/.build.lock
rc=$?
if [ $rc -ne 0 ]; then
  echo "INCONCLUSIVE: the engine does not build against /repo's working tree (see below)"
  tail -40 "$LOG"
  rm -f "$LOG"
  exit 2
fi
rm -f "$LOG"
BIN=engine/target/release/verif
if [ "$MODE" = "--replay" ]; then
  exec "$BIN" replay "$ID" "${3:?replay path}"
fi
if [ "$ID" = "C10" ] && [ "$MODE" = "thorough" ] && [ -z "${VERIF_NO_FUZZ:-}" ]; then
  # Thorough C10 = the generated-text search, then a bounded coverage-guided campaign (libFuzzer)
  # whose crash artifacts are confirmed by the same oracle (fuzz/run_c10.sh).
  "$BIN" check "$ID" --tier "$MODE"; rc=$?
  [ $rc -ne 0 ] && exit $rc
  exec fuzz/run_c10.sh
fi
exec "$BIN" check "$ID" --tier "$MODE"
