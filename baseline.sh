#!/bin/bash
# Runs the pinned baseline suite (hooks guard OFF: no cfg is set) and compares with BASELINE.json.
# Usage: ./baseline.sh   -> exit 0 iff every stable_pass test passed.
cd /repo || exit 2
OUT=${BASELINE_OUT:-/tmp/verif-baseline}
rm -rf "$OUT"; mkdir -p "$OUT"
CARGO_NET_OFFLINE=true cargo nextest run --workspace --no-fail-fast --tool-config-file pb:/w/lib/nextest.toml --profile pb --test-threads 8 --offline >"$OUT/log.txt" 2>&1
J=$(find /repo/target/nextest/pb -name junit.xml | head -1)
python3 - "$J" <<'PY'
import json,sys,xml.etree.ElementTree as ET
base=set(json.load(open('/root/.vp/BASELINE.json'))['stable_pass'])
t=ET.parse(sys.argv[1]).getroot()
passed=set()
for ts in t.iter('testsuite'):
    for tc in ts.iter('testcase'):
        ok=not any(ch.tag in('failure','error','skipped') for ch in tc)
        name=ts.get('name')+'::'+tc.get('name')
        if ok: passed.add(name)
missing=sorted(base-passed)
print(f"baseline tests: {len(base)}, passed now: {len(base&passed)}, missing/failing: {len(missing)}")
for m in missing[:40]: print("  FAIL", m)
sys.exit(1 if missing else 0)
PY
