#!/bin/bash
# Coverage-guided supplement of C10 (thorough tier only): a bounded libFuzzer campaign over the
# parser with the losslessness oracle inside the target. Every crash artifact is re-judged by the
# engine's own C10 oracle (`verif replay`); only a confirmed one is reported.
#   exit 0: nothing found (or nothing confirmed) | exit 1: VIOLATION printed | exit 2: could not run
set -u
cd "$(dirname "$0")"
ROOT="$(cd .. && pwd)"
export CARGO_NET_OFFLINE=true
SECS="${VERIF_FUZZ_SECS:-240}"
SEED="${VERIF_SEED:-0}"; [ "$SEED" = "0" ] && SEED=1
cp /repo/Cargo.lock Cargo.lock 2>/dev/null
# The confirming oracle is the engine: make sure it is built against the current /repo tree.
( flock 9; cd "$ROOT/engine" && cargo build --release >/dev/null 2>&1 ) 9>"$ROOT/engine/target/.build.lock" || { echo "INCONCLUSIVE: the engine does not build"; exit 2; }
if ! cargo +nightly fuzz build --fuzz-dir . c10_lossless >target-build.log 2>&1; then
  echo "INCONCLUSIVE: the C10 fuzz target does not build (cargo +nightly fuzz build):"; tail -20 target-build.log; exit 2
fi
WORK="$(mktemp -d "${TMPDIR:-/tmp}/verif-c10-fuzz.XXXXXX")"
mkdir -p "$WORK/corpus" "$WORK/artifacts"
# Seed corpus: a few small valid files from the repository plus the empty corpus behaviour.
for f in /repo/examples/fib.cairo /repo/examples/enum_flow.cairo /repo/examples/match_or.cairo /repo/corelib/src/zeroable.cairo; do
  [ -f "$f" ] && head -c 1500 "$f" > "$WORK/corpus/$(basename "$f")"
done
cargo +nightly fuzz run --fuzz-dir . c10_lossless "$WORK/corpus" -- \
  -seed="$SEED" -max_len=1024 -len_control=0 -fork=$(nproc) -ignore_crashes=1 \
  -max_total_time="$SECS" -artifact_prefix="$WORK/artifacts/" >"$WORK/log" 2>&1
EXECS=$(grep -oE "#[0-9]+: cov" "$WORK/log" | tail -1 | tr -dc 0-9)
N=0; rc=0
for a in "$WORK"/artifacts/crash-* "$WORK"/artifacts/oom-* "$WORK"/artifacts/timeout-*; do
  [ -f "$a" ] || continue
  N=$((N+1))
  mkdir -p "$ROOT/replays/C10"
  R="$ROOT/replays/C10/fuzz-$(basename "$a").json"
  python3 - "$a" "$R" <<'PY'
import json,sys
data=open(sys.argv[1],'rb').read()
try: text=data.decode('utf-8')
except UnicodeDecodeError: sys.exit(3)
json.dump({"property":"C10","signature":"libfuzzer-artifact","what":"input found by the libFuzzer supplement","artefact":{"origin":"libfuzzer","text":text}},open(sys.argv[2],'w'))
PY
  [ $? -eq 0 ] || continue
  OUT="$("$ROOT/engine/target/release/verif" replay C10 "$R" 2>&1)"
  if echo "$OUT" | grep -q "^VIOLATION"; then echo "$OUT" | grep -E "^(violation|VIOLATION)"; rc=1; else rm -f "$R"; fi
done
echo "C10 libFuzzer supplement: ${SECS}s on $(nproc) workers, about ${EXECS:-?} executions, $N artifacts, confirmed violations: $([ $rc -eq 1 ] && echo yes || echo none)"
# Record in the evidence file written by the engine run that precedes this script.
EV="$ROOT/evidence/C10.json"
if [ -f "$EV" ]; then
  jq --arg s "$SECS" --arg e "${EXECS:-0}" --arg n "$N" '.coverage.libfuzzer_supplement = {seconds: ($s|tonumber), executions: ($e|tonumber), artifacts: ($n|tonumber)}' "$EV" > "$EV.tmp" && mv "$EV.tmp" "$EV"
fi
rm -rf "$WORK"
exit $rc
