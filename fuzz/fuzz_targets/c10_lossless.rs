//! C10 supplement: coverage-guided search for texts whose syntax tree does not reproduce them.
//! The oracle is inside the target: the text of the tree (tokens and trivia, in order) must be the
//! input, and every node's span must be the sum of its children's.
#![no_main]

use cairo_lang_parser::utils::SimpleParserDatabase;
use cairo_lang_syntax::node::SyntaxNode;
use libfuzzer_sys::fuzz_target;
use salsa::Database;

fn walk(db: &dyn Database, n: SyntaxNode<'_>, depth: usize) {
    if depth > 4000 {
        return;
    }
    let children = n.get_children(db);
    if children.is_empty() {
        return;
    }
    let mut at = n.offset(db).as_u32();
    for c in children.iter() {
        if c.offset(db).as_u32() != at {
            panic!("C10: child of {:?} starts at {} but the previous sibling ends at {at}", n.kind(db), c.offset(db).as_u32());
        }
        at += c.width(db).as_u32();
        walk(db, *c, depth + 1);
    }
    if at != n.offset(db).as_u32() + n.width(db).as_u32() {
        panic!("C10: children of {:?} do not tile its span", n.kind(db));
    }
}

fuzz_target!(|data: &[u8]| {
    let Ok(text) = std::str::from_utf8(data) else { return };
    if text.len() > 2048 {
        return;
    }
    // A fresh database per input: no state leaks between iterations.
    let db = SimpleParserDatabase::default();
    let (root, _diags) = db.parse_virtual_with_diagnostics(text);
    let got = root.get_text(&db);
    if got != text {
        panic!("C10: the text of the syntax tree differs from the input: {:?} vs {:?}", got, text);
    }
    if root.width(&db).as_u32() as usize != text.len() || root.offset(&db).as_u32() != 0 {
        panic!("C10: the root does not span the file");
    }
    walk(&db, root, 0);
});
